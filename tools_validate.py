"""Validate MANIFEST.json and all evidence files against the schemas (run with python3-vt)."""
import json, glob, sys
import jsonschema
m = json.load(open('/verif/MANIFEST.json'))
jsonschema.validate(m, json.load(open('/root/.vp/MANIFEST.schema.json')))
es = json.load(open('/root/.vp/EVIDENCE.schema.json'))
for c in m['checks']:
    f = c['evidence_file']
    try:
        jsonschema.validate(json.load(open(f)), es)
        print("ok", f)
    except Exception as e:
        print("BAD", f, str(e)[:200])
ids = {c['property_id'] for c in m['checks']} | {n['property_id'] for n in m.get('not_applicable', [])}
print("manifest valid; covered:", len(ids))
