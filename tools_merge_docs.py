"""Inject THEOREMS_DOC dict literals found in notes/Cxx-proofs.md into harness/props/cxx.py."""
import ast, re, sys, pathlib
for pid in sys.argv[1:]:
    note = pathlib.Path(f"/verif/notes/{pid}-proofs.md").read_text()
    m = re.search(r"THEOREMS_DOC\s*=\s*\{", note)
    if not m:
        print(pid, "no THEOREMS_DOC in notes"); continue
    i = m.end() - 1
    depth = 0
    for j in range(i, len(note)):
        if note[j] == "{": depth += 1
        elif note[j] == "}":
            depth -= 1
            if depth == 0: break
    lit = note[i:j + 1]
    d = ast.literal_eval(lit)
    p = pathlib.Path(f"/verif/harness/props/{pid.lower()}.py")
    s = p.read_text()
    new = "THEOREMS_DOC = " + repr(d).replace("', '", "',\n    '").replace("{'", "{\n    '", 1)
    s2, n = re.subn(r"THEOREMS_DOC\s*=\s*\{\}", lambda _: new, s, count=1)
    if n == 0:
        s2, n = re.subn(r"THEOREMS_DOC\s*=\s*\{.*?\n\}", lambda _: new, s, count=1, flags=re.S)
    p.write_text(s2)
    print(pid, len(d), "theorems documented", "replaced" if n else "NOT REPLACED")
