"""Entry point: python -m harness.main Cxx [--tier quick|thorough] [--replay file]."""
import argparse
import importlib
import json
import os
import sys
import time
import traceback

import logging

from harness import core

logging.disable(logging.CRITICAL)
from harness.core import log


def write_evidence(prop, res, tier, seed, wall, obligations, discharged, checker_cmd, axioms, broken, known_matched):
    cov = {
        "obligations": max(obligations, 1),
        "discharged": discharged,
        "checker_cmd": checker_cmd,
        "trusted_base": core.TRUSTED_BASE + list(getattr(prop, "TRUSTED", [])),
        "theorems": getattr(prop, "THEOREMS_DOC", {}),
        "axioms": axioms,
        "evaluations": res.evaluations,
        "distinct_nontrivial": len(res.nontrivial),
        "rule": res.rule or getattr(prop, "RULE", ""),
        "samples": res.samples or [{"note": "no case was run (build broken before the tie could run)"}],
        "input_distribution": res.dist,
        "broken": broken,
        "known_findings_matched": known_matched,
    }
    if res.exhaustive is not None:
        cov["exhaustive"] = res.exhaustive
    cov.update(res.extra)
    ev = {
        "property_id": prop.ID,
        "tier": tier,
        "seed": seed,
        "level": "proof",
        "coverage": cov,
        "assumptions": list(getattr(prop, "ASSUMPTIONS", [])) + res.assumptions,
        "wall_s": round(wall, 2),
        "violations": len([v for v in res.violations]),
    }
    core.EVID.mkdir(exist_ok=True)
    core.write_if_changed(core.EVID / f"{prop.ID}.json", json.dumps(ev, indent=1, default=str) + "\n")


def main(argv=None):
    ap = argparse.ArgumentParser()
    ap.add_argument("prop")
    ap.add_argument("--tier", default=os.environ.get("VERIF_TIER", "quick"), choices=["quick", "thorough"])
    ap.add_argument("--replay")
    ap.add_argument("--no-build", action="store_true", help="debug: skip coq build")
    args = ap.parse_args(argv)
    seed = int(os.environ.get("VERIF_SEED", "0") or 0)
    pid = args.prop.upper()
    prop = importlib.import_module(f"harness.props.{pid.lower()}")
    t0 = time.time()
    res = core.Result(pid)
    broken = []
    axioms = {}
    theorems = core.parse_props(prop.PROP_FILE)
    obligations = len(theorems)
    discharged = 0
    tag = getattr(prop, "RUNNER", "")
    shell_vo = f"theories/Model/Shell{tag}.vo"
    targets = [f"theories/Props/{prop.PROP_FILE}o", shell_vo]
    checker_cmd = "cd /verif/coq && ./mk.sh " + " ".join(targets) + "  (coq_makefile + make, full .vo) ; coqc Props/%s for Print Assumptions" % prop.PROP_FILE
    runner_ok = False

    if args.replay:
        case = json.loads(open(args.replay).read())
        with core.Lock():
            core.regenerate(getattr(prop, "TRANSLATORS", []))
            core.coq_build([shell_vo])
            runner_ok, _ = core.build_runner(tag)
        ctx = Ctx(args.tier, seed, core.Model(tag) if runner_ok else None)
        out = prop.replay(ctx, case)
        print(json.dumps(out, indent=1, default=str))
        return 1 if out.get("violates") else 0

    with core.Lock():
        if not args.no_build:
            gen = core.regenerate(getattr(prop, "TRANSLATORS", []))
            for name, err in gen.items():
                if err:
                    broken.append({"kind": "translator", "what": f"{name}: {err}"})
            hits = core.grep_gate()
            if hits:
                broken.append({"kind": "gate", "what": "forbidden vernacular: " + "; ".join(hits[:5])})
            ok, blog, bwall = core.coq_build(targets)
            log(f"[{pid}] coq build ok={ok} in {bwall:.1f}s")
            if ok:
                pa_ok, axioms, pa_out = core.print_assumptions(prop.PROP_FILE)
                bad_ax = {t: a for t, a in axioms.items() if any(x not in core.ALLOWED_AXIOMS for x in a)}
                if not pa_ok:
                    broken.append({"kind": "proof", "what": "Print Assumptions run failed: " + pa_out[-500:]})
                elif bad_ax:
                    broken.append({"kind": "proof", "what": f"unexpected axioms: {bad_ax}"})
                else:
                    discharged = obligations
            else:
                m = [l for l in blog.splitlines() if "Error" in l or l.startswith("File ")]
                broken.append({"kind": "proof", "what": "coq build failed: " + " | ".join(blog.strip().splitlines()[-12:])[-1500:], "files": m[:6]})
                # the model may still build
                ok2, _, _ = core.coq_build([shell_vo])
            runner_ok, rlog = core.build_runner(tag)
            if not runner_ok:
                broken.append({"kind": "model", "what": "model runner build failed: " + rlog[-800:]})
        else:
            discharged = obligations
            runner_ok = (core.BUILD / ("model_run" + tag)).exists()

    ctx = Ctx(args.tier, seed, core.Model(tag) if runner_ok else None)
    # Soft pins: the hand model of the core machine was written against particular versions of 62 functions of
    # /repo (AST fingerprints, docstrings and logging stripped).  A changed function is not a broken obligation -
    # the tie of a hand-written model is the correspondence run - but it enlarges the budget of that run (x4) and
    # is named in the evidence.
    if getattr(prop, "SOFT_PINS", None):
        try:
            from harness.translate import fingerprints
            pinned = json.loads((core.VERIF / "harness" / "pins" / (prop.SOFT_PINS + "_fingerprints.json")).read_text())
            now = dict(fingerprints.table())
            changed = sorted(k for k in set(pinned) | set(now) if pinned.get(k) != now.get(k))
        except Exception as exc:      # e.g. a modelled function was removed or renamed
            changed = [f"fingerprints unavailable: {type(exc).__name__}: {exc}"]
        res.extra["hand_modelled_functions_changed_since_the_model_was_written"] = changed
        if changed:
            log(f"[{pid}] hand-modelled functions changed: {changed[:6]} -> correspondence budget x4")
            ctx.scale = 4
    try:
        prop.run(ctx, res)
        known_keys = {f["key"] for f in core.load_findings() if f["property"] == pid and f["status"] == "known"}
        if broken and not any(v.found_input and v.key not in known_keys for v in res.violations):
            log(f"[{pid}] proof/tie broken -> search with enlarged budget")
            ctx.scale = max(ctx.scale, 4 if args.tier == "quick" else 16) * (2 if ctx.scale > 1 else 1)
            ctx.searching = True
            prop.run(ctx, res)
    except (KeyboardInterrupt, SystemExit):
        raise
    except BaseException:     # also asyncio.CancelledError and friends: a run never ends without a verdict line
        tb = traceback.format_exc()
        log(tb)
        broken.append({"kind": "harness", "what": "harness exception: " + tb[-1500:]})

    # verdict
    findings = core.load_findings()
    known = {f["key"]: f for f in findings if f["property"] == pid and f["status"] == "known"}
    printed = set()
    known_matched = []
    new = []
    for v in res.violations:
        if v.key in known:
            if v.key not in printed:
                print(f"KNOWN-FINDING: property={pid} {known[v.key]['what']}")
                printed.add(v.key)
                known_matched.append(v.key)
        else:
            new.append(v)
    rc = 0
    core.REPLAY.mkdir(parents=True, exist_ok=True)
    concrete = [v for v in new if v.found_input]
    reported = set()
    for v in concrete:
        if v.key in reported:
            continue
        reported.add(v.key)
        path = core.REPLAY / f"{pid}-{core.case_hash([v.key, v.case])}.json"
        path.write_text(json.dumps({"property": pid, "key": v.key, "what": v.what, "kind": v.kind, "case": v.case,
                                    "replay": f"./check {pid} --replay {path}"}, indent=1, default=str))
        print(f"VIOLATION property={pid} replay={path}")
        log(f"  {v.what}")
        rc = 1
        if len(reported) >= 5:
            break
    soft = [v for v in new if not v.found_input]
    if not concrete and (broken or soft):
        what = broken + [{"kind": v.kind, "what": v.what, "case": v.case} for v in soft[:5]]
        path = core.REPLAY / f"{pid}-broken-{core.case_hash(what)}.json"
        path.write_text(json.dumps({"property": pid, "no_failing_input_found": True, "no_longer_checks": what,
                                    "theorems": theorems}, indent=1, default=str))
        print(f"VIOLATION property={pid} replay={path} no-failing-input-found")
        for b in what[:3]:
            log("  " + str(b)[:600])
        rc = 1
    wall = time.time() - t0
    write_evidence(prop, res, args.tier, seed, wall, obligations, discharged, checker_cmd, axioms, broken, known_matched)
    log(f"[{pid}] tier={args.tier} evaluations={res.evaluations} nontrivial={len(res.nontrivial)} "
        f"violations={len(res.violations)} broken={len(broken)} wall={wall:.1f}s rc={rc}")
    return rc


class Ctx:
    def __init__(self, tier, seed, model):
        self.tier = tier
        self.seed = seed
        self.model = model
        self.scale = 1
        self.searching = False

    def budget(self, quick, thorough):
        return (quick if self.tier == "quick" else thorough) * self.scale

    def rng(self, *tags):
        return core.rng_for(self.seed, *tags, self.scale)


if __name__ == "__main__":
    sys.exit(main())
