"""C19 generators: byte streams from a history grammar (+ garbage, ending variants, invalid
UTF-8, multi-byte characters, empty and very long lines) and segmentations of a stream."""

VERSIONS = ["1.4", "1.5", "2.0", "2.1", "2.2"]
NODES = [1, 2, 7, 42, 254]
CHILDREN = [0, 1, 2, 5, 254]
# (presentation sub-type, value sub-type, payloads) valid in every protocol version
KINDS = [(6, 0, ["21.5", "-3", "0", "19.25"]),      # S_TEMP / V_TEMP
         (3, 2, ["0", "1"]),                          # S_LIGHT(S_BINARY) / V_LIGHT(V_STATUS)
         (4, 3, ["0", "55", "100"]),                  # S_DIMMER / V_DIMMER(V_PERCENTAGE)
         (0, 16, ["0", "1"])]                         # S_DOOR / V_TRIPPED
MB = ["é", "ß", "€", "温度", "𝄞", "😀", "Ω≈ç", " x", "ü "]
BAD_UTF8 = [b"\xff", b"\xc3", b"\xe2\x82", b"\xf0\x9f\x98", b"\x80", b"\xc0\xaf", b"\xed\xa0\x80", b"\xf8\x88"]
ENDINGS = [b"\n"] * 12 + [b"\r\n"] * 6 + [b"\r"] + [b"\n\n"] + [b"\n\r"] + [b"\r\r\n"]


def _desc(rng):
    k = rng.random()
    if k < 0.4:
        return rng.choice(["", "door", "Temp 1", "kitchen light", "x"])
    if k < 0.8:
        return rng.choice(["", "T "]) + rng.choice(MB) + rng.choice(["", " 1", rng.choice(MB)])
    return "d" * rng.choice([30, 130, 400])


def gen_setup(rng, version):
    """controller-side prefix: some known nodes/children/values; sometimes a smart sleep node
    with desired values and queued traffic waiting for the next wake-up"""
    acts = []
    world = {}
    sleepy = []
    if rng.random() < 0.3:
        return acts, world, sleepy
    two = version >= "2.0"
    for n in rng.sample(NODES, rng.choice([1, 1, 2, 3])):
        acts.append(["line", f"{n};255;0;0;17;{rng.choice(['2.2', '2.1.1', '1.5', '2.3.2'])}"])
        world[n] = {}
        for c in rng.sample(CHILDREN, rng.choice([0, 1, 2, 3])):
            st, vt, vals = rng.choice(KINDS)
            acts.append(["line", f"{n};{c};0;0;{st};{_desc(rng)}"])
            world[n][c] = (st, vt, vals)
            if rng.random() < 0.8:
                acts.append(["line", f"{n};{c};1;0;{vt};{rng.choice(vals)}"])
        if two and world[n] and rng.random() < 0.6:
            # wake-up makes it a smart sleep node; then the controller wants new values
            wake = f"{n};255;3;0;32;500" if version >= "2.2" else f"{n};255;3;0;22;1000"
            acts.append(["line", wake])
            sleepy.append(n)
            for c, (st, vt, vals) in world[n].items():
                if rng.random() < 0.7:
                    acts.append(["set", n, c, vt, rng.choice(vals)])
            if rng.random() < 0.5:
                c = rng.choice(list(world[n]))
                acts.append(["line", f"{n};{c};2;0;{world[n][c][1]};"])      # reply goes to the node's queue
            if rng.random() < 0.3:
                acts.append(["line", f"{n};255;3;0;6;0"])                    # config reply queued too
        elif rng.random() < 0.15:
            acts.append(["reboot", n])
    if rng.random() < 0.2:
        acts.append(["metric", 0])
    return acts, world, sleepy


def gen_frames(rng, version, world, n_frames, sleepy=()):
    """mostly valid frames (str) against a rough picture of what the gateway knows"""
    two = version >= "2.0"
    frames = []
    known = {n: dict(cs) for n, cs in world.items()}
    for _ in range(n_frames):
        k = rng.random()
        n = rng.choice(list(known) + NODES) if known else rng.choice(NODES)
        cs = known.get(n, {})
        if sleepy and rng.random() < 0.12:
            # a smart sleep node wakes up: burst of queued replies and desired values
            n = rng.choice(list(sleepy))
            frames.append(f"{n};255;3;0;32;500" if version >= "2.2" else f"{n};255;3;0;22;1000")
            continue
        if k < 0.08:
            frames.append(f"{n};255;0;0;{rng.choice([17, 18])};{rng.choice(['2.2', '2.0', '1.4'])}")
            known.setdefault(n, {})
        elif k < 0.18:
            c = rng.choice(CHILDREN)
            st, vt, vals = rng.choice(KINDS)
            frames.append(f"{n};{c};0;0;{st};{_desc(rng)}")
            if n in known:
                known[n].setdefault(c, (st, vt, vals))
        elif k < 0.40:
            if cs and rng.random() < 0.7:
                c = rng.choice(list(cs))
                st, vt, vals = cs[c]
            else:
                c = rng.choice(CHILDREN)
                st, vt, vals = rng.choice(KINDS)
            frames.append(f"{n};{c};1;{rng.choice([0, 0, 0, 1])};{vt};{rng.choice(vals)}")
        elif k < 0.50:
            if cs and rng.random() < 0.7:
                c = rng.choice(list(cs))
                vt = cs[c][1]
            else:
                c = rng.choice(CHILDREN)
                vt = rng.choice(KINDS)[1]
            frames.append(f"{n};{c};2;0;{vt};")
        elif k < 0.58:
            frames.append(f"{n};255;3;0;6;0")                       # I_CONFIG -> reply
        elif k < 0.63:
            frames.append(f"{n};255;3;0;1;")                        # I_TIME -> reply
        elif k < 0.67:
            frames.append("255;255;3;0;3;")                         # I_ID_REQUEST -> reply, new node
        elif k < 0.71:
            frames.append(f"{n};255;3;0;0;{rng.choice([0, 55, 100, 101])}")   # battery
        elif k < 0.75:
            frames.append(f"{n};255;3;0;{rng.choice([11, 12])};{rng.choice(['Sketch', '1.0', 'Sk ' + rng.choice(MB)])}")
        elif k < 0.78:
            frames.append("0;255;3;0;14;Gateway startup complete.")  # 2.x: reply I_DISCOVER
        elif k < 0.86:
            if two:
                sub = rng.choice([22, 22, 32, 21, 33]) if version >= "2.2" else rng.choice([22, 22, 21])
                frames.append(f"{n};255;3;0;{sub};{rng.choice(['0', '500', '1000'])}")
            else:
                frames.append(f"{n};255;3;0;9;TSF:MSG:READ,{n}-{n}-0")
        elif k < 0.89:
            frames.append(f"{n};255;4;0;0;{rng.choice(['0A0001005000D4460102', 'zz', '0100'])}")
        elif k < 0.95:
            # near misses: invalid payload / sub-type / header
            frames.append(rng.choice([
                f"{n};{rng.choice(CHILDREN)};1;0;2;5", f"{n};1;1;0;999;1", f"{n};1;9;0;0;1", f"256;1;1;0;0;1",
                f"{n};1;1;0;0", f"{n};1;1;0;0;1;2", f"{n};x;1;0;0;1", f"{n};255;3;0;0;abc", ";;;;;", f" {n} ;1;1;0;0;7 ",
                f"{n};1;1;0;0;" + "9" * rng.choice([50, 500, 3000]),
            ]))
        else:
            frames.append(None)                                      # garbage, filled in by gen_stream
    return frames


def gen_stream(rng, version, world, n_frames, sleepy=()):
    """bytes of the stream + feature tags"""
    out = bytearray()
    feats = set()
    for f in gen_frames(rng, version, world, n_frames, sleepy):
        if f is None:
            g = rng.random()
            if g < 0.3:
                body = bytes(rng.randrange(256) for _ in range(rng.choice([1, 3, 9, 40])))
                body = body.replace(b"\n", b"\x0b")
                feats.add("garbage-bytes")
            elif g < 0.5:
                body = b""
                feats.add("empty-line")
            elif g < 0.7:
                body = ("1;1;1;0;47;" + rng.choice(MB) * rng.choice([1, 3, 40])).encode()
                feats.add("multibyte")
            elif g < 0.85:
                body = b"1;1;1;0;0;2" + rng.choice(BAD_UTF8) + rng.choice([b"", b"1", b"\xbf"])
                feats.add("invalid-utf8")
            else:
                body = b"x" * rng.choice([300, 1500, 5000])
                feats.add("long-line")
        else:
            body = f.encode("utf-8")
            if any(ord(ch) > 127 for ch in f):
                feats.add("multibyte")
            if len(body) > 200:
                feats.add("long-line")
            if rng.random() < 0.04:
                body = body + rng.choice(BAD_UTF8)
                feats.add("invalid-utf8")
        e = rng.choice(ENDINGS)
        out += body + e
        feats.add({b"\n": "lf", b"\r\n": "crlf", b"\r": "cr-only", b"\n\n": "lf-lf", b"\n\r": "lf-cr",
                   b"\r\r\n": "cr-crlf"}[e])
    if rng.random() < 0.3:
        out += rng.choice([b"1;255;3;0;6", b"\r", b"\xe2\x82", b"partial", b"1;2;1;0;2;1\r"])
        feats.add("unterminated-tail")
    return bytes(out), sorted(feats)


# ---------------------------------------------------------------- segmentations

def cut(stream, positions):
    ps = [0] + sorted(p for p in positions if 0 <= p <= len(stream)) + [len(stream)]
    return [stream[a:b] for a, b in zip(ps, ps[1:])]


def segmentations(rng, stream, n_random=8):
    """named chunk lists, each concatenating to the stream.  Duplicate positions give empty chunks."""
    n = len(stream)
    segs = [("whole", [stream]), ("bytes", [stream[i:i + 1] for i in range(n)]),
            ("recv120", [stream[i:i + 120] for i in range(0, n, 120)])]
    inside = [i for i in range(1, n) if stream[i] & 0xC0 == 0x80]          # before a continuation byte
    segs.append(("inside-multibyte", cut(stream, inside)))
    crlf = [i for i in range(1, n) if stream[i] == 10 and stream[i - 1] == 13]
    segs.append(("between-cr-lf", cut(stream, crlf)))
    lf = [i for i in range(n) if stream[i] == 10]
    segs.append(("around-lf", cut(stream, lf + [i + 1 for i in lf])))
    for k in range(n_random):
        dens = rng.choice([0.005, 0.02, 0.08, 0.3])
        pos = [i for i in range(n + 1) if rng.random() < dens]
        if rng.random() < 0.5 and pos:
            pos += rng.sample(pos, max(1, len(pos) // 4))                    # empty chunks
        if inside and rng.random() < 0.5:
            pos.append(rng.choice(inside))
        if crlf and rng.random() < 0.5:
            pos.append(rng.choice(crlf))
        segs.append((f"random{k}", cut(stream, pos)))
    for name, cs in segs:
        assert b"".join(cs) == stream, name
    return segs
