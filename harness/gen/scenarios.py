"""Directed scenario generators: histories that reach the smart-sleep and OTA paths which the generic
grammar (harness/gen/histories.py) reaches too rarely. Same op format as gwrun.Impl.op.

    sleep_history(rng, cfg, length)   2-3 nodes on a 2.0/2.1/2.2 gateway, early wake-up announcements, then an
                                      interleaving of controller sets, reports, reqs, late children, reboot
                                      requests, unknown traffic, repeated wake-ups (C07, C08)
    ota_history(rng, cfg, length)     1-3 nodes, update calls of every kind, config/block requests well-formed
                                      and malformed, sets, presentations, restarts of sessions (C10)

Every random choice comes from the rng passed in. The generators keep a *belief* about the gateway state
(known nodes, children, scheduled firmware) only to aim the traffic; nothing depends on it being exact.
"""
from harness.gen.histories import Gen, VERSIONS, MAXSUB, VALID_SET, INVALID_SET, hexw

SLEEP_VERSIONS = ["2.0", "2.1", "2.2"]
NODE_KINDS = ["never", "1.4", "1.5.1", "same", "2.3"]
FREE_VALUES = ["21.5", "on", "hello world", "0", "1", "-3", ""]
SET_SUBS = [2, 3, 22, 23, 47, 0, 1, 16, 24, 37, 21]


def make_cfg(rng, versions, mqtt_rate=0.1, flavours=("sync", "async")):
    from harness import gwcheck
    return gwcheck.spell(rng, {"ver": rng.choice(versions), "flavour": rng.choice(flavours),
                               "callback": rng.random() < 0.85, "cb_raises": rng.random() < 0.2,
                               "mqtt": rng.random() < mqtt_rate})


class Net:
    """History under construction + the generator's belief about the gateway."""

    def __init__(self, rng, cfg):
        self.r = rng
        self.cfg = cfg
        self.ver = cfg["ver"]
        self.vi = VERSIONS.index(self.ver)
        self.sync = cfg["flavour"] == "sync"
        self.ops = []
        self.known = []          # node ids in arrival order
        self.kids = {}           # node -> presented children
        self.kind = {}           # node -> NODE_KINDS entry
        self.rep = {}            # (node, child) -> [value types reported]
        self.want = []           # (node, child, vt) with a desired value believed pending
        self.sleepers = []       # nodes that announced a wake-up while having children
        self.late = []           # (node, child) presented after the node's first wake-up
        self.sched = {}          # node -> (t, v) believed scheduled
        self.images = {}         # (t, v) -> number of blocks
        self.crcs = {}           # (t, v) -> CRC-16 of the padded image (what the gateway advertises)
        self.nextblk = {}        # node -> next block index of the sequential fetch
        self.backlog = 0         # threaded flavour: estimate of jobs waiting for the pump
        self.subs = [s for s in SET_SUBS if s <= MAXSUB[1][self.vi]]
        self.noise = Gen(rng, cfg)
        self.lazy = rng.random() < 0.25     # threaded flavour: this history pumps rarely

    # -- primitives ----------------------------------------------------------------------------
    def pump(self, k=1):
        if self.sync:
            self.ops.extend([("pump",)] * k)
            self.backlog = max(0, self.backlog - k)

    def settle(self):
        self.pump(self.backlog + 2)

    def after(self):
        if not self.sync:
            return
        p = self.r.random()
        if self.lazy:
            p = 0.55 + 0.45 * p if p > 0.3 else p
        if p < 0.55:
            self.pump(1)
        elif p < 0.70:
            self.pump(self.r.randrange(2, 6))
        # else: the line stays pending

    def recv(self, line, extra_jobs=0):
        self.ops.append(("recv", line))
        self.backlog += 1 + extra_jobs
        self.after()

    def call(self, op):
        self.ops.append(op)
        if op[0] == "setchild":
            self.backlog += 1
        self.after()

    # -- network set-up ------------------------------------------------------------------------
    def add_node(self, kind):
        r = self.r
        if kind == "never":
            nid = max(self.known) + 1 if self.known else 1
            if nid > 254:
                kind = "same"
            else:
                self.recv("255;255;3;0;3;")
        if kind != "never":
            nid = r.choice([n for n in [1, 2, 3, 7, 42, 100, 200, 201] if n not in self.known])
            ver = self.ver if kind == "same" else kind
            self.recv(f"{nid};255;0;0;{r.choice([17, 17, 18])};{ver}")
        self.known.append(nid)
        self.kids[nid] = []
        self.kind[nid] = kind
        return nid

    def present_child(self, n, c):
        r = self.r
        self.recv(f"{n};{c};0;0;{r.randrange(0, 20)};{r.choice(['', 'd', 'Temp sensor'])}")
        if c not in self.kids.setdefault(n, []):
            self.kids[n].append(c)
            if n in self.sleepers:
                self.late.append((n, c))

    def valid_value(self, vt):
        r = self.r
        return r.choice(VALID_SET[vt]) if vt in VALID_SET else r.choice(FREE_VALUES)

    def report(self, n, c, vt, payload=None, ack=None):
        r = self.r
        if payload is None:
            payload = self.valid_value(vt)
        if ack is None:
            ack = r.choice([0, 0, 0, 1])
        self.recv(f"{n};{c};1;{ack};{vt};{payload}")
        if c in self.kids.get(n, []):
            lst = self.rep.setdefault((n, c), [])
            if vt not in lst:
                lst.append(vt)
            if (n, c, vt) in self.want:
                self.want.remove((n, c, vt))

    def wake(self, n):
        sub = 32 if self.ver == "2.2" else 22
        self.recv(f"{n};255;3;0;{sub};{self.r.choice(['500', '500', '0', '30000'])}", extra_jobs=3)
        if self.kids.get(n) and n not in self.sleepers and n in self.known:
            self.sleepers.append(n)

    def a_node(self, prefer_sleeping=0.75):
        r = self.r
        if self.sleepers and r.random() < prefer_sleeping:
            return r.choice(self.sleepers)
        return r.choice(self.known)

    def a_child(self, n):
        r = self.r
        ch = self.kids.get(n) or [1]
        return r.choice(ch) if r.random() < 0.93 else r.choice([0, 1, 3, 8, 250])

    def a_vt(self, n, c):
        r = self.r
        rep = self.rep.get((n, c))
        if rep and r.random() < 0.7:
            return r.choice(rep)
        return r.choice(self.subs)

    # -- controller sets on (mostly) sleeping nodes -------------------------------------------------
    def setchild(self, n=None, c=None):
        r = self.r
        n = self.a_node(0.85) if n is None else n
        c = self.a_child(n) if c is None else c
        vt = self.a_vt(n, c)
        k = r.random()
        old = self.kind.get(n) in ("never", "1.4")
        if k < 0.50:
            if old and (vt > 39 or vt == 22):      # a type the node's own (1.4) rules accept as well
                ok = [x for x in self.rep.get((n, c), []) if x <= 39 and x != 22]
                vt = r.choice(ok) if ok else r.choice([2, 3, 23, 0, 1])
            val = self.valid_value(vt)
        elif k < 0.60:
            val = r.choice(INVALID_SET[vt]) if vt in INVALID_SET else r.choice(["x", "", "101"])
        elif k < (0.80 if old else 0.66):
            vt, val = 22, r.choice(["1", "0", "1"])           # binary in 1.4, word list from 1.5
        elif k < 0.90:
            val = {2: r.choice([0, 1, 2]), 3: r.choice([0, 50, 100, 101]), 23: r.choice([55, 0, 101]),
                   22: r.choice([1, 0])}.get(vt, r.choice([7, -3, 0]))
        else:
            val = r.choice(["a;b", "1;2", "x\ny", "trail ", "é;", " 1"])
        sp = r.random()
        if sp < 0.45:
            vts = vt
        elif sp < 0.93:
            vts = str(vt)
        else:
            vts = r.choice([f" {vt} ", "x", "", f"{vt}.0", f"+{vt}", f"0{vt}"])
        mt = r.choice([None, None, None, None, 1, 2])
        ack = r.choice([None, None, None, 0, 1])
        self.call(("setchild", n, c, vts, val, mt, ack))
        if n in self.sleepers and c in self.kids.get(n, []) and (n, c, vt) not in self.want:
            self.want.append((n, c, vt))

    def req(self, n=None, c=None):
        r = self.r
        k = r.random()
        if n is not None:
            vt = self.a_vt(n, c)
        elif self.want and k < 0.45:
            n, c, vt = r.choice(self.want)
        elif self.late and k < 0.65:
            n, c = r.choice(self.late)
            vt = self.a_vt(n, c)
        else:
            n = self.a_node(0.7)
            c = self.a_child(n)
            vt = self.a_vt(n, c)
        self.recv(f"{n};{c};2;{r.choice([0, 0, 0, 1])};{vt};")

    def late_child(self):
        r = self.r
        if not self.sleepers:
            return self.setchild()
        n = r.choice(self.sleepers)
        free = [c for c in [3, 4, 6, 9, 77, 253] if c not in self.kids[n]]
        if not free:
            return self.req()
        c = r.choice(free)
        self.present_child(n, c)
        for _ in range(r.choice([1, 2, 3])):
            k = r.random()
            if k < 0.40:
                self.report(n, c, r.choice(self.subs))
            elif k < 0.75:
                self.req(n, c)
            else:
                self.setchild(n, c)

    def unknown_traffic(self):
        r = self.r
        k = r.random()
        stranger = r.choice([n for n in [9, 50, 77, 150, 250] if n not in self.known])
        if k < 0.45:       # unknown child of a (sleeping) node: the presentation request is withheld
            n = self.a_node(0.85)
            c = r.choice([c for c in [11, 12, 13, 99] if c not in self.kids.get(n, [])])
            sub = r.choice(self.subs)
            self.recv(r.choice([f"{n};{c};1;0;{sub};{self.valid_value(sub)}", f"{n};{c};2;0;{sub};"]), extra_jobs=1)
        elif k < 0.60:
            n = self.a_node(0.85)
            self.call(("setchild", n, r.choice([11, 12, 13, 99]), 2, "1", None, None))
        elif k < 0.85:     # unknown node: the presentation request leaves at once
            sub = r.choice(self.subs)
            self.recv(r.choice([f"{stranger};1;1;0;{sub};{self.valid_value(sub)}", f"{stranger};255;3;0;0;55",
                                f"{stranger};1;0;0;6;child of unknown", f"{stranger};255;3;0;21;0",
                                f"{stranger};255;3;0;{32 if self.ver == '2.2' else 22};500"]), extra_jobs=1)
        else:
            self.call(("setchild", stranger, 1, 2, "1", None, None))

    def internal_misc(self):
        r = self.r
        n = self.a_node(0.7)
        k = r.random()
        if k < 0.20:
            self.recv(f"{n};255;3;0;6;0")                       # config request: answer withheld for a sleeper
        elif k < 0.35:
            self.recv(f"{n};255;3;0;1;")                        # time request
        elif k < 0.50:
            self.recv(f"{n};255;3;0;0;{r.choice(['77', '100', '0'])}")
        elif k < 0.60:
            self.recv(f"{n};255;3;0;{r.choice([11, 12])};{r.choice(['Sketch', '1.0'])}")
        elif k < 0.70:
            self.recv("255;255;3;0;3;")
            nid = max(self.known) + 1
            if nid <= 254:
                self.known.append(nid)
                self.kids[nid] = []
                self.kind[nid] = "never"
        elif k < 0.85:      # the node presents itself again (new version string; ends a reboot window)
            kind = r.choice(NODE_KINDS[1:])
            self.recv(f"{n};255;0;0;17;{self.ver if kind == 'same' else kind}")
            self.kind[n] = kind
        elif k < 0.93:
            other = 22 if self.ver == "2.2" else 32             # 2.2: plain heartbeat; 2.0/2.1: not in the protocol
            self.recv(f"{n};255;3;0;{other};500")
        else:
            self.recv(r.choice(["0;255;3;0;14;Gateway startup complete", f"{n};255;3;0;21;0", f"{n};255;3;0;9;log"]))

    def update_and_sets(self):
        r = self.r
        n = self.a_node(0.8)
        data = [r.randrange(256) for _ in range(r.choice([1, 16, 20]))]
        self.call(("updatefw", [n], 1, 1, data))
        self.sched[n] = (1, 1)
        self.images[(1, 1)] = 8
        for _ in range(r.choice([1, 1, 2])):
            c = self.a_child(n)
            self.report(n, c, self.a_vt(n, c))

    # -- firmware traffic ----------------------------------------------------------------------------
    def mangle(self, pay):
        """one of the malformed classes (the upper-case and trailing-blank variants are valid requests)."""
        r = self.r
        k = r.randrange(13)
        if k == 11:                         # all hex digits present, blanks / tabs BETWEEN byte pairs
            sep = r.choice([" ", "\t", "  "])
            return sep.join(pay[i:i + 4] for i in range(0, len(pay), 4))
        if k == 12:                         # ... or one separator somewhere between two bytes
            i = 2 * r.randrange(1, max(2, len(pay) // 2))
            return pay[:i] + r.choice([" ", "\t", "\x0b"]) + pay[i:]
        if k == 0:
            return pay[:-1]                 # odd length
        if k == 1:
            return pay[:-2] + "zz"          # non-hex
        if k == 2:
            return pay.upper()              # valid
        if k == 3:
            return pay + "00"               # too long
        if k == 4:
            return pay[:-4]                 # too short
        if k == 5:
            return ""                       # empty
        if k == 6:
            return "é" + pay[1:]            # non-ASCII
        if k == 7:
            return pay + " "                # trailing blank (stripped by the decoder: valid)
        if k == 8:
            return pay[:4] + " " + pay[5:]  # blank inside
        if k == 9:
            return "0x" + pay[2:]
        return pay + pay                    # twice as long

    def a_tv(self, n):
        r = self.r
        k = r.random()
        if n in self.sched and k < 0.8:
            return self.sched[n]
        if self.images and k < 0.92:
            return r.choice(sorted(self.images))
        return r.choice([(1, 1), (2, 1), (9, 9), (65535, 65535), (0, 0)])

    def config_request(self, n=None, malformed=None):
        r = self.r
        n = self.a_node(0.3) if n is None else n
        t, v = self.a_tv(n) if r.random() < 0.5 else r.choice([(1, 1), (2, 2), (10, 3), (65535, 0)])
        pay = hexw(t, v, r.choice([0, 8, 16, 1000]), r.randrange(0, 65536), r.choice([0x0102, 0xFFFF, 0]))
        if (t, v) in self.crcs and r.random() < 0.35:
            # the node reports exactly the image that is scheduled (same block count and CRC: a forced re-flash)
            pay = hexw(t, v, self.images[(t, v)], self.crcs[(t, v)], 0x0102)
        if malformed is None:
            malformed = r.random() < 0.3
        if malformed:
            pay = self.mangle(pay)
        self.recv(f"{n};255;4;0;0;{pay}")
        self.nextblk[n] = 0

    def block_request(self, n=None, idx=None, malformed=None):
        r = self.r
        n = self.a_node(0.3) if n is None else n
        t, v = self.a_tv(n)
        nb = self.images.get((t, v), 8)
        if idx is None:
            k = r.random()
            if k < 0.45:
                idx = self.nextblk.get(n, 0)
                self.nextblk[n] = idx + 1
            else:
                idx = r.choice([0, 1, nb - 1, nb - 1, nb, nb + 1, 65535, r.randrange(0, nb)])
        pay = hexw(t, v, idx)
        if malformed is None:
            malformed = r.random() < 0.25
        if malformed:
            pay = self.mangle(pay)
        self.recv(f"{n};255;4;0;2;{pay}")

    def update_call(self):
        r = self.r
        k = r.random()
        stranger = r.choice([n for n in [9, 50, 77, 150, 250] if n not in self.known])
        if k < 0.50:
            nids = [r.choice(self.known)]
        elif k < 0.70:
            nids = r.sample(self.known, r.randrange(1, len(self.known) + 1)) + ([stranger] if r.random() < 0.5 else [])
            r.shuffle(nids)
        elif k < 0.80:
            nids = [stranger]
        elif k < 0.85:
            nids = []
        else:
            nids = [r.choice(self.known), r.choice(self.known)]
        t, v = r.choice([(1, 1), (1, 1), (1, 2), (2, 1), (300, 7), (65535, 65535), (0, 0)])
        j = r.random()
        if j < 0.12:
            t = r.choice([70000, -1, "x", "7", 65536])
        elif j < 0.16:
            v = r.choice([70000, -1, "x", "3"])
        d = r.random()
        if d < 0.62:
            data = [r.randrange(256) for _ in range(r.choice([1, 15, 16, 17, 31, 100, 127, 128, 129, 255, 256, 257]))]
        elif d < 0.66:
            data = []
        else:
            data = None
        self.call(("updatefw", nids, t, v, data))
        try:
            tw, vw = int(t), int(v)
        except ValueError:
            return
        if not (0 <= tw <= 65535 and 0 <= vw <= 65535) or data == []:
            return
        if data is not None:
            self.images[(tw, vw)] = (len(data) // 128 + 1) * 8
            import crcmod.predefined
            padded = bytes(data) + b"\xff" * (16 * self.images[(tw, vw)] - len(data))
            self.crcs[(tw, vw)] = crcmod.predefined.mkCrcFun("modbus")(padded)
        if (tw, vw) in self.images:
            for n in nids:
                if n in self.known:
                    self.sched[n] = (tw, vw)
                    self.nextblk[n] = 0

    def session(self):
        """a whole session for one node: update call, config request, every block in order (with the
        occasional interruption), sometimes a repeated config request at the end (must stay unanswered)."""
        r = self.r
        n = r.choice(self.known)
        size = r.choice([1, 16, 100, 127, 128])
        t, v = r.choice([(1, 1), (1, 2), (2, 1)])
        self.call(("updatefw", [n], t, v, [r.randrange(256) for _ in range(size)]))
        self.sched[n] = (t, v)
        nb = (size // 128 + 1) * 8
        self.images[(t, v)] = nb
        self.recv(f"{n};255;4;0;0;{hexw(t, v, 0, 0, 0x0102)}")
        for i in range(nb):
            self.recv(f"{n};255;4;0;2;{hexw(t, v, i)}")
            if r.random() < 0.12:
                self.ota_step(nested=True)
        k = r.random()
        if k < 0.4:
            self.recv(f"{n};255;4;0;0;{hexw(t, v, nb, 0, 0x0102)}")     # finished node asks again: no re-flash
        elif k < 0.7:
            self.recv(f"{n};255;0;0;17;{self.ver}")                    # node reboots and presents itself

    def set_message(self):
        r = self.r
        n = r.choice(list(self.sched) if self.sched and r.random() < 0.7 else self.known)
        c = self.a_child(n)
        vt = r.choice(self.subs)
        self.report(n, c, vt)

    def ota_step(self, nested=False):
        r = self.r
        k = r.random()
        if k < 0.16:
            self.update_call()
        elif k < 0.32:
            self.config_request(n=r.choice(list(self.sched)) if self.sched and r.random() < 0.75 else None)
        elif k < 0.60:
            self.block_request(n=r.choice(list(self.sched)) if self.sched and r.random() < 0.8 else None)
        elif k < 0.66 and not nested:
            self.session()
        elif k < 0.78:
            self.set_message()
        elif k < 0.84:
            n = r.choice(self.known)
            self.recv(f"{n};255;0;0;{r.choice([17, 18])};{r.choice([self.ver, '1.4', '2.3'])}")
        elif k < 0.87:
            n = r.choice(self.known)
            self.present_child(n, r.choice([0, 1, 5, 6]))
        elif k < 0.90 and self.vi >= 2:
            self.wake(r.choice(self.known))
        elif k < 0.93:
            n = r.choice(self.known)
            self.call(("setchild", n, self.a_child(n), r.choice(self.subs), "1", None, None))
        elif k < 0.97:
            stranger = r.choice([n for n in [9, 50, 77, 150, 250] if n not in self.known])
            n = r.choice(self.known)
            self.recv(r.choice([f"{stranger};255;4;0;0;{hexw(1, 1, 8, 0, 0x0102)}", f"{stranger};255;4;0;2;{hexw(1, 1, 0)}",
                                f"{n};255;4;0;1;{hexw(1, 1, 8, 0)}", f"{n};255;4;0;3;{hexw(1, 1, 0)}00",
                                f"{n};255;4;0;{r.choice([4, 5])};00", f"{n};255;4;1;2;{hexw(*self.a_tv(n), 0)}",
                                f"{n};1;4;0;2;{hexw(1, 1, 0)}"]), extra_jobs=1)
        else:
            self.noise_line()

    def noise_line(self):
        self.noise.nodes = list(self.known)
        self.noise.children = {n: list(c) for n, c in self.kids.items()}
        self.recv(self.noise.line())

    def size(self):
        """number of ops that are not pumps (the `length` of a history counts these)."""
        return sum(1 for o in self.ops if o[0] != "pump")

    def finish(self):
        if self.sync:
            self.ops.extend([("pump",)] * max(12, min(self.backlog + 4, 40)))
        return self.ops


def sleep_history(rng, cfg, length):
    assert cfg["ver"] in SLEEP_VERSIONS
    r = rng
    g = Net(r, cfg)
    for _ in range(r.choice([2, 2, 3])):
        n = g.add_node(r.choice(NODE_KINDS))
        for c in r.sample([0, 1, 2, 5, 254, r.randrange(3, 250)], r.choice([1, 1, 2, 3])):
            g.present_child(n, c)
        for c in g.kids[n]:
            vts = r.sample(g.subs, r.choice([1, 2, 2, 3]))
            if g.kind[n] in ("never", "1.4") and 22 not in vts and r.random() < 0.6:
                vts.append(22)
            for vt in vts:
                g.report(n, c, vt)
    if r.random() < 0.85:
        g.settle()
    awake = r.choice(g.known) if r.random() < 0.5 else None          # one node may stay awake throughout
    for n in g.known:
        if n != awake and r.random() < 0.9:
            g.wake(n)
    if not g.sleepers:
        g.wake(r.choice(g.known))
    if r.random() < 0.7:
        g.settle()
    while g.size() < length:
        k = r.random()
        if k < 0.25:
            g.setchild()
        elif k < 0.38:
            g.wake(g.a_node(0.9))
        elif k < 0.50:      # a report: often the confirmation of a desired value
            if g.want and r.random() < 0.6:
                n, c, vt = r.choice(g.want)
            else:
                n = g.a_node(0.7)
                c = g.a_child(n)
                vt = g.a_vt(n, c)
            g.report(n, c, vt)
        elif k < 0.62:
            g.req()
        elif k < 0.67:
            g.late_child()
        elif k < 0.73:
            g.unknown_traffic()
        elif k < 0.78:
            g.update_and_sets()
        elif k < 0.86:
            g.internal_misc()
        elif k < 0.90:
            n = g.a_node(0.8)
            if r.random() < 0.5:
                g.config_request(n, malformed=r.random() < 0.2)
            else:
                g.block_request(n, malformed=r.random() < 0.2)
        elif k < 0.95:      # a plain controller set on a node that is awake
            n = awake if awake is not None and r.random() < 0.7 else r.choice(g.known)
            g.setchild(n)
        elif k < 0.97:
            g.call(r.choice([("metric", r.random() < 0.5), ("clock", r.choice([0, 1, 1700000000]))]))
        else:
            g.noise_line()
    # most histories end with a last round of wake-ups so that what was withheld late is still judged
    if r.random() < 0.7:
        for n in list(g.sleepers):
            if r.random() < 0.8:
                g.wake(n)
    return g.finish()


def ota_history(rng, cfg, length):
    r = rng
    g = Net(r, cfg)
    for _ in range(r.choice([1, 2, 2, 3])):
        n = g.add_node(r.choice(["never", "same", "same", "1.4", "2.3"]))
        for c in r.sample([0, 1, 5], r.choice([0, 1, 1, 2])):
            g.present_child(n, c)
    g.settle()
    if g.vi >= 2 and r.random() < 0.35:
        cand = [n for n in g.known if g.kids[n]]
        if cand:
            n = r.choice(cand)
            g.report(n, g.kids[n][0], 2, "1")
            g.wake(n)
            g.settle()
    while g.size() < length:
        g.ota_step()
    return g.finish()


def directed_cases(ctx, tag, n, history, versions, length=(20, 60), mqtt_rate=0.1):
    """`n` cases built by `history` (sleep_history / ota_history), each seeded from ctx.rng(tag, i)."""
    cases = []
    for i in range(n):
        rng = ctx.rng(tag, i)
        cfg = make_cfg(rng, versions, mqtt_rate)
        ops = history(rng, cfg, rng.randrange(*length))
        cases.append({"id": f"{tag}-{ctx.seed}-{ctx.scale}-{i}", "cfg": cfg, "ops": ops})
    return cases


def with_restarts(ctx, cases, tag, rate=0.3):
    """For a share of the cases: persistence (json / pickle) and ONE clean stop + start in the middle of the history,
    after which the nodes that had announced smart sleep announce it again (the transient state - desired values,
    hold queues, reboot flags, firmware sessions - does not survive a restart; the persisted tree does).
    Marks the chosen cases with c["_fmt"]; the caller assigns the files (scenarios_a.assign_persist)."""
    for i, c in enumerate(cases):
        r = ctx.rng(tag, "restart", i)
        if r.random() >= rate or len(c["ops"]) < 12 or c["cfg"].get("persist"):
            continue
        ops = c["ops"]
        k = r.randrange(len(ops) // 3, len(ops))
        wakes = [o for o in ops[:k] if o[0] == "recv" and (";3;0;22;" in o[1] or ";3;0;32;" in o[1])]
        again = []
        for o in r.sample(wakes, min(len(wakes), r.choice([0, 1, 2, 3]))):
            again += [o] + ([("pump",), ("pump",)] if c["cfg"]["flavour"] == "sync" else [])
        c["ops"] = ops[:k] + [("restart",)] + again + ops[k:]
        c["_fmt"] = r.choice(["pickle", "pickle", "json"])
    return cases


# ------------------------------------------------------------------------------------------------
# Hand-seeded corpus: short histories that walk the paths the properties are about (and the defects
# D1, D2, D4, D5 of DESIGN.md section 9 plus the 16-bit update check) deterministically.

def _R(line):
    return ("recv", line)


def _S(n, c, vt, v):
    return ("setchild", n, c, vt, v, None, None)


_IMG20 = list(range(1, 21))
_IMG130 = [(7 * i + 3) % 256 for i in range(130)]

SEEDED = {
    # child presented after the first wake-up: req / set / set_child_value on it; int and str value types
    "late-child": (["2.1"], [
        _R("1;255;0;0;17;2.1"), _R("1;0;0;0;3;d"), _R("1;0;1;0;2;1"), _R("1;255;3;0;22;500"),
        _R("1;5;0;0;3;late"), _R("1;5;1;0;2;0"), _R("1;5;2;0;2;"), _S(1, 5, 2, "1"), _R("1;255;3;0;22;500"),
        _S(1, 5, "2", 1), _S(1, 0, " 2 ", "0"), _R("1;5;2;1;2;"), _R("1;0;2;0;2;"), _R("1;255;3;0;22;500"),
        _R("1;5;1;0;2;1"), _R("1;255;3;0;22;500"), _R("1;0;1;1;2;0"), _R("1;255;3;0;22;500")]),
    # id-assigned node (version floor 1.4) on a newer gateway: sub-type 22 is binary for the node, a word for the gateway
    "old-node": (["2.0", "2.2"], [
        _R("255;255;3;0;3;"), _R("1;1;0;0;29;hvac"), _R("1;1;1;0;22;Auto"), _R("1;1;1;0;21;Off"), "WAKE 1",
        _S(1, 1, 22, "1"), _S(1, 1, "21", "HeatOn"), _S(1, 1, 22, "Auto"), _S(1, 1, 2, "1"), "WAKE 1", "WAKE 1",
        _R("1;1;1;0;21;HeatOn"), "WAKE 1", _R("1;1;2;0;2;"), "WAKE 1"]),
    # two nodes: replies of every kind withheld for the sleeper, the other node answered at once; order of the burst
    "burst-order": (["2.0", "2.1", "2.2"], [
        _R("1;255;0;0;17;SAME"), _R("1;0;0;0;3;a"), _R("1;1;0;0;6;b"), _R("2;255;0;0;17;SAME"), _R("2;0;0;0;3;c"),
        _R("1;0;1;0;3;50"), _R("1;1;1;0;0;21.5"), _R("1;1;1;0;47;hello"), _R("2;0;1;0;2;1"), "WAKE 1",
        _R("1;255;3;0;6;0"), ("clock", 1700000000), _R("1;255;3;0;1;"), _R("1;9;1;0;2;1"), _R("2;0;2;0;2;"),
        ("updatefw", [1], 1, 1, _IMG20), _R("1;0;1;0;3;60"), _S(1, 0, 3, 70), _S(1, 1, "47", "a;b"), _S(1, 1, 0, 22),
        _S(2, 0, 2, "0"), _R("1;0;2;0;3;"), _R("1;255;4;0;0;0100010008000000" + "0201"), "WAKE 2", _S(9, 0, 2, "1"),
        "WAKE 1", "WAKE 1", _R("1;1;1;0;0;22"), _R("1;255;0;0;17;SAME"), _R("1;0;1;0;3;70"), "WAKE 1", "WAKE 1"]),
    # a whole OTA session, repeated config, refusal after the fetch started, restart from stored firmware, reboot window
    "ota-session": (["1.4", "2.0", "2.2"], [
        _R("1;255;0;0;17;SAME"), _R("1;0;0;0;3;a"), _R("1;255;4;0;0;01000100080000000201"), _R("1;255;4;0;2;010001000000"),
        ("updatefw", [1], 1, 1, _IMG20), _R("1;0;1;0;3;50"), _R("1;255;4;0;2;010001000000"),
        _R("1;255;4;0;0;01000100080000000201"), _R("1;255;4;0;0;0100010008000000020A")] +
        [_R("1;255;4;0;2;01000100%02x00" % i) for i in range(8)] +
        [_R("1;255;4;0;2;010001000800"), _R("1;255;4;0;2;01000100FFFF"), _R("1;255;4;0;0;01000100080000000201"),
         ("updatefw", [1], 1, 1, None), _R("1;255;4;0;2;010001000000"), _R("1;255;4;0;0;01000100080000000201"),
         _R("1;255;4;0;2;020001000000"), _R("1;255;0;0;17;SAME"), _R("1;0;1;0;3;51"), _R("1;255;4;0;2;010001000100")]),
    # every malformed class in the states Requested, Offered and Fetching
    "ota-malformed": (["1.5", "2.1"], [
        _R("1;255;0;0;17;SAME"), _R("1;0;0;0;3;a"), ("updatefw", [1], 2, 1, _IMG130)] +
        [_R("1;255;4;0;0;" + p) for p in ["0200010018000000020", "02000100180000000zz1", "020001001800000002010000", "", "é200010018000000020 1"]] +
        [_R("1;255;4;0;0;02000100180000000201")] +
        [_R("1;255;4;0;2;" + p) for p in ["02000100000", "0200010000zz", "02000100000000", "ffffffff", "", "0x0001000000", "é20001000000"]] +
        [_R("1;255;4;0;2;020001001700")] +
        [_R("1;255;4;0;2;" + p) for p in ["02000100000", "0200010000zz", "02000100 000"]] +
        [_R("1;255;4;0;0;0200010018000000020"), _R("1;255;4;0;2;02000100180 "), _R("1;255;4;0;2;0200010017 ")]),
    # update calls that must not schedule anything, and the ones that must
    "ota-updates": (["2.0"], [
        _R("1;255;0;0;17;SAME"), _R("1;0;0;0;3;a"), _R("2;255;0;0;17;SAME"), ("updatefw", [1], 1, 1, None),
        ("updatefw", [9], 1, 1, _IMG20), ("updatefw", [1], 70000, 1, _IMG20), ("updatefw", [1], 1, -1, _IMG20),
        ("updatefw", [1], "x", 1, _IMG20), ("updatefw", [1], 65536, 65536, _IMG20), ("updatefw", [1], 1, 1, []),
        _R("1;255;4;0;0;01000100080000000201"), _R("1;0;1;0;3;50"), ("updatefw", [1, 9, 2], "7", 1, _IMG20),
        _R("1;255;4;0;0;01000100080000000201"), _R("2;255;4;0;0;01000100080000000201"), _R("1;0;1;0;3;51"),
        ("updatefw", [], 7, 1, None), ("updatefw", [2, 2], 1, 1, None), _R("2;255;4;0;2;070001000000"),
        _R("2;255;4;0;0;01000100080000000201"), _R("2;255;4;0;2;070001000000"), _R("2;255;4;0;2;030003000000")]),
}

CORPUS = {"C07": ["late-child", "old-node", "burst-order"], "C08": ["late-child", "old-node", "burst-order"],
          "C10": ["ota-session", "ota-malformed", "ota-updates", "burst-order"]}


def corpus_cases(prop):
    """The seeded histories of `prop` for every listed version, asyncio + threaded (pump after every op) +
    threaded with all pumps at the end."""
    cases = []
    for name in CORPUS[prop]:
        vers, ops = SEEDED[name]
        for ver in vers:
            wake = 32 if ver == "2.2" else 22
            conc = []
            for o in ops:
                if isinstance(o, str):
                    o = _R(f"{o.split()[1]};255;3;0;{wake};500")
                elif o[0] == "recv":
                    o = _R(o[1].replace("SAME", ver))
                conc.append(o)
            for flavour, style in (("async", ""), ("sync", "each"), ("sync", "late")):
                if style == "each":
                    seq = [x for o in conc for x in (o, ("pump",), ("pump",))] + [("pump",)] * 8
                elif style == "late":
                    seq = conc + [("pump",)] * (3 * len(conc))
                else:
                    seq = list(conc)
                cases.append({"id": f"{prop}-seed-{name}-{ver}-{flavour}{style}",
                              "cfg": {"ver": ver, "flavour": flavour, "callback": True, "cb_raises": False, "mqtt": False},
                              "ops": seq})
    return cases
