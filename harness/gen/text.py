"""Generators for strings: integer spellings, payloads, malformed lines."""
import unicodedata

SPACES = [chr(c) for c in (9, 10, 11, 12, 13, 0x1C, 0x1D, 0x1E, 0x1F, 0x20, 0x85, 0xA0, 0x1680,
                           0x2000, 0x2003, 0x200A, 0x2028, 0x2029, 0x202F, 0x205F, 0x3000)]
INT_SPACES = [c for c in SPACES if not ("\x1c" <= c <= "\x1f")]
DIGIT_STARTS = [0x30, 0x660, 0x6F0, 0x966, 0xFF10, 0x1D7CE, 0x1E950, 0x11066]
ODD = ["\x00", "\x7f", "\ud800", "\U0010ffff", "²", "½", "Ⅷ", "٫", "−", "﹣", "＋", "·", "é", "ß", "​", "﻿"]


def digit(rng, v, ascii_only=False):
    s = 0x30 if ascii_only or rng.random() < 0.7 else rng.choice(DIGIT_STARTS)
    return chr(s + v)


def int_spelling(rng, z=None, valid=True):
    """A spelling int() accepts for z (if valid) or a near miss."""
    if z is None:
        z = rng.choice([0, 1, 2, 3, 4, 5, 7, 9, 10, 22, 47, 100, 254, 255, 256, 65535, 2 ** 31, 2 ** 70, 2 ** 53 + 1, 10 ** 17 + 3,
                        rng.randrange(0, 300), rng.randrange(0, 10 ** 12)])
        if rng.random() < 0.2:
            z = -z
    ascii_only = rng.random() < 0.6
    ds = [digit(rng, int(ch), ascii_only) for ch in str(abs(z))]
    if rng.random() < 0.3:
        ds = [digit(rng, 0, ascii_only)] * rng.randrange(1, 4) + ds
    body = ""
    for i, d in enumerate(ds):
        if i and rng.random() < 0.15:
            body += "_"
        body += d
    sign = "-" if z < 0 else ("+" if rng.random() < 0.2 else "")
    if z == 0 and rng.random() < 0.2:
        sign = "-"
    lead = "".join(rng.choice(INT_SPACES) for _ in range(rng.choice([0, 0, 0, 1, 2])))
    trail = "".join(rng.choice(INT_SPACES) for _ in range(rng.choice([0, 0, 0, 1, 2])))
    s = lead + sign + body + trail
    if valid:
        return s, z
    k = rng.randrange(12)
    if k == 0:
        s = lead + sign + "_" + body + trail
    elif k == 1:
        s = lead + sign + body + "_" + trail
    elif k == 2:
        s = lead + sign + body.replace(ds[0], ds[0] + "__", 1) + ds[0] + trail
    elif k == 3:
        s = lead + sign + " " + body + trail
    elif k == 4:
        s = lead + sign + sign + "+" + body
    elif k == 5:
        s = lead + trail
    elif k == 6:
        s = body + rng.choice(ODD) + trail
    elif k == 7:
        s = rng.choice(["\x1c", "\x1d", "\x1e", "\x1f"]) + body
    elif k == 8:
        s = body + rng.choice(["\x1c", "\x1f"])
    elif k == 9:
        s = body + "." + rng.choice(["", "0", "5"])
    elif k == 10:
        s = body + rng.choice(["e3", "L", "x", "a", "0x1"])
    else:
        s = lead + sign + trail
    return s, None


ALPHABET = ("abcXYZ 0123456789-+_.,:/\\'\"!?%&()[]{}<>=*#@~^|`$" + "".join(SPACES) + "".join(ODD)
            + "äöüЖ中日本語😀𝟘٣۴")


def payload(rng, wire_ok=None, maxlen=12):
    """Random payload. wire_ok=True: no ';', no trailing isspace char; False: violates; None: any."""
    n = rng.choice([0, 0, 1, 1, 2, 3, 5, 8, maxlen, rng.randrange(0, 40)])
    s = "".join(rng.choice(ALPHABET) if rng.random() < 0.8 else chr(rng.choice(
        [rng.randrange(32, 127), rng.randrange(0, 0x3000), rng.randrange(0, 0x110000)])) for _ in range(n))
    if wire_ok is None:
        if rng.random() < 0.1:
            s += ";" + s[:2]
        return s
    s = s.replace(";", ":")
    if wire_ok:
        while s and s[-1].isspace():
            s = s[:-1]
        return s
    k = rng.randrange(3)
    if k == 0:
        return s + ";" + s[:3]
    return s + rng.choice(SPACES)


def garbage(rng):
    k = rng.randrange(10)
    if k == 0:
        return ""
    if k == 1:
        return ";" * rng.randrange(1, 9)
    if k == 2:
        return "".join(rng.choice(ALPHABET) for _ in range(rng.randrange(1, 30)))
    if k == 3:
        return ";".join(str(rng.randrange(0, 300)) for _ in range(rng.choice([1, 2, 3, 4, 5, 7, 8])))
    if k == 4:
        return ";".join(rng.choice(["", " ", "x", "1.0", "1e3", "0x10", "١", "1_", "--1", "+", "-"]) for _ in range(6))
    if k == 5:
        return "\n" * rng.randrange(1, 3) + ";;;;;"
    if k == 6:
        return "1;2;3;0;" + str(10 ** rng.randrange(20, 60)) + ";x"
    if k == 7:
        return "\x00;\x00;1;0;0;\x00"
    if k == 8:
        return "1;255;3;0;" * rng.randrange(1, 4)
    return "0;0;0;0;0;" + ";" * rng.randrange(0, 3)
