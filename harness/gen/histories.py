"""Grammar-based generator of gateway histories (mostly valid traffic + malformed stream)."""
from harness.gen import text

VERSIONS = ["1.4", "1.5", "2.0", "2.1", "2.2"]
MAXSUB = {0: [25, 35, 39, 39, 39], 1: [39, 46, 56, 56, 56], 2: [39, 46, 56, 56, 56], 3: [14, 17, 28, 28, 33], 4: [5] * 5}
NODE_VERSIONS = ["1.4", "1.4.1", "1.5", "1.5.0", "2.0", "2.0.0", "2.1.1", "2.2", "2.2.0", "2.3", "3.0", "1.3", "abc", "2.0-beta", "",
                 "1.4.0", "1.04", "1.4.0.0", "1.3.9", "2", "7 ."]

# payloads by set sub-type class
VALID_SET = {2: ["0", "1"], 3: ["0", "50", "100", " 7 "], 15: ["0", "1"], 16: ["1"], 36: ["0"], 21: ["Off", "HeatOn"],
             22: ["Auto", "Min", "1", "0"], 23: ["0", "55.5", "100"], 40: ["ff00aa"], 41: ["ff00aa80"], 44: ["20.5"],
             45: ["21"], 49: ["55.7,12.5,10"], 56: ["0.5", "-1"]}
INVALID_SET = {2: ["2", "on", "", "inf", "1e0"], 3: ["101", "-1", "x", "inf", "-Infinity", "1e999", "nan", "42.0", "1e1"], 15: ["2"], 16: [""], 36: ["x"], 21: ["heat"], 22: ["fast", "2"],
               23: ["101", "nan", "x"], 40: ["ff00a", "gg00aa"], 41: ["ff00aa8"], 44: ["100.5"], 45: ["-1"],
               49: ["1,2", "a,b,c"], 56: ["1.5", "x"]}
FREE_SET = [0, 1, 4, 5, 17, 24, 25, 37, 38, 47]


def hexw(*ws):
    return "".join("%02x%02x" % (w & 255, (w >> 8) & 255) for w in ws)


class Gen:
    def __init__(self, rng, cfg):
        self.rng = rng
        self.cfg = cfg
        self.vi = VERSIONS.index(cfg["ver"])
        self.nodes = rng.sample([0, 1, 2, 7, 100, 253, 254, 255, rng.randrange(3, 250)], rng.choice([1, 2, 2, 3, 4]))
        self.children = {n: rng.sample([0, 1, 2, 5, 254, rng.randrange(3, 250)], rng.choice([0, 1, 2, 3])) for n in self.nodes}
        self.fw = []   # (t, v) scheduled somewhere
        self.seen = []  # lines produced so far (source of the one-field-changed twins)

    def node(self):
        r = self.rng
        return r.choice(self.nodes) if r.random() < 0.9 else r.choice([0, 1, 3, 9, 254, 255])

    def child(self, n):
        r = self.rng
        ch = self.children.get(n) or [1]
        return r.choice(ch) if r.random() < 0.85 else r.choice([0, 1, 3, 8, 254])

    def set_sub(self):
        r = self.rng
        mx = MAXSUB[1][self.vi]
        pool = [s for s in list(VALID_SET) + FREE_SET if s <= mx]
        return r.choice(pool) if r.random() < 0.9 else r.choice([mx, mx + 1, r.randrange(0, mx + 1)])

    def set_payload(self, sub, valid=None):
        r = self.rng
        if valid is None:
            valid = r.random() < 0.85
        if sub in VALID_SET:
            return r.choice(VALID_SET[sub] if valid else INVALID_SET[sub])
        if r.random() < 0.7:
            return r.choice(["0", "1", "21.5", "on", "hello world", "x", "", "-3", "100"])
        return text.payload(r, wire_ok=True)

    def line(self):
        """one inbound line; 6%: an earlier line of this history with ONE header field changed (child 255 <-> an
        ordinary child, node / ack / type / sub-type just outside its range) - invalid twins of accepted traffic"""
        r = self.rng
        if self.seen and r.random() < 0.06:
            f = r.choice(self.seen).split(";", 5)
            if len(f) == 6:
                i = r.choice([0, 1, 1, 1, 2, 3, 4])
                f[i] = str(r.choice({0: [256, -1, 255], 1: [255, 255, 256, 0, 1] if f[1] != "255" else [0, 1, 254, 256],
                                     2: [5, -1, 0, 1, 2, 3, 4], 3: [2, -1, 1], 4: [MAXSUB[1][self.vi] + 1, -1, 57, 34]}[i]))
                return ";".join(f)
        l = self._line()
        if len(self.seen) < 60:
            self.seen.append(l)
        return l

    def _line(self):
        r = self.rng
        vi = self.vi
        k = r.random()
        n = self.node()
        if k < 0.10:   # node presentation
            sub = r.choice([17, 18]) if r.random() < 0.9 else r.randrange(0, MAXSUB[0][vi] + 1)
            return f"{n};255;0;0;{sub};{r.choice(NODE_VERSIONS)}"
        if k < 0.22:   # child presentation
            c = self.child(n)
            sub = r.randrange(0, MAXSUB[0][vi] + 2)
            return f"{n};{c};0;0;{sub};{r.choice(['', 'desc', 'Temp sensor', text.payload(r, wire_ok=True)])}"
        if k < 0.42:   # set
            sub = self.set_sub()
            return f"{n};{self.child(n)};1;{r.choice([0, 0, 0, 1])};{sub};{self.set_payload(sub)}"
        if k < 0.52:   # req
            sub = self.set_sub()
            return f"{n};{self.child(n)};2;0;{sub};{'' if r.random() < 0.9 else 'x'}"
        if k < 0.80:   # internal
            mx = MAXSUB[3][vi]
            sub = r.choice([0, 1, 3, 3, 6, 9, 11, 12, 14, 2, 13, 18, 21, 22, 22, 32, 32, 33, r.randrange(0, mx + 2)])
            pay = {0: r.choice(["0", "77", "100", "101", "x", "inf", "1e999", "nan", "-inf", "55.0", " 7 ", "٧"]), 1: r.choice(["", "5"]), 3: "", 6: r.choice(["0", "M", ""]),
                   9: "log text", 11: r.choice(["Sketch", "名前"]), 12: r.choice(["1.0", "v2"]), 14: "Gateway startup complete",
                   2: "2.2.0", 13: "", 18: "", 21: r.choice(["0", "7"]), 22: r.choice(["500", "0", "x", "inf", "1e999", "5.0"]),
                   32: r.choice(["500", "0", "", "inf", "nan"]), 33: "1"}.get(sub, r.choice(["", "0", "x"]))
            node = n if sub != 3 else r.choice([255, 255, n])
            child = 255 if r.random() < 0.93 else r.choice([0, 1])
            return f"{node};{child};3;0;{sub};{pay}"
        if k < 0.90:   # stream
            sub = r.choice([0, 0, 2, 2, 2, 1, 3, 4, 5])
            t, v = r.choice(self.fw) if self.fw and r.random() < 0.8 else (r.choice([1, 2]), r.choice([1, 2]))
            if sub == 0:
                pay = hexw(t, v, r.randrange(0, 100), r.randrange(0, 65536), 0x0102)
            elif sub == 2:
                pay = hexw(t, v, r.choice([0, 1, 2, 7, 8, 9, 100, 65535]))
            else:
                pay = "00"
            j = r.random()
            if j < 0.10:
                pay = pay[:-1]
            elif j < 0.15:
                pay = pay[:-2] + "zz"
            elif j < 0.2:
                pay = pay.upper()
            elif j < 0.24:
                pay = pay + "00"
            elif j < 0.27:
                pay = "é" + pay[1:]
            elif j < 0.29:
                pay = ""
            elif j < 0.33:
                pay = r.choice([" ", "\t"]).join(pay[i:i + 4] for i in range(0, len(pay), 4))
            return f"{n};255;4;0;{sub};{pay}"
        if k < 0.96:   # near misses
            hs, z = text.int_spelling(r, z=n)
            return f"{hs};{self.child(n)};{r.choice([1, 5, -1, 2])};{r.choice([0, 1, 2])};{r.randrange(0, 60)};{text.payload(r)}"
        return text.garbage(r)

    def call(self):
        r = self.rng
        k = r.random()
        if k < 0.75:
            n = self.node()
            c = self.child(n)
            sub = self.set_sub()
            if r.random() < 0.15:      # value types of OTHER protocol versions (newer-only / older-only)
                sub = r.choice(list(VALID_SET) + FREE_SET + [40, 41, 47, 49, 56])
            vt = sub if r.random() < 0.7 else str(sub)
            if r.random() < 0.03:
                vt = r.choice(["x", "", "1.0"])
            pay = self.set_payload(sub, valid=r.random() < 0.8)
            if r.random() < 0.15 and pay.lstrip("-").isascii() and pay.lstrip("-").isdigit():
                pay = int(pay)
            elif r.random() < 0.08:
                pay = r.choice(["a;b", "1;2", "x\ny", "trail ", "", "é;"])
            mt = r.choice([None, None, None, 1, 2])
            ack = r.choice([None, None, None, 0, 1])
            return ("setchild", n, c, vt, pay, mt, ack)
        if k < 0.95:
            nids = [self.node() for _ in range(r.choice([1, 1, 2, 3]))]
            t, v = r.choice([1, 2, 300]), r.choice([1, 2])
            if r.random() < 0.08:
                t = r.choice([70000, -1, "x", "7"])
            if r.random() < 0.7:
                data = [r.randrange(256) for _ in range(r.choice([1, 15, 16, 17, 100, 127, 128, 129, 200]))]
                self.fw.append((t, v) if isinstance(t, int) else (1, 1))
            else:
                data = None
            return ("updatefw", nids, t, v, data)
        return ("metric", r.random() < 0.5)

    def history(self, length):
        r = self.rng
        ops = []
        sync = self.cfg["flavour"] == "sync"
        # seed: make most nodes known early so that deep paths are reached
        for n in self.nodes:
            if r.random() < 0.8:
                ops.append(("recv", f"{n};255;0;0;17;{r.choice(NODE_VERSIONS[:9])}"))
                for c in self.children[n]:
                    if r.random() < 0.8:
                        ops.append(("recv", f"{n};{c};0;0;{r.randrange(0, 20)};d"))
        while len(ops) < length:
            k = r.random()
            if k < 0.70:
                l = self.line()
                tail = r.choice(["", "", "\n", "\r\n", " "])
                if r.random() < 0.08 and "\n" not in l and not self.cfg.get("mqtt"):
                    # delivered as BYTES through the line reader, with bytes that are not valid UTF-8 in the payload
                    try:
                        b = list(l.encode("utf-8"))
                    except UnicodeEncodeError:
                        b = None
                    if b is not None:
                        for _ in range(r.choice([0, 1, 1, 2])):
                            b.insert(r.randrange(l.rfind(";") + 1 if ";" in l else 0, len(b) + 1) if len(b) else 0,
                                     r.choice([0xFF, 0xC3, 0xE2, 0x80, 0xFE, 0xC0]))
                        b = [x for x in b if x != 10]
                        ops.append(("recvb", b + ([13] if tail == "\r\n" else [])))
                        if sync:
                            ops.append(("pump",))
                        continue
                ops.append(("recv", l + tail))
                if r.random() < 0.05:          # the same line delivered twice in a row (a retransmission)
                    if sync and r.random() < 0.5:
                        ops.append(("pump",))
                    ops.append(("recv", l + tail))
            elif k < 0.92:
                ops.append(self.call())
            elif k < 0.94:
                ops.append(("clock", r.choice([0, 1, 1700000000, 2 ** 33])))
            if sync:
                p = r.random()
                if p < 0.6:
                    ops.append(("pump",))
                elif p < 0.75:
                    ops.extend([("pump",)] * r.randrange(2, 5))
        if sync:
            ops.extend([("pump",)] * 12)
        return ops
