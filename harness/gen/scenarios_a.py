"""Directed history generators for C04, C05, C06, C11, C14 (on top of the generic grammar in histories.py).

Every generator takes (rng, cfg) and returns a list of ops in the format of harness.impl.gwrun.Impl.op.
"""
import os
import shutil

from harness import core
from harness.gen import text
from harness.gen.histories import Gen, VERSIONS, MAXSUB, NODE_VERSIONS, VALID_SET, FREE_SET

TEXTS = ["", "d", "Temp sensor", "名前", "😀 astral 𝟘", "tab\there", "nul\x00in", "esc\x1b[0m", "\x7f\x85", "a,b", "ß·é",
         " lead", "q\"uote\\", "{\"id\": 1}", "\U0010ffff", "line\x0bsep\x0c", "١٢٣", "lone\ud83dsurrogate", "\udcff"]
TAIL_KINDS = ["nodepres", "childpres", "set", "battery", "sketchname", "sketchversion", "heartbeat", "idreq"]


class Hist:
    """Op list builder that keeps the threaded flavour's FIFO drained where the scenario needs it."""

    def __init__(self, rng, cfg):
        self.r = rng
        self.cfg = cfg
        self.vi = VERSIONS.index(cfg["ver"])
        self.sync = cfg["flavour"] == "sync"
        self.g = Gen(rng, cfg)
        self.ops = []
        self.known = {}              # node -> list of children (what the scenario presented; approximate)

    # -- primitives
    def pump(self, k=1):
        if self.sync:
            self.ops.extend([("pump",)] * k)

    def recv(self, line, pumps=2):
        self.ops.append(("recv", line))
        self.pump(pumps)

    def call(self, op, pumps=2):
        self.ops.append(op)
        self.pump(pumps)

    def drain(self):
        self.pump(6)

    # -- protocol vocabulary
    def ver(self):
        return self.r.choice(NODE_VERSIONS[:9])

    def node(self, n, sub=None, ver=None):
        self.recv(f"{n};255;0;0;{self.r.choice([17, 18]) if sub is None else sub};{self.ver() if ver is None else ver}")
        self.known.setdefault(n, [])

    def child(self, n, c, typ=None, desc=None):
        typ = self.r.randrange(0, MAXSUB[0][self.vi] + 1) if typ is None else typ
        desc = self.r.choice(TEXTS) if desc is None else desc
        self.recv(f"{n};{c};0;0;{typ};{desc}")
        if n in self.known and c not in self.known[n]:
            self.known[n].append(c)

    def set_sub(self):
        mx = MAXSUB[1][self.vi]
        return self.r.choice([s for s in list(VALID_SET) + FREE_SET if s <= mx])

    def free_sub(self):
        return self.r.choice(FREE_SET[:8])

    def set(self, n, c, sub=None, pay=None, ack=0):
        sub = self.set_sub() if sub is None else sub
        if pay is None:
            pay = self.r.choice(VALID_SET[sub]).strip() if sub in VALID_SET else self.r.choice(TEXTS + ["21.5", "0", "x"]).rstrip()
        self.recv(f"{n};{c};1;{ack};{sub};{pay}")
        return sub

    def req(self, n, c, sub, ack=0):
        self.recv(f"{n};{c};2;{ack};{sub};")

    def internal(self, n, sub, pay="", child=255, ack=0):
        self.recv(f"{n};{child};3;{ack};{sub};{pay}")

    def battery(self, n):
        self.internal(n, 0, self.r.choice(["0", "1", "50", "77", "99", "100", " 42"]))

    def sketch_name(self, n):
        self.internal(n, 11, self.r.choice(TEXTS[1:]))

    def sketch_version(self, n):
        self.internal(n, 12, self.r.choice(["1.0", "v2", "2.3.1-β", "😀"]))

    def heartbeat(self, n):
        self.internal(n, 22, str(self.r.choice([1, 7, 500, 65535, 2 ** 40, -3])))

    def idreq(self, frm=255, child=255, ack=0):
        self.internal(frm, 3, "", child, ack)

    def wake(self, n):
        """the message after which the node is treated as smart sleeping (needs >= 2.0)."""
        if self.vi >= 4:
            self.internal(n, 32, str(self.r.choice([10, 500])))
        elif self.vi >= 2:
            self.heartbeat(n)

    def setchild(self, n, c, sub, val, mt=None, ack=None):
        self.call(("setchild", n, c, sub, val, mt, ack))

    def updatefw(self, nids, t=1, v=1, size=40):
        data = [self.r.randrange(256) for _ in range(size)]
        self.call(("updatefw", list(nids), t, v, data))

    def fw_config_req(self, n, t=1, v=1):
        from harness.gen.histories import hexw
        self.recv(f"{n};255;4;0;0;{hexw(t, v, 3, 0xABCD, 0x0102)}")

    def fw_block_req(self, n, t=1, v=1, blk=0):
        from harness.gen.histories import hexw
        self.recv(f"{n};255;4;0;2;{hexw(t, v, blk)}")

    def filler(self, k, calls=True):
        for _ in range(k):
            if calls and self.r.random() < 0.2:
                try:
                    self.call(self.g.call())
                except ValueError:      # the grammar's int(pay) on a non-decimal digit (see generic_cases)
                    pass
            else:
                self.recv(self.g.line() + self.r.choice(["", "", "\n", "\r\n"]), pumps=self.r.choice([0, 1, 2]))

    def state_change(self, kind, n=None):
        """One accepted line of the given handler kind that changes the tree (given the scenario's bookkeeping);
        returns False if the kind does not exist in this version."""
        r = self.r
        nodes = list(self.known)
        if kind == "nodepres":
            new = r.choice([x for x in (3, 9, 33, 120, 201) if x not in self.known] or [77])
            self.node(new)
        elif kind == "idreq":
            self.idreq()
        else:
            if not nodes:
                self.node(5)
                nodes = [5]
            n = r.choice(nodes) if n is None else n
            if kind == "childpres":
                self.child(n, r.choice([x for x in range(0, 250) if x not in self.known[n]]))
            elif kind == "set":
                if not self.known[n]:
                    self.child(n, 1)
                self.set(n, r.choice(self.known[n]), self.free_sub(), "v%d" % r.randrange(10 ** 9))
            elif kind == "battery":
                self.internal(n, 0, str(r.randrange(1, 101)))
            elif kind == "sketchname":
                self.internal(n, 11, "sk%d" % r.randrange(10 ** 9))
            elif kind == "sketchversion":
                self.internal(n, 12, "%d.%d" % (r.randrange(100), r.randrange(10 ** 6)))
            elif kind == "heartbeat":
                if self.vi < 2:
                    return False
                self.internal(n, 22, str(r.randrange(1, 10 ** 9)))
            else:
                raise AssertionError(kind)
        return True


def during_save(h, build):
    """Run `build()` (which appends ops to h.ops) and wrap the op that PROCESSES its last inbound line
    into ("save_during", op): threaded flavour = the pump op that runs the queued line (the queue is
    drained first), asyncio flavour = the recv itself.  The periodic save is then in progress - nodes
    serialised, new file not yet renamed into place - when that line is handled."""
    h.drain()
    mark = len(h.ops)
    build()
    new = h.ops[mark:]
    recvs = [i for i, o in enumerate(new) if o[0] == "recv"]
    if not recvs:
        return False
    i = recvs[-1]
    if h.sync:
        pumps = [j for j in range(i + 1, len(new)) if new[j] == ("pump",)]
        if pumps:
            j = pumps[0]
        else:
            new.append(("pump",))
            j = len(new) - 1
        new[j] = ("save_during", ("pump",))
    else:
        new[i] = ("save_during", new[i])
    h.ops[mark:] = new
    return True


def during_restart(h, build):
    """Like during_save, for a clean stop: the op that processes the last inbound line of `build()` is handled while
    stop() is under way (when stop() disconnects the transport - i.e. before anything stop() does afterwards);
    then the gateway is started again."""
    h.drain()
    mark = len(h.ops)
    build()
    new = h.ops[mark:]
    recvs = [i for i, o in enumerate(new) if o[0] == "recv"]
    if not recvs:
        h.ops.append(("restart",))
        return False
    i = recvs[-1]
    if h.sync:
        pumps = [j for j in range(i + 1, len(new)) if new[j] == ("pump",)]
        j = pumps[0] if pumps else None
        if j is None:
            new.append(("pump",))
            j = len(new) - 1
        tail = new[j + 1:]
        new = new[:j] + [("restart_during", ("pump",))]
        del tail
    else:
        new = new[:i] + [("restart_during", new[i])]
    h.ops[mark:] = new
    return True


def seed_network(h, nodes=None, rich=False):
    """present a few nodes with children and values."""
    r = h.r
    nodes = nodes or r.sample([0, 1, 2, 7, 42, 100, 199, 255], r.choice([1, 2, 3]))
    for n in nodes:
        h.node(n)
        for c in r.sample([0, 1, 2, 5, 100, 254], r.choice([0, 1, 2, 3] if not rich else [2, 3, 4])):
            h.child(n, c)
            for _ in range(r.choice([0, 1, 2] if not rich else [0, 1, 3, 6])):
                h.set(n, c)
    return nodes


# ------------------------------------------------------------------------------------------------------------ C04
def c04_directed(rng, cfg):
    h = Hist(rng, cfg)
    r = rng
    nodes = seed_network(h)
    if cfg.get("mqtt") or r.random() < 0.15:
        # the very same accepted line delivered twice in a row (two nodes without an id asking back to back, a value
        # reported twice; over MQTT with the ack flag set = QoS 1): each delivery is a message of its own
        h.ops.append(("recv", "255;255;3;1;3;"))
        h.ops.append(("recv", "255;255;3;1;3;"))
        h.drain()
        n0 = nodes[0]
        if h.known[n0]:
            line = f"{n0};{h.known[n0][0]};1;1;{h.free_sub()};same"
            h.ops += [("recv", line), ("recv", line)]
            h.drain()
    steps = r.randrange(6, 16)
    for _ in range(steps):
        k = r.random()
        n = r.choice(nodes)
        ch = h.known.get(n) or []
        if k < 0.15 and ch:                 # second presentation of a known child: the first one wins
            c = r.choice(ch)
            h.child(n, c, desc="second " + r.choice(TEXTS))
            h.set(n, c)
        elif k < 0.25:                      # node presented again: type/version updated, children kept
            h.node(n, sub=r.choice([17, 18]), ver=r.choice(NODE_VERSIONS))
        elif k < 0.35:                      # traffic of an unknown node / child
            u = r.choice([x for x in (4, 8, 150, 254) if x not in h.known])
            r.choice([lambda: h.child(u, 1), lambda: h.set(u, 1, 0, "1"), lambda: h.battery(u), lambda: h.sketch_name(u),
                      lambda: h.set(n, 77, 0, "1"), lambda: h.heartbeat(u) if h.vi >= 2 else h.battery(u)])()
        elif k < 0.45:
            h.idreq(r.choice([255, 255, n]), r.choice([255, 255, 0]))
            if r.random() < 0.5:
                nodes = nodes + [max(h.known) + 1] if max(h.known) < 254 else nodes
                h.known.setdefault(nodes[-1], [])
        elif k < 0.60 and ch:               # same value type reported repeatedly (last wins, unchanged value = no change)
            c = r.choice(ch)
            sub = h.free_sub()
            for v in r.sample(["a", "b", "b", "", "名"], 3):
                h.set(n, c, sub, v)
        elif k < 0.75:
            r.choice([h.battery, h.sketch_name, h.sketch_version, h.heartbeat if h.vi >= 2 else h.battery])(n)
        elif k < 0.85:
            h.child(n, r.choice([0, 1, 3, 9, 200, 254]))
        elif k < 0.89:                      # firmware session: the callback must see the node's own request lines
            h.updatefw([n], 1, 1, size=r.choice([20, 40, 130]))
            h.fw_config_req(n)
            for blk in r.sample([0, 1, 2, 7], 2):
                h.fw_block_req(n, blk=blk)
            h.fw_block_req(n, t=2, v=2, blk=0)       # a type/version that is not loaded
        elif k < 0.95 and h.vi >= 2 and ch:  # smart sleep: reports of old and of LATE children, desired values in between
            h.wake(n)
            late = r.choice([x for x in (11, 12, 13, 14, 210) if x not in ch] or [211])
            h.child(n, late, typ=r.choice([0, 1, 3, 6, 16]))
            sub = h.free_sub()
            h.set(n, late, sub, r.choice(["late", "1", ""]))          # report for the child presented while sleeping
            c = r.choice(ch)
            if r.random() < 0.6:
                h.setchild(n, r.choice([c, late]), sub, r.choice(["want", 3, "名"]))   # desired, not reported
            h.set(n, c, sub, r.choice(["x", "y"]))
            h.set(n, late, h.free_sub(), "again")
            if r.random() < 0.5:
                h.wake(n)
                h.set(n, late, sub, "after-wake")
        else:
            h.filler(r.randrange(1, 4))
    h.drain()
    return h.ops


# ------------------------------------------------------------------------------------------------------------ C05
def c05_directed(rng, cfg):
    h = Hist(rng, cfg)
    r = rng
    nodes = seed_network(h, rich=True)
    slept = set()
    if h.vi >= 2 and r.random() < 0.1:
        # many replies withheld for ONE sleeping node between two wake-ups: every request gets its reply
        n = nodes[0]
        if not h.known[n]:
            h.child(n, 1, typ=3)
        c = h.known[n][0]
        sub = h.free_sub()
        h.set(n, c, sub, "v")
        h.wake(n)
        for i in range(r.choice([12, 35, 70])):
            if i % 3 == 0:
                h.internal(n, r.choice([1, 6]), "", ack=r.choice([0, 1]))     # time / config request
            else:
                h.req(n, c, sub, ack=i % 2)
        h.wake(n)
        h.drain()
    for _ in range(r.randrange(8, 20)):
        k = r.random()
        n = r.choice(nodes)
        ch = h.known.get(n) or []
        if k < 0.18 and ch:                 # report then request (value), request a type never reported (silence)
            c = r.choice(ch)
            sub = h.set(n, c)
            h.req(n, c, sub, ack=r.choice([0, 0, 1]))
            h.req(n, c, r.choice([s for s in FREE_SET if s != sub]))
        elif k < 0.30:
            if r.random() < 0.5:
                h.ops.append(("metric", r.random() < 0.5))
            h.internal(r.choice([n, 255, 9]), 6, r.choice(["0", "M", "I"]), ack=r.choice([0, 0, 1]))
        elif k < 0.40:
            h.ops.append(("clock", r.choice([0, 1, 1700000000, 2 ** 31 - 1, 2 ** 33, r.randrange(10 ** 10)])))
            h.internal(r.choice([n, 9]), 1, r.choice(["", "5"]), ack=r.choice([0, 0, 1]))
        elif k < 0.48:
            h.idreq(r.choice([255, 255, n]), ack=r.choice([0, 0, 1]))
        elif k < 0.54:
            h.internal(0, 14, "Gateway startup complete", ack=r.choice([0, 0, 1]))
        elif k < 0.68:                      # every handler that needs a known node / child, from unknown ones
            u = r.choice([x for x in (4, 8, 150, 254) if x not in h.known])
            r.choice([lambda: h.child(u, 1), lambda: h.set(u, 1, 0, "1"), lambda: h.req(u, 1, 0), lambda: h.battery(u),
                      lambda: h.sketch_name(u), lambda: h.sketch_version(u), lambda: h.set(n, 78, 0, "1"),
                      lambda: h.req(n, 78, 0), lambda: h.recv(f"{u};255;4;0;0;{'01000100050000000201'}"),
                      lambda: h.heartbeat(u) if h.vi >= 2 else h.battery(u),
                      lambda: h.internal(u, 21, "0") if h.vi >= 2 else h.req(u, 2, 0),
                      lambda: h.internal(u, 32, "500") if h.vi >= 4 else h.set(u, 3, 0, "1"),
                      lambda: h.setchild(u, 1, 0, "1"), lambda: h.setchild(n, 78, 0, "1")])()
        elif k < 0.86 and ch and h.vi >= 2:  # smart sleep: withheld replies, pending desired values
            c = r.choice(ch)
            sub = h.free_sub()
            h.set(n, c, sub, "reported")
            h.wake(n)
            slept.add(n)
            h.setchild(n, c, sub, r.choice(["desired", "d2", 7]))
            h.req(n, c, sub)                # answered with the pending desired value (withheld)
            r.choice([lambda: h.internal(n, 1, ""), lambda: h.internal(n, 6, "0"), lambda: h.set(n, 79, 0, "1"),
                      lambda: None])()
            if r.random() < 0.6:
                h.set(n, c, sub, "confirmed")   # the node reports: nothing pending any more
                h.req(n, c, sub)
            if r.random() < 0.7:
                h.wake(n)                   # releases what was withheld
        elif k < 0.93:
            h.updatefw([n], 1, r.choice([1, 2]))
            if ch:
                h.set(n, r.choice(ch))      # reboot requested (C10)
            h.recv(f"{n};255;4;0;0;{'01000100050000000201'}")
            h.recv(f"{n};255;4;0;2;{'010001000000'}")
        else:
            h.filler(r.randrange(1, 4))
    h.drain()
    return h.ops


def carriable_value(v):
    if not isinstance(v, str):
        return v
    v = "".join("?" if 0xD800 <= ord(ch) <= 0xDFFF else ch for ch in v)
    return v.replace(";", ",").replace("\n", " ").replace("\r", " ").rstrip()


def make_carriable(ops):
    """Restrict a history to C05's scope: controller values the wire format can carry, inbound lines without an
    embedded line feed (a line-framed transport cannot deliver one)."""
    out = []
    for o in ops:
        o = tuple(o)
        if o[0] == "setchild":
            o = o[:4] + (carriable_value(o[4]),) + o[5:]
        elif o[0] == "recv":
            body = o[1].rstrip()
            if "\n" in body:
                o = ("recv", body.replace("\n", "\x0b") + o[1][len(body):])
        out.append(o)
    return out


# ------------------------------------------------------------------------------------------------------------ C06
def c06_directed(rng, cfg):
    h = Hist(rng, cfg)
    r = rng
    persist = bool(cfg.get("persist"))
    pattern = r.choice(["save-race", "jumps", "exhaust", "mixed", "mixed", "from-nodes", "fill"])
    if pattern == "save-race":              # [present, save, id request, restart, id request]
        for n in r.sample([1, 2, 7, 50, 199], r.choice([0, 1, 2])):
            h.node(n)
        h.drain()
        if persist and r.random() < 0.4:       # the id request is handled while a periodic save is in progress
            h.battery(h.r.choice(list(h.known))) if h.known else h.node(9)   # something to save
            during_save(h, h.idreq)
            h.drain()
        else:
            if persist:
                h.ops.append(("save",))
            for _ in range(r.choice([1, 1, 2])):
                h.idreq()
        if persist and r.random() < 0.3:       # an id request is handled while stop() is under way
            during_restart(h, h.idreq)
        elif persist:
            h.ops.append(("restart",))
        for _ in range(r.choice([1, 2, 3])):
            h.idreq()
        if persist and r.random() < 0.5:
            h.ops.append(("restart",))
            h.idreq()
    elif pattern == "jumps":
        for n in r.sample([200, 253, 254, 255, 0, 1, 100, 252], r.choice([2, 3, 4])):
            h.idreq()
            h.node(n)
            h.idreq()
            if persist and r.random() < 0.3:
                h.ops.append(r.choice([("save",), ("restart",)]))
    elif pattern == "exhaust":
        h.node(r.choice([250, 251, 252, 253]))
        for i in range(r.choice([3, 5, 7])):
            h.idreq()
            if persist and r.random() < 0.25:
                h.ops.append(r.choice([("save",), ("restart",)]))
        if r.random() < 0.5:
            h.node(r.choice([254, 255]))
            h.idreq()
    elif pattern == "from-nodes":           # id requests from node ids other than 255, incl. smart sleeping ones
        nodes = seed_network(h, nodes=r.sample([1, 2, 7, 42], 2))
        for _ in range(r.randrange(3, 8)):
            n = r.choice(nodes + [0, 9, 254])
            if h.vi >= 2 and n in h.known and h.known[n] and r.random() < 0.5:
                h.wake(n)
            h.idreq(n, r.choice([255, 255, 0, 7]))
            if persist and r.random() < 0.2:
                h.ops.append(r.choice([("save",), ("restart",)]))
        for n in nodes:
            h.wake(n)
    elif pattern == "fill":                 # many assignments in a row
        start = r.choice([None, 180, 230])
        if start:
            h.node(start)
        for i in range(r.choice([10, 30, 80])):
            h.idreq()
            if persist and r.random() < 0.05:
                h.ops.append(r.choice([("save",), ("restart",)]))
    else:
        nodes = seed_network(h)
        for _ in range(r.randrange(8, 20)):
            k = r.random()
            if k < 0.35:
                h.idreq(r.choice([255, 255, 255, r.choice(nodes)]))
            elif k < 0.5:
                h.node(r.choice([0, 1, 3, 60, 200, 253, 254, 255, r.randrange(256)]))
            elif k < 0.6 and persist:
                h.ops.append(("save",))
            elif k < 0.72 and persist:
                h.drain()
                h.ops.append(("restart",))
            else:
                h.filler(r.randrange(1, 3))
    h.drain()
    return h.ops


def sprinkle_persistence(rng, ops, p_save=0.06, p_restart=0.03):
    """("save",) / ("restart",) at random positions of an existing history.  The harness clock is re-issued after a
    restart (gwrun.Impl re-initialises it, the model keeps it: an artefact of the harness, not of the library)."""
    out = []
    clock = None
    for o in ops:
        out.append(o)
        if o[0] == "clock":
            clock = o
        x = rng.random()
        if x < p_save:
            out.append(("save",))
        elif x < p_save + p_restart:
            out.append(("restart",))
            if clock:
                out.append(clock)
    return out


# ------------------------------------------------------------------------------------------------------------ C11
def c11_directed(rng, cfg):
    """A rich reachable state, then ("restart",)."""
    h = Hist(rng, cfg)
    r = rng
    nodes = r.sample([0, 1, 2, 7, 42, 100, 199, 254, 255], r.choice([0, 1, 2, 3, 4]))
    for n in nodes:
        h.node(n, ver=r.choice(NODE_VERSIONS[:11]))
        nch = r.choice([0, 1, 2, 4])
        for c in r.sample([0, 1, 2, 5, 100, 254], nch):
            h.child(n, c, desc=r.choice(TEXTS + [text.payload(r, wire_ok=True)]))
            nv = r.choice([0, 1, 2, 6])
            for sub in r.sample(FREE_SET[:8] + [2, 3], nv):
                pay = r.choice(VALID_SET[sub]).strip() if sub in VALID_SET else r.choice(TEXTS + [text.payload(r, wire_ok=True)]).rstrip()
                h.set(n, c, sub, pay)
        for f in r.sample([h.battery, h.sketch_name, h.sketch_version] + ([h.heartbeat] if h.vi >= 2 else []), r.choice([0, 1, 2, 3])):
            f(n)
    for _ in range(r.choice([0, 1, 2])):
        h.idreq()                           # nodes without type
    if h.vi >= 2 and nodes:                 # transient state that must not come back
        for n in r.sample(nodes, r.choice([0, 1, len(nodes)])):
            ch = h.known.get(n) or []
            if not ch:
                continue
            c = r.choice(ch)
            sub = h.free_sub()
            h.set(n, c, sub, "reported")
            h.wake(n)
            h.setchild(n, c, sub, r.choice(["desired", 7, "名"]))
            h.internal(n, 1, "")            # withheld reply
            h.req(n, c, sub)
    if nodes and r.random() < 0.5:
        h.updatefw(r.sample(nodes, 1), 1, 1)
    if r.random() < 0.4:
        h.filler(r.randrange(1, 6))
    h.drain()
    if r.random() < 0.3:
        h.ops.append(("save",))
    if r.random() < 0.08:
        # the restarted process handles a presentation of a new node BEFORE start_persistence() merges the file
        h.ops.append(("restart_early", f"{r.choice([77, 88, 201])};255;0;0;17;2.0"))
        h.ops.append(("restart",))
        return h.ops
    h.ops.append(("restart",))
    if r.random() < 0.3:                    # and once more from the loaded state
        if nodes:
            h.battery(nodes[0])
        h.ops.append(("restart",))
    return h.ops


# ------------------------------------------------------------------------------------------------------------ C14
def c14_directed(rng, cfg, kind=None):
    """... save tick, ONE state-changing message of `kind`, stop/start; optionally after an earlier stop/start."""
    h = Hist(rng, cfg)
    r = rng
    kinds = [k for k in TAIL_KINDS if not (k == "heartbeat" and h.vi < 2)]
    kind = kind if kind in kinds else r.choice(kinds)
    x = r.random()
    if x > 0.93:
        # the restarted process handles a presentation of a NEW node before start_persistence() has merged the
        # file; then runs on, is stopped and started again: both the restored nodes and the early one are there
        nodes = seed_network(h)
        h.drain()
        h.ops.append(("restart_early", f"{r.choice([77, 88, 201])};255;0;0;17;2.0"))
        if r.random() < 0.5:
            h.ops.append(("save",))
        h.ops.append(("restart",))
        return h.ops
    if h.vi >= 2 and x < 0.10:
        return c14_confirm_desired(h)
    if h.vi >= 4 and x < 0.22:
        return c14_failed_save(h)
    nodes = seed_network(h)
    if r.random() < 0.5:
        h.filler(r.randrange(1, 8))
    rounds = r.choice([1, 1, 2, 3])
    for k in range(rounds):
        for _ in range(r.choice([0, 1, 3])):
            h.state_change(r.choice(kinds))
            if r.random() < 0.3:
                h.ops.append(("save",))
        n = r.choice(nodes)
        if not h.known[n]:
            h.child(n, 1)
        h.drain()
        kd = kind if k == rounds - 1 else r.choice(kinds)
        if r.random() < 0.15:                   # the change is handled while stop() is under way
            h.ops.append(("save",))
            during_restart(h, lambda: h.state_change(kd, n=n))
            continue
        if r.random() < 0.35:                   # the change arrives while a periodic save is in progress
            h.state_change(r.choice([x for x in kinds if x != "idreq"]), n=n)    # something to save
            during_save(h, lambda: h.state_change(kd, n=n))
            h.drain()
        else:
            h.ops.append(("save",))
            h.state_change(kd, n=n)
        h.ops.append(("restart",))
    return h.ops


def c14_confirm_desired(h):
    """A smart sleeping node confirms, right after a save tick, exactly the value the controller desired:
    the stored value changes (old reported value -> confirmed value) although the desired value was already that."""
    r = h.r
    n = r.choice([1, 7, 42])
    h.node(n)
    for c in (1, 2)[:r.choice([1, 2])]:
        h.child(n, c)
    c = r.choice(h.known[n])
    sub = h.free_sub()
    h.set(n, c, sub, r.choice(["0", "old", ""]))
    if r.random() < 0.5:
        h.filler(r.randrange(1, 5), calls=False)
    h.wake(n)
    want = r.choice(["1", "new", 5, "名"])
    h.setchild(n, c, sub, want)
    if r.random() < 0.5:
        h.wake(n)                       # the set command goes out with the wake-up burst
    h.drain()
    h.ops.append(("save",))
    h.set(n, c, sub, str(want))         # the node confirms: reported value := desired value
    h.drain()
    h.ops.append(("restart",))
    return h.ops


def c14_failed_save(h):
    """(2.2) A periodic save FAILS in the serialiser because the wake-up announcement of a smart sleeping node is
    handled while its desired-state table is being pickled (op save_fail_during; the announcement itself marks nothing
    as changed).  The failed save must leave the state marked unsaved: the child presented before it is still
    written by stop()."""
    r = h.r
    n = r.choice([1, 7, 42])
    other = r.choice([2, 9])
    h.node(n)
    h.node(other)
    for c in (1, 2, 3)[:r.choice([2, 3])]:
        h.child(n, c, typ=r.choice([0, 1, 3, 6, 16]))     # (17/18 would be node presentations)
    h.wake(n)                           # desired-state table now has >= 2 entries
    h.drain()
    h.ops.append(("save",))
    c3 = r.choice([10, 77])
    h.child(n, c3, typ=r.choice([0, 1, 3, 6, 16]))                      # unsaved change; c3 is not in the desired-state table yet
    h.set(n, c3, h.free_sub(), "v%d" % r.randrange(1000))
    h.drain()
    mark = len(h.ops)
    h.internal(n, 32, "500")            # I_PRE_SLEEP_NOTIFICATION: adds c3 to the table, no alert
    new = h.ops[mark:]
    if h.sync:
        j = next(i for i, o in enumerate(new) if o == ("pump",))
        new[j] = ("save_fail_during", ("pump",))
    else:
        new[0] = ("save_fail_during", new[0])
    h.ops[mark:] = new
    h.drain()
    if r.random() < 0.3:
        h.ops.append(("save",))
    h.ops.append(("restart",))
    return h.ops


def c06_failed_save(h):
    """(2.2, pickle) an id is handed out, then a periodic save FAILS in the serialiser (the wake-up announcement of a
    smart sleeping node grows its desired-state table while it is pickled; the announcement marks nothing as changed),
    then a clean stop + start and another id request: the failed save must leave the reservation to be written by
    stop()."""
    r = h.r
    n = r.choice([1, 7, 42])
    h.node(n)
    h.node(r.choice([2, 9]))
    for c in (1, 2, 3)[:r.choice([2, 3])]:
        h.child(n, c, typ=r.choice([0, 1, 3, 6, 16]))
    h.wake(n)
    h.drain()
    h.ops.append(("save",))
    h.child(n, r.choice([10, 77]), typ=r.choice([0, 1, 3, 6, 16]))      # not in the desired-state table yet
    for _ in range(r.choice([1, 2])):
        h.idreq()
    h.drain()
    mark = len(h.ops)
    h.internal(n, 32, "500")
    new = h.ops[mark:]
    if h.sync:
        j = next(i for i, o in enumerate(new) if o == ("pump",))
        new[j] = ("save_fail_during", ("pump",))
    else:
        new[0] = ("save_fail_during", new[0])
    h.ops[mark:] = new
    h.drain()
    h.ops.append(("restart",))
    for _ in range(r.choice([1, 2])):
        h.idreq()
    h.drain()
    return h.ops


# ------------------------------------------------------------------------------------------- persistence plumbing
def assign_persist(cases, tag, fmt):
    """Give every case its own fresh persistence file; `fmt(i, case)` -> "json" | "pickle" | None (no persistence).
    Returns the scratch root to remove after the run."""
    root = core.BUILD / "scratch" / f"{tag}-{os.getpid()}"
    shutil.rmtree(root, ignore_errors=True)
    for i, c in enumerate(cases):
        f = fmt(i, c)
        c["cfg"].pop("persist_cwd", None)
        c["cfg"].pop("persist_pathlib", None)
        if f is None:
            c["cfg"].pop("persist", None)
            continue
        d = root / str(i)
        d.mkdir(parents=True, exist_ok=True)
        if i % 7 == 3:        # a bare relative file name (like the default "mysensors.pickle"), used from its directory
            c["cfg"]["persist"] = f"p.{f}"
            c["cfg"]["persist_cwd"] = str(d)
        else:
            c["cfg"]["persist"] = str(d / f"p.{f}")
            if i % 7 == 5:
                c["cfg"]["persist_pathlib"] = True       # the file name is given as a pathlib.Path
    return root


def relocated(case, tag):
    """Copy of a replayed case with its persistence file moved to a fresh directory; returns (case, root)."""
    root = core.BUILD / "scratch" / f"{tag}-replay-{os.getpid()}"
    shutil.rmtree(root, ignore_errors=True)
    c = dict(case, cfg=dict(case["cfg"]))
    if c["cfg"].get("persist"):
        root.mkdir(parents=True, exist_ok=True)
        if c["cfg"].get("persist_cwd"):
            c["cfg"]["persist_cwd"] = str(root)
        else:
            c["cfg"]["persist"] = str(root / os.path.basename(c["cfg"]["persist"]))
    return c, root


def generic_cases(ctx, tag, n, length=(10, 40), mqtt_rate=0.15):
    """gwcheck.gen_cases, but tolerant of the grammar's rare ValueError (histories.Gen.call does int(pay) on payloads
    such as a superscript digit for which str.isdigit() is true): such a draw is repeated with the next sub-seed."""
    from harness import gwcheck
    cases = []
    for i in range(n):
        for attempt in range(20):
            rng = ctx.rng(tag, i) if attempt == 0 else ctx.rng(tag, i, "retry", attempt)
            cfg = gwcheck.make_cfg(rng, None, ("sync", "async"), mqtt_rate)
            try:
                ops = Gen(rng, cfg).history(rng.randrange(*length))
            except ValueError:
                continue
            cases.append({"id": f"{tag}-{ctx.seed}-{ctx.scale}-{i}", "cfg": cfg, "ops": ops})
            break
    return cases
