"""Shared correspondence run of the core machine (Model/Gateway.v) against the real gateway
classes; the per-property modules pick the observation scope and add their monitors."""
import os
import shutil
from concurrent.futures import ProcessPoolExecutor

from harness import core, oracles
from harness.gen.histories import Gen, VERSIONS
from harness.impl import gwrun


SPELLINGS = {"1.4": ["1.4.0", "1.4.7"], "1.5": ["1.5.0", "1.5.9", "1.9"], "2.0": ["2.0.0", "2.0.1"],
             "2.1": ["2.1.0", "2.1.9"], "2.2": ["2.2.0", "2.3", "3.0", "2.10"]}


def spell(rng, cfg, rate=0.25):
    """With probability `rate` the gateway is configured with another spelling of a version that selects the same
    constants (get_const floor rule, C18): the model is configured by the selected tables, the implementation gets
    the spelling."""
    if rng.random() < rate:
        cfg["spell"] = rng.choice(SPELLINGS[cfg["ver"]])
    if cfg.get("mqtt") and rng.random() < 0.3:
        cfg["pub_fail_every"] = rng.choice([2, 3, 5])     # the broker refuses every k-th publish
    if rng.random() < 0.25:
        cfg["debug_log"] = True        # the library's log statements are evaluated and formatted
    if rng.random() < 0.2:
        cfg["slow_jobs"] = True        # every job "takes" 0.2 s on the task module's timer (slow-job diagnostics run)
    if rng.random() < 0.2:
        # the controller's time zone has daylight saving (one of the two rules is in its DST period at any date):
        # a time request is answered with the controller's LOCAL time
        cfg["tz"] = rng.choice(["CET-1CEST,M3.5.0,M10.5.0/3", "AEST-10AEDT,M10.1.0,M4.1.0/3"])
    return cfg


def make_cfg(rng, versions=None, flavours=("sync", "async"), mqtt_rate=0.15):
    ver = rng.choice(versions or VERSIONS)
    cfg = {"ver": ver, "flavour": rng.choice(flavours), "callback": rng.random() < 0.85,
           "cb_raises": rng.random() < 0.2, "mqtt": rng.random() < mqtt_rate}
    return spell(rng, cfg)


def gen_cases(ctx, tag, n, length=(10, 40), versions=None, flavours=("sync", "async"), mqtt_rate=0.15, corpus=()):
    cases = [dict(c, id=f"{tag}-corpus{i}") for i, c in enumerate(corpus)]
    for i in range(n):
        rng = ctx.rng(tag, i)
        cfg = make_cfg(rng, versions, flavours, mqtt_rate)
        g = Gen(rng, cfg)
        ops = g.history(rng.randrange(*length))
        cases.append({"id": f"{tag}-{ctx.seed}-{ctx.scale}-{i}", "cfg": cfg, "ops": ops})
    return cases


def impl_case(case):
    """Returns (outputs per op, monitor violations [(monitor, key, what)], stats dict)."""
    import importlib
    import logging
    logging.disable(logging.CRITICAL)
    from harness import monitors
    import glob
    for f in sorted(glob.glob(str(core.VERIF / "harness" / "monitors_*.py"))):
        importlib.import_module("harness." + os.path.basename(f)[:-3])
    scratch = core.BUILD / "scratch" / f"{os.getpid()}"
    core.debug_logging(bool(case["cfg"].get("debug_log")))     # a share of the cases runs with DEBUG logging on
    if case["cfg"].get("cb_reenters"):
        # the callback calls back into the gateway: a pump that blocks on itself is interrupted after 60 s
        import signal

        def _stuck(signum, frame):
            signal.alarm(5)
            from harness.impl.gwrun import PumpBlocked
            raise PumpBlocked("the message pump blocked for 60 s (callback re-entering the gateway)")
        signal.signal(signal.SIGALRM, _stuck)
        signal.alarm(60)
    im = gwrun.Impl(case["cfg"], scratch)
    mons = [monitors.REGISTRY[n]() for n in case.get("monitors", [])]
    trk = monitors.Tracker(im)
    for m in mons:
        m.start(im)
    outs = []

    crashed = []

    def guarded(m, name, *a):
        """A monitor that cannot even inspect the gateway (state objects of the wrong kind, ...) must not take
        the whole run down: recorded once per monitor, reported as a tie that no longer checks."""
        try:
            getattr(m, name)(*a)
        except Exception as exc:      # noqa: BLE001
            if m.name not in crashed:
                crashed.append(m.name)
                import traceback
                m.violations.append((f"monitor-crash/{m.name}/{type(exc).__name__}",
                                     f"monitor {m.name}.{name} could not inspect the gateway: {exc!r} "
                                     + traceback.format_exc(limit=3)[-300:]))

    def run_op(o):
        # the monitors see a line delivered as bytes as the text line the reader's decoder makes of it
        mo = ("recv", bytes(o[1]).decode("utf-8", "replace")) if o[0] == "recvb" else o
        trk.before(mo)
        for m in mons:
            guarded(m, "before", im, mo, trk)
        start = len(im.log)
        out = im.op(o)
        events = im.log[start:]
        for m in mons:
            guarded(m, "after", im, mo, events, trk)
        trk.after(mo)
        return out

    for o in case["ops"]:
        o = tuple(o)
        if o[0] == "restart_during":
            # an op handled while stop() is under way (at the moment stop() disconnects the transport): the monitors
            # see the inner op, then the restart - with the restart's before-hooks run right after the inner op
            rs = ("restart",)
            seen = []

            def nested(inner, seen=seen):
                run_op(inner)
                trk.before(rs)
                for m in mons:
                    guarded(m, "before", im, rs, trk)
                seen.append(len(im.log))
            im.nested = nested
            start = len(im.log)
            outs.append(im.op(o))
            im.nested = None
            if not seen:
                trk.before(rs)
                for m in mons:
                    guarded(m, "before", im, rs, trk)
            events = im.log[seen[0] if seen else start:]
            for m in mons:
                guarded(m, "after", im, rs, events, trk)
            trk.after(rs)
            continue
        if o[0] == "save_fail_during":
            # a periodic save attempt that fails in the serialiser because the inner op arrives: the monitors
            # (and the model) see the inner op alone
            im.nested = run_op
            start = len(im.log)
            outs.append(im.op(o))
            im.nested = None
            continue
        if o[0] == "save_during":
            # a periodic save during which (after the nodes were serialised, before the new file is
            # renamed into place) another op is handled.  The monitors see the linearisation the
            # property demands - ("save",) then the inner op - with the inner hooks run at the moment
            # the inner op really executes.
            span = []

            def nested(inner, span=span):
                span.append(len(im.log))
                run_op(inner)
                span.append(len(im.log))
            im.nested = nested
            sv = ("save",)
            trk.before(sv)
            for m in mons:
                m.before(im, sv, trk)
            start = len(im.log)
            outs.append(im.op(o))
            a, b = span if span else (len(im.log), len(im.log))
            events = im.log[start:a] + im.log[b:]
            for m in mons:
                m.after(im, sv, events, trk)
            im.nested = None
            continue
        outs.append(run_op(o))
    for m in mons:
        m.end(im, trk)
    if case["cfg"].get("cb_reenters"):
        import signal
        signal.alarm(0)
    if case["cfg"].get("persist_cwd"):
        os.chdir(str(core.VERIF))        # the case's working directory is removed afterwards
    if case["cfg"].get("tz"):
        import time
        os.environ["TZ"] = "UTC"
        time.tzset()
    viol = [(m.name, k, w) for m in mons for (k, w) in m.violations]
    stats = {}
    if im.failed_saves:
        stats["harness:periodic-saves-failed-in-the-serialiser"] = im.failed_saves
    notes = {m.name: m.notes for m in mons if getattr(m, "notes", None)}
    if notes:
        stats["__notes__"] = notes
    if im.unfailed_saves:
        stats["harness:hooked-saves-that-did-not-fail"] = im.unfailed_saves
    for m in mons:
        for k, v in m.stats.items():
            stats[f"{m.name}:{k}"] = stats.get(f"{m.name}:{k}", 0) + v
    return outs, viol, stats


def impl_chunk(chunk):
    """Results of impl_case for every case of the chunk."""
    return impl_chunk_cov(chunk)[0]


def impl_chunk_cov(chunk):
    """(results, {file: executed lines}) - with statement coverage of mysensors/*.py measured."""
    cov = None
    if os.environ.get("VERIF_TIE_COVERAGE", "1") == "1":
        try:
            import coverage
            cov = coverage.Coverage(data_file=None, branch=False, include=[str(core.REPO / "mysensors" / "*")])
            cov.start()
        except Exception:            # coverage measurement is evidence only, never a reason to fail
            cov = None
    try:
        res = [impl_case(c) for c in chunk]
    finally:
        lines = {}
        if cov is not None:
            cov.stop()
            data = cov.get_data()
            for f in data.measured_files():
                lines[os.path.basename(f)] = sorted(data.lines(f) or [])
    shutil.rmtree(core.BUILD / "scratch" / f"{os.getpid()}", ignore_errors=True)
    return res, lines


def tie_coverage(executed):
    """Statement coverage of the hand-modelled functions (harness/translate/fingerprints.targets) by the
    implementation side of this run: {"functions", "statements", "executed", "missed": {function: [lines]}}."""
    import inspect
    import coverage
    from harness.translate import fingerprints
    cov = coverage.Coverage(data_file=None)
    stmts = {}
    out = {"functions": 0, "statements": 0, "executed": 0, "missed": {}}
    for name, fn in sorted(fingerprints.targets().items()):
        try:
            src, first = inspect.getsourcelines(fn)
            path = inspect.getsourcefile(fn)
        except (OSError, TypeError):
            continue
        base = os.path.basename(path)
        if path not in stmts:
            stmts[path] = set(cov.analysis2(path)[1])
        import ast
        import textwrap
        node = ast.parse(textwrap.dedent("".join(src))).body[0]
        first_stmt = first + node.body[0].lineno - 1                         # decorators and the def line are
        body = {l for l in stmts[path] if first_stmt <= l < first + len(src)}  # executed at import, not per call
        # a docstring-only / one-line body still has statements; skip the decorators' lines
        got = body & set(executed.get(base, ()))
        out["functions"] += 1
        out["statements"] += len(body)
        out["executed"] += len(got)
        if body - got:
            out["missed"][name] = sorted(body - got)
    return out


def model_lines(case):
    import logging
    logging.disable(logging.CRITICAL)
    strs = gwrun.oracle_strings([tuple(o) for o in case["ops"]])
    lines = [gwrun.init_line(case["cfg"])]
    orc = oracles.for_payloads(strs)
    if orc:
        lines.append("orc " + orc)
    for o in case["ops"]:
        o = tuple(o)
        if o[0] == "save_during":     # the model runs the linearisation: save tick, then the inner op
            lines += ["save", gwrun.op_line(tuple(o[1]))]
        elif o[0] == "save_fail_during":   # the failed save has no effect: the inner op alone
            lines.append(gwrun.op_line(tuple(o[1])))
        elif o[0] == "restart_during":     # handled before stop() disconnects: the inner op, then the restart
            lines += [gwrun.op_line(tuple(o[1])), "restart"]
        else:
            lines.append(gwrun.op_line(o))
    return lines


def pick_outputs(case, lines, outs):
    """Model output lines aligned with case['ops'] (for save_during: the output of the inner op)."""
    width = [2 if tuple(o)[0] in ("save_during", "restart_during") else 1 for o in case["ops"]]
    body = outs[len(lines) - sum(width):]
    res, k = [], 0
    for w in width:
        k += w
        res.append(body[k - 1])
    return res


def lines_chunk(chunk):
    return [model_lines(c) for c in chunk]


def chunks(lst, n):
    k = max(1, (len(lst) + n - 1) // n)
    return [lst[i:i + k] for i in range(0, len(lst), k)]


def run_all(ctx, cases):
    """Returns list of records {case, impl, model, viol, stats}; outputs aligned with case['ops']."""
    jobs = min(16, os.cpu_count() or 4)
    with ProcessPoolExecutor(jobs) as ex:
        impl = []
        executed = {}
        for part, lines in ex.map(impl_chunk_cov, chunks(cases, jobs * 2)):
            impl.extend(part)
            for f, ls in lines.items():
                executed.setdefault(f, set()).update(ls)
        mlines = [l for part in ex.map(lines_chunk, chunks(cases, jobs * 2)) for l in part]
    model = [None] * len(cases)
    if ctx.model is not None:
        outs = ctx.model.sessions(mlines)
        raw = outs
        for i, (ls, o) in enumerate(zip(mlines, outs)):
            # histories with an op the sequential model does not express are judged by the monitors only
            if not any(tuple(x)[0] == "restart_early" for x in cases[i]["ops"]) and not cases[i]["cfg"].get("cb_reenters"):
                model[i] = pick_outputs(cases[i], ls, o)
    else:
        raw = [None] * len(cases)
    recs = [{"case": c, "impl": io[0], "viol": io[1], "stats": io[2], "model": mo, "mlines": ml, "mraw": rw}
            for c, io, mo, ml, rw in zip(cases, impl, model, mlines, raw)]
    ctx.executed_lines = getattr(ctx, "executed_lines", {})
    for f, ls in executed.items():
        ctx.executed_lines.setdefault(f, set()).update(ls)
    return recs


def standard_run(ctx, res, tag, monitors, scope, n_quick, n_thorough, xtag=None, **genkw):
    """Generate with the generic history grammar, then run_cases."""
    cases = gen_cases(ctx, tag, ctx.budget(n_quick, n_thorough), **genkw)
    return run_cases(ctx, res, cases, monitors, scope, xtag or tag)


def run_cases(ctx, res, cases, monitors, scope, tag="gw"):
    """Run both sides on `cases` (dicts with id, cfg, ops), apply monitors and the scoped diff;
    fill `res`. Returns the records {case, impl, model, viol, stats, mlines}."""
    xtag = tag
    for c in cases:
        c["monitors"] = monitors
    recs = run_all(ctx, cases)
    unrelated = 0
    for r in recs:
        c = r["case"]
        res.evaluations += 1
        for k, v in r["stats"].items():
            if not k.startswith("__"):
                res.count(k, v)
        res.count(f"cfg:{c['cfg']['ver']}:{c['cfg']['flavour']}{':mqtt' if c['cfg'].get('mqtt') else ''}")
        for (mon, key, what) in r["viol"]:
            if key.startswith("monitor-crash/"):
                res.violate(key, f"[{c['id']}] {what}", {"cfg": c["cfg"], "ops": c["ops"], "monitors": monitors},
                            kind="harness", found_input=False)
                continue
            res.violate(key, f"[{c['id']}] {what}", {"cfg": c["cfg"], "ops": c["ops"], "monitors": monitors})
        if r["model"] is not None:
            d = diff(c, r["impl"], r["model"], scope)
            if d:
                k, comp, a, b = d
                res.violate(f"corr:{comp}", f"[{c['id']}] op {k} {c['ops'][k]!r}: implementation {comp} = {a!r} but model {b!r}",
                            {"cfg": c["cfg"], "ops": c["ops"][:k + 1], "monitors": monitors}, kind="correspondence",
                            found_input=False)
            elif diff(c, r["impl"], r["model"], ALL):
                unrelated += 1
    res.extra["unrelated_diffs"] = res.extra.get("unrelated_diffs", 0) + unrelated
    if getattr(ctx, "executed_lines", None):
        try:
            res.extra["tie_statement_coverage_of_hand_modelled_functions"] = tie_coverage(ctx.executed_lines)
        except Exception as exc:     # evidence only
            res.extra["tie_statement_coverage_of_hand_modelled_functions"] = {"error": repr(exc)}
    if ctx.model is not None and not ctx.searching and recs:
        k = min(len(recs), 6)
        n, ok, lg = core.coq_crosscheck([r["mlines"] for r in recs[:k]],
                                        [r["mraw"] for r in recs[:k]],
                                        xtag or tag)
        res.extra["extraction_crosschecks"] = n
        if not ok:
            res.violate("xcheck", "extracted runner disagrees with vm_compute: " + lg[-300:], {"tag": tag},
                        kind="correspondence", found_input=False)
    return recs


SMALL_ALPHABET = [
    ("recv", "1;255;0;0;17;2.0"),        # node presentation
    ("recv", "1;1;0;0;6;d"),             # child presentation
    ("recv", "1;1;1;0;0;21.5"),          # value report
    ("recv", "1;1;2;0;0;"),              # value request
    ("recv", "1;255;3;0;0;77"),          # battery level
    ("recv", "255;255;3;0;3;"),          # id request
    ("recv", "1;255;3;0;22;5"),          # heartbeat response (wake-up announcement in 2.0 / 2.1)
    ("recv", "1;255;3;0;32;500"),        # pre-sleep notification (wake-up announcement in 2.2)
    ("setchild", 1, 1, 0, "7", None, None),
    ("recv", "1;255;3;0;6;0"),           # config request
    ("recv", "2;1;1;0;0;9"),             # report from an unknown node
    ("recv", "1;1;1;0;0;x;y"),           # seven fields: malformed
]


def small_scope_cases(tag, maxlen, versions=VERSIONS, flavours=("async", "sync")):
    """EVERY history of length <= maxlen over SMALL_ALPHABET (12 ops around one node and one child), per version and
    flavour (threaded: each op followed by pumps until the queue is drained - 3 suffice for this alphabet)."""
    import itertools
    cases = []
    for ver in versions:
        for fl in flavours:
            for n in range(1, maxlen + 1):
                for k, word in enumerate(itertools.product(range(len(SMALL_ALPHABET)), repeat=n)):
                    ops = []
                    for a in word:
                        ops.append(SMALL_ALPHABET[a])
                        if fl == "sync":
                            ops += [("pump",)] * 3
                    cases.append({"id": f"{tag}-x-{ver}-{fl}-{n}-{k}", "ops": ops,
                                  "cfg": {"ver": ver, "flavour": fl, "callback": True, "cb_raises": False, "mqtt": False}})
    return cases


def replay_case(ctx, case):
    c = case["case"] if "case" in case else case
    outs, viol, stats = impl_case(c)
    out = {"cfg": c["cfg"], "n_ops": len(c["ops"]), "monitor_violations": viol, "violates": bool(viol)}
    if ctx.model is not None:
        ml = model_lines(c)
        mo = pick_outputs(c, ml, ctx.model.sessions([ml])[0])
        d = diff(c, outs, mo, ALL)
        out["model_vs_impl_first_diff"] = d
    return out


def mqtt_normalise_events(evs):
    """For the MQTT transport the observation is what was published: undecodable commands are
    dropped (fix D3) and the payload loses trailing white space."""
    from mysensors.message import Message
    out = []
    for e in evs:
        if e[0] == "S":
            line = core.dec_str(e[1])
            try:
                m = Message(line)
            except ValueError:
                continue
            out.append(["S", core.enc_str(f"{m.node_id};{m.child_id};{m.type};{m.ack};{m.sub_type};{m.payload}\n")])
        else:
            out.append(e)
    return out


def diff(case, impl_out, model_out, scope):
    """First differing op index and component within `scope` (list of component names), or None."""
    for k, (a, b) in enumerate(zip(impl_out, model_out)):
        if a == b:
            continue
        ca, cb = gwrun.split_components(a), gwrun.split_components(b)
        if "raw" in ca or "raw" in cb:
            if a != b:
                return k, "raw", a[:200], b[:200]
            continue
        if case["cfg"].get("mqtt"):
            cb["S"] = [e for e in mqtt_normalise_events(cb["S"])]
            ca["S"] = [e for e in ca["S"]]
        for comp in scope:
            va, vb = view(ca, comp), view(cb, comp)
            if va != vb:
                return k, comp, " ".join(map(str, va))[:400], " ".join(map(str, vb))[:400]
    return None


def _fields(ev):
    try:
        return core.dec_str(ev[1]).rstrip("\n").split(";")
    except Exception:     # noqa: BLE001
        return []


FILTERS = {
    # sent lines a property is about (the other sent lines are outside its observation scope)
    "S:idresp": lambda f: len(f) >= 5 and f[2] == "3" and f[4] == "4",                       # id responses
    "S:ota": lambda f: len(f) >= 5 and (f[2] == "4" or (f[2] == "3" and f[4] == "13")),      # stream + reboot
}


def view(comp_map, comp):
    """A component of an op's observation, optionally filtered ("S:idresp", "S:ota", "tree:nodes")."""
    if comp in FILTERS:
        return [e for e in comp_map.get("S", []) if FILTERS[comp](_fields(e))]
    if comp == "tree:nodes":       # the node ids of the tree, in order
        t = comp_map.get("tree", [])
        return [t[i + 1] for i, x in enumerate(t[:-1]) if x == "N"]
    return comp_map.get(comp)


ALL = ["S", "CB", "R", "tree", "extra", "jobs", "dirty", "fw"]


def shrink(ctx, case, pred, max_rounds=60):
    """ddmin-style: drop ops while pred(case) still holds."""
    ops = list(case["ops"])
    n = 2
    rounds = 0
    while len(ops) >= 2 and rounds < max_rounds:
        rounds += 1
        size = max(1, len(ops) // n)
        removed = False
        for i in range(0, len(ops), size):
            cand = ops[:i] + ops[i + size:]
            c2 = dict(case, ops=cand)
            try:
                if cand and pred(c2):
                    ops = cand
                    n = max(n - 1, 2)
                    removed = True
                    break
            except Exception:
                pass
        if not removed:
            if size == 1:
                break
            n = min(len(ops), n * 2)
    return dict(case, ops=ops)
