"""C11 tie of the file-format model (Model/Persist.v, runner tag "Persist") to the real
encoder / decoder / pickle hooks of mysensors/persistence.py and mysensors/sensor.py.

run(ctx, res) is called from harness/props/c11.py.  It
  * regenerates Gen/PersistAst.v, builds Model/ShellPersist.vo and the "Persist" runner (under core.Lock);
  * generates states: (i) reachable ones, by replaying generated histories on the real gateway
    (harness.gwcheck.gen_cases and the directed C11 scenarios, through harness.impl.gwrun.Impl),
    (ii) directly built odd ones inside wf_tree (ids 0/255, no type, no children, children without
    values, 300 values, Unicode incl. astral planes / lone surrogates / control characters, empty and
    digit-only and JSON-looking strings, int values), (iii) states OUTSIDE wf_tree (negative ids and
    value types, battery out of range, rejected protocol version) - model comparison only;
  * compares, per state:
      (a) json.loads(json.dumps(sensors, cls=MySensorsJSONEncoder)) without any hook, as a plain
          value tree, with the model's enc_json;
      (rt) the real _save_json/_load_json and _save_pickle/_load_pickle results (all instance
          attributes in __dict__ order, typed keys) with the model's json_load (json_save s) and
          pickle_load_file (pickle_save s), and the model's own verdict that both read back as
          load_tree (proj s);
      (c) Sensor.__getstate__ / Sensor.__new__ + __setstate__ on every real Sensor (with whatever
          new_state / queue / reboot it has) and on mutated state dicts (old pickles without
          heartbeat, raw _heartbeat, odd battery / version values, unknown and read-only
          attributes), ChildSensor.__setstate__ without description, with getstate / setstate /
          child_setstate of the model;
  * compares (b) the real json.loads(text, cls=MySensorsJSONDecoder) and Persistence._load_json on
    hand-made documents (every heuristic branch and the misfire corners: plain dicts with digit keys,
    with id/type/values, with "sensor_id", empty dict, non-ASCII digits, isdigit-but-not-decimal keys,
    repeated member names, setters fed with strings / null / objects, read-only property, transient
    attributes smuggled in) with dec_json / json_load;
  * monitors (independent of the model; found_input=True): for every wf state the REAL save + load
    in both formats restores a typed snapshot exactly, both formats agree, the loaded sensors have
    exactly the 11 instance attributes and empty new_state / queue, reboot False.
"""
import json
import logging
import os
import pickle
import shutil
import time
from collections import deque
from concurrent.futures import ThreadPoolExecutor

from harness import core
from harness.core import enc_str, dec_str

TAG = "Persist"
NODE_ATTRS = ["sensor_id", "children", "type", "sketch_name", "sketch_version", "_battery_level",
              "_protocol_version", "_heartbeat", "new_state", "queue", "reboot"]


class Unrenderable(Exception):
    pass


# ---------------------------------------------------------------- token rendering (see ShellPersist.v)

def _classes():
    from mysensors.sensor import ChildSensor, Sensor
    return Sensor, ChildSensor


def tok_key(k):
    if isinstance(k, bool):
        raise Unrenderable("bool key")
    if isinstance(k, int):
        return "i%d" % k
    if isinstance(k, str):
        return enc_str(k)
    raise Unrenderable("key " + type(k).__name__)


def tok_pv(v, out=None):
    """Python value -> pv tokens (list)."""
    Sensor, ChildSensor = _classes()
    out = [] if out is None else out
    if v is None:
        out.append("n")
    elif v is True:
        out.append("t")
    elif v is False:
        out.append("f")
    elif isinstance(v, int):
        out.append("i%d" % v)
    elif isinstance(v, str):
        out.append(enc_str(v))
    elif isinstance(v, deque):
        if not all(isinstance(x, str) for x in v):
            raise Unrenderable("deque of non-str")
        out.append("q%d" % len(v))
        out.extend(enc_str(x) for x in v)
    elif isinstance(v, dict):
        out.append("d%d" % len(v))
        for k, x in v.items():
            out.append(tok_key(k))
            tok_pv(x, out)
    elif isinstance(v, (Sensor, ChildSensor)):
        d = vars(v)
        out.append(("S%d" if isinstance(v, Sensor) else "C%d") % len(d))
        for k, x in d.items():
            out.append(enc_str(k))
            tok_pv(x, out)
    else:
        raise Unrenderable(type(v).__name__)
    return out


def tok_state_dict(st, head):
    """A __getstate__ result / state dict rendered as an object with head S or C."""
    out = ["%s%d" % (head, len(st))]
    for k, x in st.items():
        out.append(enc_str(k))
        tok_pv(x, out)
    return out


def build_pv(toks):
    """pv tokens -> real Python objects (Sensor / ChildSensor via __new__ + __dict__)."""
    Sensor, ChildSensor = _classes()
    pos = [0]

    def nxt():
        t = toks[pos[0]]
        pos[0] += 1
        return t

    def key(t):
        return int(t[1:]) if t[0] == "i" else dec_str(t)

    def val():
        t = nxt()
        h = t[0]
        if t == "n":
            return None
        if t == "t":
            return True
        if t == "f":
            return False
        if h == "i":
            return int(t[1:])
        if h == "s":
            return dec_str(t)
        if h == "q":
            return deque(dec_str(nxt()) for _ in range(int(t[1:])))
        if h == "d":
            d = {}
            for _ in range(int(t[1:])):
                k = key(nxt())
                d[k] = val()
            return d
        if h in "SC":
            o = (Sensor if h == "S" else ChildSensor).__new__(Sensor if h == "S" else ChildSensor)
            for _ in range(int(t[1:])):
                k = dec_str(nxt())
                o.__dict__[k] = val()
            return o
        raise ValueError(t)

    v = val()
    assert pos[0] == len(toks)
    return v


# plain JSON value trees with ordered (possibly repeated) members: None | int | str | ("o", [(k, v), ...])

def plain_of_python(v):
    """json.loads(...) result (no hook) -> plain tree."""
    if v is None:
        return None
    if isinstance(v, bool) or isinstance(v, float) or isinstance(v, list):
        raise Unrenderable("json " + type(v).__name__)
    if isinstance(v, (int, str)):
        return v
    if isinstance(v, dict):
        return ("o", [(k, plain_of_python(x)) for k, x in v.items()])
    raise Unrenderable(type(v).__name__)


def tok_json(j, out=None):
    out = [] if out is None else out
    if j is None:
        out.append("n")
    elif isinstance(j, int):
        out.append("i%d" % j)
    elif isinstance(j, str):
        out.append(enc_str(j))
    else:
        out.append("o%d" % len(j[1]))
        for k, x in j[1]:
            out.append(enc_str(k))
            tok_json(x, out)
    return out


def text_json(j):
    if j is None:
        return "null"
    if isinstance(j, int):
        return str(j)
    if isinstance(j, str):
        return json.dumps(j)
    return "{" + ", ".join(json.dumps(k) + ": " + text_json(x) for k, x in j[1]) + "}"


def atoms_json(j, acc):
    if isinstance(j, tuple):
        for _, x in j[1]:
            atoms_json(x, acc)
    elif j is None:
        acc.add("None")
    else:
        acc.add(str(j))


def atoms_py(v, acc, depth=0):
    Sensor, ChildSensor = _classes()
    if isinstance(v, dict):
        for x in v.values():
            atoms_py(x, acc, depth + 1)
    elif isinstance(v, (Sensor, ChildSensor)):
        atoms_py(vars(v), acc, depth + 1)
    elif isinstance(v, deque):
        pass
    else:
        acc.add(str(v))


_VER_CACHE = {}


def ver_accepts(s):
    """validation.is_version accepts the string s (the awesomeversion oracle)."""
    import voluptuous as vol
    from mysensors import validation
    if s not in _VER_CACHE:
        try:
            validation.is_version(s)
            _VER_CACHE[s] = True
        except vol.Invalid:
            _VER_CACHE[s] = False
    return _VER_CACHE[s]


def tok_orc(strings):
    ok = sorted(s for s in set(strings) | {"1.4"} if len(s) <= 64 and ver_accepts(s))
    return ["%d" % len(ok)] + [enc_str(s) for s in ok]


def exc_tok(exc):
    from harness.props.c02 import exc_name
    return "err " + exc_name(exc)


# ---------------------------------------------------------------- build

def build():
    """Returns (Model or None, [(kind, what)])."""
    broken = []
    with core.Lock():
        gen = core.regenerate(["persist_ast"])
        if gen.get("persist_ast"):
            broken.append(("translator", "persist_ast: " + gen["persist_ast"]))
        ok, blog, _ = core.coq_build(["theories/Model/ShellPersist.vo"])
        rok = False
        if ok:
            rok, rlog = core.build_runner(TAG)
            if not rok:
                broken.append(("model", "Persist runner build failed: " + rlog[-400:]))
        else:
            broken.append(("model", "Model/ShellPersist.vo does not build: " + " | ".join(blog.strip().splitlines()[-6:])[-600:]))
    return (core.Model(TAG) if rok else None), broken


def mbatch(model, lines):
    """Stateless commands: split over processes."""
    if not lines:
        return []
    jobs = min(16, max(1, len(lines) // 8))
    chunks = [lines[i::jobs] for i in range(jobs)]
    with ThreadPoolExecutor(jobs) as ex:
        outs = list(ex.map(model.batch, chunks))
    res = [None] * len(lines)
    for j, o in enumerate(outs):
        res[j::jobs] = o
    return res


# ---------------------------------------------------------------- states

TEXTS = ["", "0", "007", "255", "-1", " 50 ", "1.4", "2.0", "x", "null", "{}", '{"sensor_id": 1}', '{"1": "a"}', "[1, 2]",
         '"', "\\", "\\u0041", "\x00", "\x1f\x7f", "\n\r\t", "名前", "\U0001F600\U0010FFFF", "\ud800", "a\udfffb", "é" * 40,
         "sensor_id", "id", "values", "²", "١٢٣", " ", "true", "1e5", "NaN", "  ", "x" * 300]


def reachable_states(ctx, n):
    """States reached by histories on the real gateway: (case, sensors)."""
    from harness import gwcheck
    from harness.gen import scenarios_a
    from harness.impl import gwrun
    out = []
    ng = n // 3
    cases = gwcheck.gen_cases(ctx, "persist-tie", ng, mqtt_rate=0.1)
    for i in range(n - ng):
        rng = ctx.rng("persist-tie-d", i)
        cfg = gwcheck.make_cfg(rng, mqtt_rate=0.1)
        ops = [o for o in scenarios_a.c11_directed(rng, cfg) if tuple(o)[0] not in ("restart", "save")]
        cases.append({"id": f"persist-tie-d-{ctx.seed}-{ctx.scale}-{i}", "cfg": cfg, "ops": ops})
    scratch = core.BUILD / "scratch" / str(os.getpid())
    for c in cases:
        im = gwrun.Impl(c["cfg"], scratch)
        for o in c["ops"]:
            im.op(tuple(o))
        out.append(({"kind": "history", "id": c["id"], "cfg": c["cfg"], "ops": c["ops"]}, im.gw.sensors))
    return out


def mk_sensor(sid, typ=None, name=None, ver=None, batt=0, pver="1.4", hb=0, children=(), new_state=None,
              queue=(), reboot=False):
    Sensor, ChildSensor = _classes()
    s = Sensor(sid)
    s.type, s.sketch_name, s.sketch_version = typ, name, ver
    s._battery_level, s._protocol_version, s._heartbeat = batt, pver, hb
    for (cid, ctype, desc, values) in children:
        ch = ChildSensor(cid, ctype, desc)
        ch.values = dict(values)
        s.children[cid] = ch
    if new_state:
        for cid, values in new_state.items():
            ch = ChildSensor(cid, 0, "")
            ch.values = dict(values)
            s.new_state[cid] = ch
    s.queue.extend(queue)
    s.reboot = reboot
    return s


def built_states(ctx, n):
    """Directly built states inside wf_tree: (case, sensors)."""
    out = []
    good_vers = [v for v in ["1.4", "1.5", "2.0", "2.1", "2.2", "2.3.1", "3", "2.0.0", "10.0"] if ver_accepts(v)]
    corpus = [
        {},
        {0: mk_sensor(0)},
        {255: mk_sensor(255, typ=17, name="", ver="", batt=100, pver="2.2", hb=-5)},
        {0: mk_sensor(0, children=[(0, 0, "", {})]), 255: mk_sensor(255, children=[(255, 38, "x", {0: ""})])},
        {7: mk_sensor(7, typ=18, children=[(1, 6, "many", {k: str(k) for k in range(300)})])},
        {1: mk_sensor(1, children=[(c, 3, TEXTS[c % len(TEXTS)], {2: TEXTS[(c * 7) % len(TEXTS)]}) for c in range(40)])},
        {3: mk_sensor(3, typ=17, name="sensor_id", ver="id", children=[(4, 0, '{"id": 1, "type": 2, "values": {}}', {47: '{"sensor_id": 9}'})],
                      new_state={4: {47: "pending", 2: None}}, queue=["3;4;1;0;47;x\n", "3;255;3;0;13;\n"], reboot=True)},
        {2: mk_sensor(2, children=[(9, 1, "ints", {0: 5, 1: -7, 2: 10 ** 30})], hb=10 ** 40)},
    ]
    for i, s in enumerate(corpus):
        out.append(({"kind": "state", "id": f"built-corpus{i}", "wf": True}, s))
    for i in range(n):
        r = ctx.rng("persist-tie-b", i)
        sensors = {}
        for sid in r.sample([0, 1, 2, 9, 10, 42, 99, 100, 199, 254, 255], r.choice([0, 1, 1, 2, 3, 5])):
            children = []
            for cid in r.sample([0, 1, 2, 9, 10, 11, 100, 254, 255], r.choice([0, 0, 1, 2, 4])):
                nv = r.choice([0, 0, 1, 2, 5, 20])
                vals = {}
                for k in r.sample(range(0, 60), nv):
                    vals[k] = r.choice(TEXTS) if r.random() < 0.9 else r.choice([0, -3, 99, 2 ** 70])
                children.append((cid, r.choice([0, 1, 6, 23, 38, 39]), r.choice(TEXTS), vals))
            new_state, queue = None, ()
            if children and r.random() < 0.4:
                new_state = {c[0]: {k: r.choice([None, "want", 3]) for k in list(c[3])[:2] + [2]} for c in children[:2]}
            if r.random() < 0.4:
                queue = [f"{sid};255;3;0;{r.randrange(20)};{r.choice(['', 'x', '1'])}\n" for _ in range(r.randrange(1, 4))]
            sensors[sid] = mk_sensor(
                sid, typ=r.choice([None, 17, 18, 0]), name=r.choice([None] + TEXTS), ver=r.choice([None] + TEXTS),
                batt=r.choice([0, 1, 50, 99, 100]), pver=r.choice(good_vers),
                hb=r.choice([0, 1, -1, 4711, 2 ** 64, -10 ** 20]), children=children, new_state=new_state, queue=queue,
                reboot=r.random() < 0.3)
        out.append(({"kind": "state", "id": f"built-{ctx.seed}-{ctx.scale}-{i}", "wf": True}, sensors))
    return out


def outside_states(ctx, n):
    """States outside wf_tree (unreachable): model comparison only, no monitor."""
    out = []
    bad_ver = next((v for v in ["1.3", "latest", "abc", ""] if not ver_accepts(v)), "abc")
    corpus = [
        {-1: mk_sensor(-1)},
        {1: mk_sensor(1), -2: mk_sensor(-2)},
        {1: mk_sensor(1, children=[(-1, 0, "neg child", {})])},
        {1: mk_sensor(1, children=[(1, 0, "neg value type", {-1: "x", 2: "y"})])},
        {1: mk_sensor(1, batt=500)},
        {1: mk_sensor(1, batt=-1)},
        {1: mk_sensor(1, pver=bad_ver)},
        {5: mk_sensor(6)},
        {1: mk_sensor(1, children=[(2, 0, "id differs", {})])},
    ]
    corpus[-1][1].children[2].id = 3
    for i, s in enumerate(corpus):
        out.append(({"kind": "state", "id": f"outside-corpus{i}", "wf": False}, s))
    for i in range(n):
        r = ctx.rng("persist-tie-o", i)
        sensors = {}
        for sid in r.sample([-300, -1, 0, 1, 256, 1000], r.choice([1, 2, 3])):
            children = [(cid, r.choice([0, -6]), r.choice(TEXTS), {k: r.choice(TEXTS) for k in r.sample([-5, -1, 0, 3], r.choice([0, 1, 3]))})
                        for cid in r.sample([-2, 0, 7, 300], r.choice([0, 1, 2]))]
            sensors[sid] = mk_sensor(r.choice([sid, sid + 1]), typ=r.choice([None, -1, 17]), batt=r.choice([-1, 0, 100, 101, 10 ** 9]),
                                     pver=r.choice(["1.4", "2.0", bad_ver, "0.9", "1.4.0", "v2", " 2.0"]),
                                     hb=r.choice([0, -1]), children=children)
        out.append(({"kind": "state", "id": f"outside-{ctx.seed}-{ctx.scale}-{i}", "wf": False}, sensors))
    return out


# ---------------------------------------------------------------- the real side

def persistence_for(sensors, path):
    from mysensors.persistence import Persistence
    return Persistence(sensors, lambda f: f, str(path))


def real_roundtrip(sensors, fmt, scratch):
    """REAL save to a file and load into a fresh dict: returns the loaded dict (or raises)."""
    scratch.mkdir(parents=True, exist_ok=True)
    path = scratch / f"tie.{fmt}"
    p = persistence_for(sensors, path)
    getattr(p, "_save_" + fmt)(str(path))
    loaded = {}
    q = persistence_for(loaded, path)
    getattr(q, "_load_" + fmt)(str(path))
    return loaded


def snapshot(sensors):
    """Typed persisted projection (attributes by NAME, dict orders kept)."""
    out = []
    for k, s in sensors.items():
        ch = []
        for ck, c in s.children.items():
            ch.append([tok_key(ck), tok_pv(c.id), tok_pv(c.type), tok_pv(c.description),
                       [[tok_key(vk), tok_pv(vv)] for vk, vv in c.values.items()], sorted(vars(c))])
        out.append([tok_key(k), tok_pv(s.sensor_id), tok_pv(s.type), tok_pv(s.sketch_name), tok_pv(s.sketch_version),
                    tok_pv(s.battery_level), tok_pv(s.protocol_version), tok_pv(s.heartbeat), ch])
    return out


def first_diff(a, b, path=""):
    if type(a) != type(b):
        return path or "/"
    if isinstance(a, list):
        if len(a) != len(b):
            return path + "/len"
        for i, (x, y) in enumerate(zip(a, b)):
            d = first_diff(x, y, f"{path}/{i}")
            if d:
                return d
        return None
    return None if a == b else (path or "/")


SNAP_FIELDS = ["key", "sensor_id", "type", "sketch_name", "sketch_version", "battery_level", "protocol_version",
               "heartbeat", "children"]


def monitor_state(sensors, scratch):
    """The property itself on the real implementation.  Returns [(key, what)]."""
    Sensor, _ = _classes()
    viol = []
    before = snapshot(sensors)
    snaps = {}
    for fmt in ("json", "pickle"):
        try:
            loaded = real_roundtrip(sensors, fmt, scratch)
        except Exception as exc:  # noqa: BLE001
            viol.append((f"roundtrip/{fmt}/raises", f"{fmt} save+load raises {type(exc).__name__}: {exc}"[:300]))
            continue
        try:
            after = snapshot(loaded)
        except Exception as exc:  # noqa: BLE001
            viol.append((f"roundtrip/{fmt}/shape", f"{fmt} load gives an unreadable state: {type(exc).__name__}: {exc}"[:300]))
            continue
        snaps[fmt] = after
        d = first_diff(before, after)
        if d:
            parts = d.strip("/").split("/")
            field = SNAP_FIELDS[int(parts[1])] if len(parts) > 1 and parts[1].isdigit() and int(parts[1]) < len(SNAP_FIELDS) else "nodes"
            viol.append((f"roundtrip/{fmt}/{field}", f"{fmt} save+load does not restore {field} (first difference at {d})"))
        for k, s in loaded.items():
            if not isinstance(s, Sensor):
                continue
            names = sorted(vars(s))
            if names != sorted(NODE_ATTRS):
                viol.append((f"roundtrip/{fmt}/attributes", f"node {k!r} loaded from {fmt} has instance attributes {names}"))
            elif s.new_state != {} or not isinstance(s.queue, deque) or len(s.queue) or s.reboot is not False:
                viol.append((f"transient/{fmt}", f"node {k!r} loaded from {fmt}: new_state={s.new_state!r} queue={s.queue!r} reboot={s.reboot!r}"))
    if len(snaps) == 2 and snaps["json"] != snaps["pickle"]:
        viol.append(("formats-differ", f"JSON and pickle loads differ at {first_diff(snaps['json'], snaps['pickle'])}"))
    return viol


# ---------------------------------------------------------------- hand-made JSON documents

KEY_POOL = ["sensor_id", "children", "type", "sketch_name", "sketch_version", "battery_level", "protocol_version", "heartbeat",
            "id", "description", "values", "new_state", "queue", "reboot", "_battery_level", "_heartbeat", "_protocol_version",
            "is_smart_sleep_node", "add_child_sensor", "foo", "", "0", "1", "01", "7", "255", "-1", "+1", " 1", "1 ", "1_0",
            "١", "١٢", "²", "①", "1²", "a1", "１２", "sensor_id ", "Sensor_id"]
ATOM_POOL = [None, 0, 1, -1, 50, 100, 101, 255, 10 ** 20, "", "0", "50", " 50 ", "1_0", "x", "1.4", "1.3", "2.0", "2.2", "2.0.0",
             "latest", "dev", "None", "True", "٥٠", "²", "-0", "+7", "1e2", "名", "\U0001F600", "\ud800"]


def gen_doc(r, depth=0):
    """A plain JSON tree exercising dict_to_object."""
    if depth >= 4 or r.random() < (0.25 if depth else 0.02):
        return r.choice(ATOM_POOL)
    kind = r.choice(["sensor", "sensor", "child", "child", "digits", "digits", "plain", "empty", "mixed", "top"])
    sub = lambda: gen_doc(r, depth + 1)  # noqa: E731
    if kind == "empty":
        m = []
    elif kind == "sensor":
        m = [("sensor_id", r.choice([0, 1, 255, -1, "7", None]) if r.random() < 0.8 else sub())]
        for k in r.sample(["children", "type", "sketch_name", "sketch_version", "battery_level", "protocol_version", "heartbeat"],
                          r.randrange(0, 8)):
            if k == "children":
                m.append((k, ("o", [(str(c), child_doc(r, c, depth)) for c in r.sample(range(0, 12), r.randrange(0, 3))])
                          if r.random() < 0.8 else sub()))
            else:
                m.append((k, r.choice(ATOM_POOL) if r.random() < 0.85 else sub()))
    elif kind == "child":
        m = [(k, v) for k, v in child_doc(r, r.randrange(0, 255), depth)[1]]
    elif kind == "digits":
        m = [(r.choice(["0", "1", "2", "7", "10", "255", "01", "١", "１"]), sub()) for _ in range(r.randrange(1, 4))]
    elif kind == "top":
        m = [(str(k), gen_doc(r, max(depth, 1))) for k in r.sample(range(0, 300), r.randrange(1, 3))]
    else:
        m = [(r.choice(KEY_POOL), sub()) for _ in range(r.randrange(1, 5))]
    # mutations
    for _ in range(r.choice([0, 0, 0, 1, 1, 2])):
        k = r.randrange(6)
        if k == 0 and m:
            m.pop(r.randrange(len(m)))
        elif k == 1:
            m.insert(r.randrange(len(m) + 1), (r.choice(KEY_POOL), sub()))
        elif k == 2 and m:
            m.insert(r.randrange(len(m) + 1), (r.choice(m)[0], sub()))      # repeated member name
        elif k == 3 and m:
            r.shuffle(m)
        elif k == 4 and m:
            i = r.randrange(len(m))
            m[i] = (m[i][0], r.choice(ATOM_POOL))
        elif k == 5 and m:
            i = r.randrange(len(m))
            m[i] = (r.choice(KEY_POOL), m[i][1])
    return ("o", m)


def child_doc(r, cid, depth):
    vals = ("o", [(str(k), r.choice(ATOM_POOL)) for k in r.sample(range(0, 50), r.randrange(0, 3))]) if r.random() < 0.85 \
        else gen_doc(r, depth + 1)
    m = [("id", cid), ("type", r.choice([0, 6, 38])), ("description", r.choice(["", "x", None, "名"])), ("values", vals)]
    if r.random() < 0.2:
        m.pop(2)
    return ("o", m)


O = lambda *m: ("o", list(m))  # noqa: E731
DOC_CORPUS = [
    O(), O(("-1", 1)), O(("²", 1)), O(("١", 1), ("1", 2)), O(("1", 1), ("1", 2)), O(("01", 1), ("1", 2), ("0", 3)),
    O(("sensor_id", 1), ("is_smart_sleep_node", 1)),
    O(("sensor_id", 1), ("foo", 2), ("new_state", O(("1", O(("id", 1), ("type", 2), ("values", O(("3", "x"))))))), ("reboot", 1), ("queue", "ab")),
    O(("sensor_id", 1), ("battery_level", " 50 "), ("heartbeat", "x"), ("protocol_version", 2)),
    O(("sensor_id", 1), ("battery_level", None), ("heartbeat", O(("a", 1))), ("protocol_version", None)),
    O(("sensor_id", 1), ("protocol_version", O(("a", 1)))),
    O(("sensor_id", 1), ("__class__", 1)), O(("sensor_id", 1), ("__dict__", O(("a", 1)))),
    O(("id", 1), ("type", 2), ("values", 3), ("extra", 4)), O(("id", 1), ("type", 2), ("values", O()), ("description", None)),
    O(("sensor_id", O(("id", 1), ("type", 2), ("values", O())))), O(("sensor_id", 1), ("id", 1), ("type", 2), ("values", O())),
    O(("1_0", 1)), O((" 1", 1)), O(("", 1)), O(("①", 1)), O(("1", 1), ("a", O(("2", 2)))), 5, "ab", "", None,
    O(("sensor_id", 1), ("battery_level", 101)), O(("sensor_id", 1), ("battery_level", "1_0")),
    O(("sensor_id", 1), ("battery_level", -1), ("sensor_id", 7)), O(("sensor_id", 1), ("_battery_level", 500), ("_heartbeat", "zz")),
    O(("7", "x")), O(("id", 1), ("type", 2)), O(("values", O()), ("type", 1), ("id", "x")),
    O(("1", O(("sensor_id", 1), ("children", O(("0", O(("id", 0), ("type", 6), ("description", ""), ("values", O()))))), ("type", None),
               ("sketch_name", None), ("sketch_version", None), ("battery_level", 0), ("protocol_version", "1.4"), ("heartbeat", 0)))),
    O(("sensor_id", 1), ("protocol_version", "latest")), O(("sensor_id", 1), ("protocol_version", "1.3")),
    O(("sensor_id", 1), ("heartbeat", "٥٠")), O(("sensor_id", 1), ("battery_level", "٥٠")),
]


# ---------------------------------------------------------------- the run

def run(ctx, res, quick=(150, 150, 40, 600), thorough=(3000, 3000, 400, 12000)):
    """quick/thorough = (#history states, #built wf states, #outside states, #hand-made documents)."""
    logging.disable(logging.CRITICAL)
    import mysensors.persistence as mp
    Sensor, ChildSensor = _classes()
    t0 = time.time()
    model, broken = build()
    for kind, what in broken:
        res.violate(f"persist-tie/{kind}", what, {"tie": "persist", "kind": "build"},
                    kind="translator" if kind == "translator" else "correspondence", found_input=False)
    nh, nb, no, nd = (quick if ctx.tier == "quick" else thorough)
    nh, nb, no, nd = nh * ctx.scale, nb * ctx.scale, no * ctx.scale, nd * ctx.scale
    scratch = core.BUILD / "scratch" / f"persist-tie-{os.getpid()}"
    try:
        states = reachable_states(ctx, nh) + built_states(ctx, nb) + outside_states(ctx, no)
        _run_states(ctx, res, model, states, scratch, mp)
        _run_docs(ctx, res, model, nd, scratch, mp)
    finally:
        shutil.rmtree(scratch, ignore_errors=True)
        shutil.rmtree(core.BUILD / "scratch" / str(os.getpid()), ignore_errors=True)
    res.extra["persist_tie_wall_s"] = round(time.time() - t0, 1)
    res.extra["persist_tie_model"] = model is not None


def _violate_corr(res, key, what, case):
    res.violate("persist-tie/" + key, what, dict(case, tie="persist"), kind="correspondence", found_input=False)


def _state_case(case, sensors):
    c = dict(case, tie="persist")
    if case["kind"] != "history":
        c["pv"] = " ".join(tok_pv(sensors))
    return c


def _run_states(ctx, res, model, states, scratch, mp):
    Sensor, ChildSensor = _classes()
    lines, plan = [], []       # plan: (state index, what, expected, extra)
    for idx, (case, sensors) in enumerate(states):
        res.evaluations += 1
        wf = case.get("wf", True)
        n_nodes = len(sensors)
        res.count("persist-tie:state:%s:nodes=%s" % (case["kind"] if wf else "outside", "0" if not n_nodes else "1-2" if n_nodes < 3 else "3+"))
        trans = sum(1 for s in sensors.values() if s.new_state or s.queue or s.reboot)
        if trans:
            res.count("persist-tie:state:with-transient")
        if any(not c.values for s in sensors.values() for c in s.children.values()):
            res.count("persist-tie:state:child-without-values")
        if any(s.type is None for s in sensors.values()):
            res.count("persist-tie:state:node-without-type")
        if n_nodes:
            res.nontriv("persist-tie:" + case["id"])
        # monitors: the property on the real implementation
        if wf:
            for key, what in monitor_state(sensors, scratch):
                res.violate(key, f"[{case['id']}] {what}", _state_case(case, sensors), kind="monitor", found_input=True)
        if model is None:
            continue
        try:
            ptoks = tok_pv(sensors)
        except Unrenderable as exc:
            res.count("persist-tie:unrenderable-state")
            _violate_corr(res, "unrenderable", f"[{case['id']}] state outside the model universe: {exc}", _state_case(case, sensors))
            continue
        # (a) encoder
        try:
            plain = plain_of_python(json.loads(json.dumps(sensors, cls=mp.MySensorsJSONEncoder)))
            exp = "ok " + " ".join(tok_json(plain))
        except Unrenderable as exc:
            exp = "unrenderable " + str(exc)
        except Exception as exc:  # noqa: BLE001
            exp = exc_tok(exc)
        lines.append("enc " + " ".join(ptoks))
        plan.append((idx, "enc", exp, None))
        # (rt) both real round trips against the model's
        acc = set()
        atoms_py(sensors, acc)
        orc = tok_orc(acc)
        got = []
        for fmt in ("json", "pickle"):
            try:
                loaded = real_roundtrip(sensors, fmt, scratch)
                got.append("ok " + " ".join(tok_pv(loaded)))
            except Unrenderable as exc:
                got.append("unrenderable " + str(exc))
            except Exception as exc:  # noqa: BLE001
                got.append(exc_tok(exc))
        lines.append("rt " + " ".join(orc + ptoks))
        plan.append((idx, "rt", got, wf))
        # (c) pickle hooks on every real Sensor, and on mutated state dicts
        r = ctx.rng("persist-tie-c", idx)
        for k, s in sensors.items():
            st = s.__getstate__()
            lines.append("getstate " + " ".join(tok_pv(s)))
            plan.append((idx, "getstate", "ok " + " ".join(tok_state_dict(st, "S")), k))
            variants = [st] + [mutate_state(r, st) for _ in range(2)]
            for v in variants:
                new = Sensor.__new__(Sensor)
                try:
                    new.__setstate__(v)
                    exp = "ok " + " ".join(tok_pv(new))
                except Exception as exc:  # noqa: BLE001
                    exp = exc_tok(exc)
                acc2 = set()
                atoms_py(v, acc2)
                try:
                    lines.append("setstate " + " ".join(tok_orc(acc2) + tok_state_dict(v, "S")))
                    plan.append((idx, "setstate", exp, k))
                except Unrenderable:
                    res.count("persist-tie:unrenderable-variant")
            for ck, c in list(s.children.items())[:2]:
                cst = dict(vars(c))
                if r.random() < 0.5:
                    cst.pop("description", None)
                new = ChildSensor.__new__(ChildSensor)
                new.__setstate__(cst)
                lines.append("csetstate " + " ".join(tok_state_dict(cst, "C")))
                plan.append((idx, "csetstate", "ok " + " ".join(tok_pv(new)), (k, ck)))
    if model is None:
        return
    outs = mbatch(model, lines)
    if not ctx.searching:
        pick = [i for i, l in enumerate(lines) if len(l) < 2500][:: max(1, len(lines) // 12)][:12]
        n, ok, lg = core.coq_crosscheck([[lines[i]] for i in pick], [[outs[i]] for i in pick], "persist", shell="Persist")
        res.extra["persist_tie_extraction_crosschecks"] = n
        if not ok:
            _violate_corr(res, "xcheck", "extracted Persist runner disagrees with vm_compute: " + lg[-300:], {"kind": "xcheck"})
    for (idx, what, exp, extra), out, line in zip(plan, outs, lines):
        case, sensors = states[idx]
        res.count("persist-tie:cmp:" + what)
        if out.endswith("err OtherError") or " err OtherError " in out:
            res.count("persist-tie:model-boundary")
            continue
        if what == "rt":
            gj, gp = exp
            if out == "unreadable":
                res.count("persist-tie:state-not-a-tree")
                continue
            body = out.split(" ")
            iP, iA = body.index("P"), body.index("A")
            mj, mpk = " ".join(body[1:iP]), " ".join(body[iP + 1:iA])
            agree = body[iA + 1]
            if mj != gj:
                _violate_corr(res, "rt-json", f"[{case['id']}] real JSON save+load gives {gj[:300]} but the model {mj[:300]}",
                              _state_case(case, sensors))
            if mpk != gp:
                _violate_corr(res, "rt-pickle", f"[{case['id']}] real pickle save+load gives {gp[:300]} but the model {mpk[:300]}",
                              _state_case(case, sensors))
            if extra and agree != "1":
                _violate_corr(res, "rt-theorem", f"[{case['id']}] model: a wf state does not read back as load_tree (proj s) in both formats",
                              _state_case(case, sensors))
            if not extra:
                res.count("persist-tie:outside:roundtrips=%s" % agree)
        elif out != exp:
            if out == "unreadable" and what == "enc":
                res.count("persist-tie:state-not-a-tree")
                continue
            _violate_corr(res, what, f"[{case['id']}] {what} {extra!r}: implementation {exp[:300]} but model {out[:300]}",
                          dict(_state_case(case, sensors), line=line if len(line) < 4000 else None))


def mutate_state(r, st):
    """A pickled state dict as an older / foreign version might have written it."""
    v = dict(st)
    for _ in range(r.choice([1, 1, 2, 3])):
        k = r.randrange(9)
        if k == 0:
            v.pop("heartbeat", None)
        elif k == 1:
            v.pop(r.choice(list(v) or ["x"]), None)
        elif k == 2:
            v["battery_level"] = r.choice([None, -1, 101, "50", " 7 ", "x", True, "٥"])
        elif k == 3:
            v["heartbeat"] = r.choice([None, "12", "x", -3, False])
        elif k == 4:
            v["protocol_version"] = r.choice([None, 2, "1.3", "2.0", "latest", "", True])
        elif k == 5:
            v["_heartbeat"] = r.choice([5, "raw"])
        elif k == 6:
            v[r.choice(["foo", "add_child_sensor", "_battery_level"])] = r.choice([1, "x", None])
        elif k == 7:
            v["is_smart_sleep_node"] = True
        elif k == 8:
            v = dict(reversed(list(v.items())))
    return v


def _run_docs(ctx, res, model, nd, scratch, mp):
    docs = list(DOC_CORPUS)
    for i in range(nd):
        docs.append(gen_doc(ctx.rng("persist-tie-doc", i)))
    lines, plan = [], []
    scratch.mkdir(parents=True, exist_ok=True)
    path = scratch / "doc.json"
    for i, doc in enumerate(docs):
        res.evaluations += 1
        text = text_json(doc)
        # real decoder
        try:
            v = json.loads(text, cls=mp.MySensorsJSONDecoder)
            exp = "ok " + " ".join(tok_pv(v))
            res.count("persist-tie:doc:" + type(v).__name__)
        except Unrenderable as exc:
            exp = None
            res.count("persist-tie:doc:unrenderable")
        except Exception as exc:  # noqa: BLE001
            exp = exc_tok(exc)
            res.count("persist-tie:doc:" + exp.replace(" ", "-"))
        # real _load_json
        path.write_text(text, encoding="utf-8")
        sensors = {}
        try:
            persistence_for(sensors, path)._load_json(str(path))
            exp2 = "ok " + " ".join(tok_pv(sensors))
        except Unrenderable:
            exp2 = None
        except Exception as exc:  # noqa: BLE001
            exp2 = exc_tok(exc)
        acc = set()
        atoms_json(doc, acc)
        orc = tok_orc(acc)
        jt = tok_json(doc)
        if exp is not None:
            lines.append("dec " + " ".join(orc + jt))
            plan.append((i, "dec", exp, text))
        if exp2 is not None:
            lines.append("jload " + " ".join(orc + jt))
            plan.append((i, "jload", exp2, text))
        res.nontriv("persist-tie:doc:" + core.case_hash(text))
    if model is None:
        return
    outs = mbatch(model, lines)
    for (i, what, exp, text), out in zip(plan, outs):
        res.count("persist-tie:cmp:" + what)
        if out == "err OtherError":
            res.count("persist-tie:model-boundary")
            continue
        if out != exp:
            _violate_corr(res, what + "-doc", f"{what} of {text[:200]}: implementation {exp[:300]} but model {out[:300]}",
                          {"kind": "json", "text": text})


# ---------------------------------------------------------------- replay

def replay(ctx, case):
    """Re-execute one recorded case of this tie; returns a dict with "violates"."""
    logging.disable(logging.CRITICAL)
    import mysensors.persistence as mp
    from harness.impl import gwrun
    c = case["case"] if "case" in case else case
    scratch = core.BUILD / "scratch" / f"persist-tie-replay-{os.getpid()}"
    out = {"kind": c.get("kind")}
    try:
        if c.get("kind") == "json":
            try:
                v = json.loads(c["text"], cls=mp.MySensorsJSONDecoder)
                out["implementation"] = " ".join(tok_pv(v))
            except Exception as exc:  # noqa: BLE001
                out["implementation"] = exc_tok(exc)
            out["violates"] = False
            return out
        if c.get("kind") == "history":
            im = gwrun.Impl(c["cfg"], scratch)
            for o in c["ops"]:
                im.op(tuple(o))
            sensors = im.gw.sensors
        else:
            sensors = build_pv(c["pv"].split(" "))
        viol = monitor_state(sensors, scratch)
        out["monitor_violations"] = viol
        out["violates"] = bool(viol)
        return out
    finally:
        shutil.rmtree(scratch, ignore_errors=True)
