"""Fault / crash injection around the REAL Persistence.save_sensors / safe_load_sensors.

No hook in /repo: builtins.open, os.fsync, os.rename, os.remove, os.access and os.path.isfile are
wrapped with unittest.mock.patch for the three paths of one scratch directory.  The shim records
the sequence of primitive calls, raises OSError at call number k (fault) or aborts with a
BaseException at call number k (crash; every later call is a dead no-op), and keeps for every
inode it saw being written a shadow (durable bytes, bytes handed to write() so far) from which
the post-crash directory is rebuilt according to a loss choice."""
import builtins
import json
import os
import shutil
from pathlib import Path
from unittest import mock

import mysensors
from mysensors.persistence import MySensorsJSONEncoder

from harness import core

REAL_OPEN = builtins.open
REAL = {"fsync": os.fsync, "rename": os.rename, "remove": os.remove, "access": os.access, "isfile": os.path.isfile}


class FakeTransport:
    can_log = False

    def __init__(self):
        self.sent = []

    def send(self, message):
        self.sent.append(message)

    def connect(self):
        pass

    def disconnect(self):
        pass


def scratch_root():
    d = core.BUILD / "scratch" / str(os.getpid())
    d.mkdir(parents=True, exist_ok=True)
    return d


def cleanup_scratch():
    shutil.rmtree(core.BUILD / "scratch" / str(os.getpid()), ignore_errors=True)


def paths_for(directory, fmt):
    main = os.path.join(str(directory), "s." + fmt)
    return {"Main": main, "Bak": main + ".bak", "Tmp": os.path.join(str(directory), "s.tmp." + fmt)}


def new_gateway(main_path):
    return mysensors.BaseSyncGateway(FakeTransport(), persistence=True, persistence_file=main_path,
                                     protocol_version="2.2")


def populate(gw, lines):
    for line in lines:
        gw.logic(line)
    return gw


def projection(gw):
    """Canonical text of the network a gateway holds (the saved-state notion of C11-C13)."""
    return json.dumps(gw.sensors, cls=MySensorsJSONEncoder, sort_keys=True)


EMPTY = "{}"

# seeded states: (name, lines)
BASE_LINES = ["1;255;0;0;17;2.2", "1;255;3;0;11;sketch one", "1;255;3;0;12;1.0", "1;1;0;0;6;desc",
              "1;1;1;0;0;20.5", "1;255;3;0;0;77"]


def gen_state(rng, size=None):
    """A mostly valid presentation / set history producing a non-trivial network."""
    lines = []
    nodes = rng.sample([1, 2, 3, 7, 42, 100, 253, 254], rng.randint(1, 4) if size is None else size)
    for n in nodes:
        lines.append(f"{n};255;0;0;{rng.choice([17, 18])};{rng.choice(['2.2', '2.0', '1.5', '2.3.1'])}")
        if rng.random() < 0.8:
            lines.append(f"{n};255;3;0;11;{rng.choice(['sketch', 'Énergie', 'a b', 'x' * 20, 'q\"uote', 'tab\\\\t'])}")
            lines.append(f"{n};255;3;0;12;{rng.choice(['1.0', '2', '0.0.1'])}")
        if rng.random() < 0.6:
            lines.append(f"{n};255;3;0;0;{rng.randint(0, 100)}")
        for c in rng.sample(range(0, 20), rng.randint(0, 3)):
            typ, vt, val = rng.choice([(6, 0, "20.5"), (6, 0, "-3"), (7, 1, "55"), (3, 2, "1"), (4, 3, "50"),
                                       (13, 17, "1200"), (23, 24, "text ü"), (8, 4, "1013")])
            lines.append(f"{n};{c};0;0;{typ};{rng.choice(['', 'desc', 'Wohnzimmer', 'température'])}")
            if rng.random() < 0.8:
                lines.append(f"{n};{c};1;0;{vt};{val}")
    return lines


class Crash(BaseException):
    """The process (and the machine) dies here."""


class FileProxy:
    def __init__(self, shim, real, name, ino):
        self._shim, self._real, self._name, self._ino = shim, real, name, ino

    def write(self, data):
        if not self._shim.hit(("write",)):
            return len(data)
        raw = data.encode("utf-8") if isinstance(data, str) else bytes(data)
        sh = self._shim.shadow[self._ino]
        sh["pess"] += raw
        sh["dirty"] = True
        return self._real.write(data)

    def flush(self):
        if not self._shim.hit(("flush",)):
            return None
        return self._real.flush()

    def fileno(self):
        return ("fd", self)

    def close(self):
        if self._real.closed:
            return None
        try:
            alive = self._shim.hit(("close",))
        except OSError:
            # injected fault at close: the descriptor is released, buffered data is dropped
            size = os.fstat(self._real.fileno()).st_size
            self._real.close()
            os.truncate(self._shim.inode_path(self._ino), size)
            raise
        except Crash:
            self._real.close()
            raise
        if not alive:
            self._real.close()
            return None
        return self._real.close()

    def __enter__(self):
        return self

    def __exit__(self, *exc):
        self.close()
        return False

    def __getattr__(self, item):
        return getattr(self._real, item)


class Shim:
    """event = None | ("fault", k) | ("crash", k); k = index in the sequence of primitive calls."""

    def __init__(self, paths, event=None):
        self.paths = paths
        self.by_path = {os.path.realpath(p): n for n, p in paths.items()}
        self.dirname = os.path.dirname(os.path.realpath(paths["Main"]))
        self.event = event
        self.trace = []
        self.dead = False
        self.shadow = {}      # st_ino -> {"dur": bytes, "pess": bytes, "dirty": bool}
        self.opened_path = {}

    def name_of(self, path):
        try:
            return self.by_path.get(os.path.realpath(os.fspath(path)))
        except TypeError:
            return None

    def inode_path(self, ino):
        for p in self.paths.values():
            if REAL["isfile"](p) and os.stat(p).st_ino == ino:
                return p
        return self.opened_path[ino]

    def hit(self, op):
        """Returns True if the call is to be performed, False if the process is dead."""
        if self.dead:
            return False
        idx = len(self.trace)
        if self.event is not None and self.event[1] == idx:
            if self.event[0] == "crash":
                self.dead = True
                raise Crash()
            self.trace.append(op)
            raise OSError(5, "injected fault at op %d %r" % (idx, op))
        self.trace.append(op)
        return True

    # -- wrappers
    def w_open(self, file, mode="r", *a, **k):
        name = self.name_of(file) if isinstance(file, (str, bytes, os.PathLike)) else None
        if name is None or "w" not in mode:
            return REAL_OPEN(file, mode, *a, **k)
        if not self.hit(("open", name)):
            raise Crash()
        real = REAL_OPEN(file, mode, *a, **k)
        ino = os.fstat(real.fileno()).st_ino
        self.shadow[ino] = {"dur": b"", "pess": b"", "dirty": False}
        self.opened_path[ino] = file
        return FileProxy(self, real, name, ino)

    def w_fsync(self, fd):
        if not (isinstance(fd, tuple) and fd and fd[0] == "fd"):
            return REAL["fsync"](fd)
        proxy = fd[1]
        if not self.hit(("fsync",)):
            return None
        sh = self.shadow[proxy._ino]
        with REAL_OPEN(self.inode_path(proxy._ino), "rb") as f:   # what the OS has got so far
            sh["dur"] = f.read()
        sh["dirty"] = sh["dur"] != sh["pess"]
        return None

    def w_rename(self, a, b, *x, **k):
        na, nb = self.name_of(a), self.name_of(b)
        if na is None and nb is None:
            return REAL["rename"](a, b, *x, **k)
        if not self.hit(("rename", na, nb)):
            return None
        return REAL["rename"](a, b, *x, **k)

    def w_remove(self, a, *x, **k):
        na = self.name_of(a)
        if na is None:
            return REAL["remove"](a, *x, **k)
        if not self.hit(("remove", na)):
            return None
        return REAL["remove"](a, *x, **k)

    def w_access(self, p, m, *x, **k):
        if os.path.realpath(os.fspath(p)) == self.dirname:
            if not self.hit(("access_dir",)):
                return True
        else:
            n = self.name_of(p)
            if n is not None and not self.hit(("access", n)):
                return True
        return REAL["access"](p, m, *x, **k)

    def w_isfile(self, p):
        n = self.name_of(p)
        if n is not None and not self.hit(("isfile", n)):
            return False
        return REAL["isfile"](p)

    def patches(self):
        return [mock.patch("builtins.open", self.w_open), mock.patch("os.fsync", self.w_fsync),
                mock.patch("os.rename", self.w_rename), mock.patch("os.remove", self.w_remove),
                mock.patch("os.access", self.w_access), mock.patch("os.path.isfile", self.w_isfile)]

    def run(self, func):
        """Run func under the shim. Returns ("ok", value) | ("raise", exc) | ("crash", None)."""
        ps = self.patches()
        for p in ps:
            p.start()
        try:
            try:
                return ("ok", func())
            except Crash:
                return ("crash", None)
            except Exception as exc:  # noqa
                return ("raise", exc)
        finally:
            for p in reversed(ps):
                p.stop()

    # -- after a crash: what is on disk
    def apply_loss(self, loss):
        """Rewrite every dirty file the shim saw according to loss in {"all","half","none"}."""
        for p in self.paths.values():
            if not REAL["isfile"](p):
                continue
            sh = self.shadow.get(os.stat(p).st_ino)
            if sh is None:
                continue            # untouched by this run: durable as it is
            dur, pess = sh["dur"], sh["pess"]
            if not sh["dirty"]:
                data = dur
            elif loss == "all":
                data = dur
            elif loss == "none":
                data = pess
            elif pess.startswith(dur):
                data = dur + pess[len(dur):len(dur) + (len(pess) - len(dur)) // 2]
            else:
                data = pess[:len(pess) // 2]
            with REAL_OPEN(p, "wb") as f:
                f.write(data)


def trace_to_model(trace):
    """Recorded ops -> the model's prim spelling."""
    out = []
    for op in trace:
        k = op[0]
        if k == "isfile":
            out.append("isfile:" + op[1])
        elif k == "access_dir":
            out.append("accessdir")
        elif k == "access":
            out.append("access:" + op[1])
        elif k == "open":
            out.append("open:" + op[1])
        elif k in ("write", "flush", "fsync", "close"):
            out.append(k)
        elif k == "rename":
            out.append("rename:%s:%s" % (op[1], op[2]))
        elif k == "remove":
            out.append("remove:" + op[1])
        else:
            out.append("?" + str(op))
    return out


def write_file(path, data):
    with REAL_OPEN(path, "wb") as f:
        f.write(data)


def read_file(path):
    with REAL_OPEN(path, "rb") as f:
        return f.read()


def saved_bytes(directory, fmt, lines):
    """Bytes of the file the real save_sensors writes for the network built from lines, and its projection."""
    d = Path(directory)
    d.mkdir(parents=True, exist_ok=True)
    p = paths_for(d, fmt)
    gw = populate(new_gateway(p["Main"]), lines)
    gw.tasks.persistence.save_sensors()
    data = read_file(p["Main"])
    os.remove(p["Main"])
    return data, projection(gw)


def safe_load(main_path):
    """Fresh gateway + safe_load_sensors. Returns (exception class name or None, projection)."""
    gw = new_gateway(main_path)
    try:
        gw.tasks.persistence.safe_load_sensors()
    except Exception as exc:  # noqa
        return qualname(type(exc)), projection(gw), gw
    return None, projection(gw), gw


def qualname(c):
    return c.__qualname__ if c.__module__ == "builtins" else f"{c.__module__}.{c.__qualname__}"
