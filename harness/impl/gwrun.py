"""Implementation side of the core-machine correspondence: build a real gateway, replay ops,
render events and state exactly like Model/ShellGw.v does."""
import asyncio
import contextlib
import pathlib
import voluptuous as vol
import os
import re
from unittest import mock

from harness.core import enc_str, BUILD
from harness.props.c02 import exc_name

VERSIONS = ["1.4", "1.5", "2.0", "2.1", "2.2"]
# lines that the MQTT topic mapping carries unchanged (canonical header, ack 0/1, payload without trailing blanks)
_MQTT_LINE = re.compile(r"^(0|[1-9][0-9]{0,5});(0|[1-9][0-9]{0,5});(0|[1-9][0-9]{0,5});[01];(0|[1-9][0-9]{0,5});[^;\n/]*(?<![\s])\n?$")


class RecTransport:
    """Recording transport: what Tasks hands to transport.send (falsy replies are not sent)."""

    def __init__(self, log):
        self.log = log
        self.can_log = False
        self.protocol = None

    def send(self, message):
        if message:
            self.log.append(("S", message))

    def connect(self):
        pass

    def disconnect(self):
        pass


def tok_pyval(v):
    if isinstance(v, bool):
        return "b" + str(v)
    if isinstance(v, int):
        return f"i{v}"
    if isinstance(v, str):
        return enc_str(v)
    return "?" + type(v).__name__


def render_tree(sensors):
    toks = ["T"]
    for node in sensors.values():
        if not hasattr(node, "sensor_id") or not hasattr(node, "children"):
            toks += ["N", "?" + type(node).__name__]      # not a Sensor object (e.g. a raw dict after a bad load)
            continue
        toks += ["N", str(node.sensor_id), "--" if node.type is None else str(int(node.type)),
                 "--" if node.sketch_name is None else enc_str(node.sketch_name),
                 "--" if node.sketch_version is None else enc_str(node.sketch_version),
                 str(node.battery_level), enc_str(node.protocol_version), str(node.heartbeat)]
        for ch in node.children.values():
            if not hasattr(ch, "values") or not hasattr(ch, "id"):
                toks += ["C", "?" + type(ch).__name__]
                continue
            toks += ["C", str(ch.id), str(int(ch.type)), enc_str(ch.description)]
            for k, v in ch.values.items():
                toks += ["V", tok_key(k), tok_pyval(v)]
    return toks


def tok_key(k):
    if isinstance(k, bool) or not isinstance(k, int):
        return "?" + repr(k)
    return str(int(k))


def render_state(gw):
    toks = render_tree(gw.sensors)
    for node in gw.sensors.values():
        if not hasattr(node, "sensor_id") or not hasattr(node, "queue"):
            continue
        toks += ["X", str(node.sensor_id), "1" if node.reboot else "0", "Q"]
        toks += [enc_str(q) if isinstance(q, str) else "?" + type(q).__name__ for q in node.queue]
        for cid, dch in node.new_state.items():
            toks += ["D", str(cid)]
            for k, v in dch.values.items():
                toks += [tok_key(k), "--" if v is None else tok_pyval(v)]
    njobs = len(gw.tasks.queue) if not isinstance(gw.tasks, _async_tasks()) else 0
    dirty = gw.tasks.persistence.need_save if gw.tasks.persistence else True
    toks += ["J", str(njobs), "DIRTY", "1" if dirty else "0", "FW"]
    for (t, v), fw in gw.tasks.ota.firmware.items():
        toks += [str(t), str(v), str(fw["blocks"]), str(fw["crc"])]
    return toks


def _async_tasks():
    from mysensors.task import AsyncTasks
    return AsyncTasks


def ihex(data):
    """Minimal Intel-HEX writer (contiguous at address 0, 16-byte records)."""
    out = []
    upper = None
    for off in range(0, len(data), 16):
        chunk = data[off:off + 16]
        if (off >> 16) != upper:
            upper = off >> 16
            if upper:
                rec = bytes([2, 0, 0, 4, upper >> 8, upper & 255])
                out.append(":" + rec.hex().upper() + "%02X" % ((-sum(rec)) & 255))
        rec = bytes([len(chunk), (off >> 8) & 255, off & 255, 0]) + bytes(chunk)
        out.append(":" + rec.hex().upper() + "%02X" % ((-sum(rec)) & 255))
    out.append(":00000001FF")
    return "\n".join(out) + "\n"


class PumpBlocked(BaseException):
    """Raised by the watchdog alarm of a re-entrant-callback case (a BaseException: the library's own
    `except Exception` around the event callback must not swallow it)."""


class Impl:
    nested = None
    failed_saves = 0
    early_line = None
    held_at_stop = None
    pubs = 0
    restarts = 0
    during_stop = None
    unfailed_saves = 0

    def __init__(self, cfg, scratch=None, log=None):
        import mysensors
        from mysensors.gateway_mqtt import MQTTGateway, AsyncMQTTGateway
        self.cfg = cfg
        if cfg.get("tz"):
            import time
            os.environ["TZ"] = cfg["tz"]
            time.tzset()
        self.log = [] if log is None else log      # one continuous event log across restarts
        self.scratch = scratch or (BUILD / "scratch" / str(os.getpid()))
        kwargs = {"protocol_version": cfg.get("spell") or cfg["ver"]}
        if cfg.get("callback", True):
            kwargs["event_callback"] = self._callback
        if cfg.get("persist"):
            kwargs["persistence"] = True
            kwargs["persistence_file"] = pathlib.Path(cfg["persist"]) if cfg.get("persist_pathlib") else cfg["persist"]
            if cfg.get("persist_cwd"):       # relative file name: the process works in that directory
                os.chdir(cfg["persist_cwd"])
        self.cb_raises = cfg.get("cb_raises", False)
        if cfg.get("mqtt"):
            cls = AsyncMQTTGateway if cfg["flavour"] == "async" else MQTTGateway
            self.gw = cls(self._pub, lambda *a: None, in_prefix="in", out_prefix="out", **kwargs)
        else:
            cls = mysensors.BaseAsyncGateway if cfg["flavour"] == "async" else mysensors.BaseSyncGateway
            self.gw = cls(RecTransport(self.log), **kwargs)
        self.is_async = cfg["flavour"] == "async"
        self.clock = 0
        self._fwn = 0
        # A second, unused gateway of the same kind and version, created AFTER the one under test and kept alive:
        # nothing it owns (handler registry, tables, defaults, queues) may be shared with the first one.
        self.decoy_events = []
        if cfg.get("decoy", True):
            dk = {"protocol_version": kwargs["protocol_version"], "event_callback": lambda m: self.decoy_events.append("cb")}
            if cfg.get("mqtt"):
                self.decoy = cls(lambda *a: self.decoy_events.append("pub"), lambda *a: self.decoy_events.append("sub"),
                                 in_prefix="decoy-in", out_prefix="decoy-out", **dk)
            else:
                self.decoy = cls(RecTransport(self.decoy_events), **dk)
        # lines may be delivered as BYTES through a real line protocol object (serial/TCP reader path)
        self.proto = None
        if not cfg.get("mqtt"):
            from mysensors.transport import BaseMySensorsProtocol
            self.proto = BaseMySensorsProtocol(self.gw, lambda: None)
            self.gw.tasks.transport.can_log = False

    def _pub(self, topic, payload, qos, retain):
        # reconstruct the command string the pump handed to transport.send
        lv = topic.split("/")[-5:]
        self.log.append(("S", ";".join(lv[:3] + [str(qos), lv[4], payload]) + "\n"))
        # the observation is the publish ATTEMPT; with cfg["pub_fail_every"] = k every k-th attempt then fails
        # (broker unreachable): the transport swallows that, nothing else may follow from it
        self.pubs += 1
        k = self.cfg.get("pub_fail_every")
        if k and self.pubs % k == 0:
            raise OSError("broker unreachable (harness)")

    def _callback(self, msg):
        self.log.append(("CB", [msg.node_id, msg.child_id, int(msg.type), msg.ack, int(msg.sub_type), msg.payload],
                         render_tree(self.gw.sensors)))
        if self.cfg.get("cb_reenters") and int(msg.type) == 1:
            # an application that answers a report from INSIDE the callback (a controller call on the pump's thread)
            try:
                self.gw.set_child_value(msg.node_id, msg.child_id, 2, "1")
            except (ValueError, vol.Invalid):
                pass
        if self.cb_raises:
            raise RuntimeError("callback oracle raises")

    def _guard(self, fn):
        try:
            fn()
        except (Exception, asyncio.CancelledError, PumpBlocked) as exc:  # canonicalise by class
            self.log.append(("R", exc_name(exc)))
            if isinstance(exc, PumpBlocked):
                self.stuck = True          # the pump blocked on itself: nothing further is attempted in this case

    def op(self, o):
        """Apply one op; return the rendered output line (events # state)."""
        from mysensors import handler
        start = len(self.log)
        kind = o[0]
        gw = self.gw
        if getattr(self, "stuck", False):
            self.log.append(("R", "PumpBlocked"))
            return self.render(start)
        from mysensors import task as task_mod
        ticks = iter(range(10 ** 9))
        slow = mock.patch.object(task_mod, "timer", lambda: next(ticks) * 0.2) if self.cfg.get("slow_jobs") \
            else contextlib.nullcontext()
        with mock.patch.object(handler.calendar, "timegm", lambda *_: self.clock), slow:
            if kind == "recv" and self.cfg.get("mqtt") and _MQTT_LINE.match(o[1]):
                # a well-formed line arrives the way MQTT traffic does: topic + payload + qos through transport.recv
                f = o[1].rstrip("\n").split(";", 5)
                self._guard(lambda: gw.tasks.transport.recv("in/" + "/".join(f[:5]), f[5], int(f[3])))
            elif kind == "recv":
                self._guard(lambda: gw.tasks.add_job(gw.logic, o[1]))
            elif kind == "recvb":         # one line as raw bytes (no 0x0A inside) through the reader's protocol object
                data = bytes(o[1]) + b"\n"
                if self.proto is not None:
                    self._guard(lambda: self.proto.data_received(data))
                else:                      # MQTT has no byte path: the text the decoder would have produced
                    self._guard(lambda: gw.tasks.add_job(gw.logic, bytes(o[1]).decode("utf-8", "replace")))
            elif kind == "pump":
                if not self.is_async and gw.tasks.queue:
                    def run():
                        reply = gw.tasks.run_job()
                        gw.tasks.transport.send(reply)
                    self._guard(run)
            elif kind == "setchild":
                _, sid, cid, vt, v, mt, ack = o
                kw = {}
                if mt is not None:
                    kw["msg_type"] = mt
                if ack is not None:
                    kw["ack"] = ack
                self._guard(lambda: gw.set_child_value(sid, cid, vt, v, **kw))
            elif kind == "updatefw":
                _, nids, t, v, data = o
                path = None
                if data is not None:
                    self.scratch.mkdir(parents=True, exist_ok=True)
                    self._fwn += 1
                    path = str(self.scratch / f"fw{self._fwn}.hex")
                    with open(path, "w") as fh:
                        fh.write(ihex(bytes(data)))
                arg = nids if len(nids) != 1 else nids[0]
                if self.is_async:
                    self._guard(lambda: asyncio.run(gw.update_fw(arg, t, v, path)))
                else:
                    self._guard(lambda: gw.update_fw(arg, t, v, path))
                if path:
                    os.remove(path)
            elif kind == "metric":
                gw.metric = o[1]
            elif kind == "save":          # a periodic save tick
                if gw.tasks.persistence:
                    self._guard(gw.tasks.persistence.save_sensors)
            elif kind == "save_during":   # a periodic save tick with another op handled in the middle of it
                inner = tuple(o[1])
                run_inner = getattr(self, "nested", None) or self.op
                fired = []
                if gw.tasks.persistence:
                    real_rename = os.rename

                    def rename(src, dst, *a, **k):
                        if not fired:               # first rename: the nodes are serialised and synced
                            fired.append(1)
                            run_inner(inner)
                        return real_rename(src, dst, *a, **k)
                    with mock.patch.object(os, "rename", rename):
                        self._guard(gw.tasks.persistence.save_sensors)
                if not fired:                       # nothing to save (flag clear / no persistence)
                    run_inner(inner)
            elif kind == "save_fail_during":
                # A periodic save that fails inside the serialiser: pickle reaches the desired-state table
                # (Sensor.new_state) of a node, the inner op grows that table, pickle raises RuntimeError.
                # Net effect demanded by the properties = the inner op alone, state still marked unsaved.
                # Without such a table (or with JSON, which does not serialise it) no save is attempted.
                from mysensors.sensor import ChildSensor
                inner = tuple(o[1])
                run_inner = getattr(self, "nested", None) or self.op
                pers = gw.tasks.persistence
                targets = {id(ch) for nd in gw.sensors.values() for ch in nd.new_state.values()
                           if len(nd.new_state) >= 2 and set(nd.children) - set(nd.new_state)}
                fired = []
                if pers and pers.need_save and targets and str(self.cfg.get("persist", "")).endswith(".pickle"):
                    def reduce_ex(obj, proto):
                        if not fired and id(obj) in targets:
                            fired.append(1)
                            run_inner(inner)
                        return object.__reduce_ex__(obj, proto)
                    with mock.patch.object(ChildSensor, "__reduce_ex__", reduce_ex, create=True):
                        try:
                            pers.save_sensors()
                            # the save unexpectedly went through (a snapshot torn by the inner op): keep the
                            # state marked unsaved, as after the inner op alone, so that the run stays
                            # comparable with the model; counted in the evidence
                            pers.need_save = True
                            self.unfailed_saves += 1
                        except RuntimeError:        # the expected failure of the serialiser (the scheduler
                            self.failed_saves += 1  # logs it and goes on: C15)
                        except Exception as exc:    # anything else is an observation
                            self.log.append(("R", exc_name(exc)))
                if not fired:
                    run_inner(inner)
            elif kind == "restart":       # clean stop, new process, start_persistence
                self._guard(self._restart)
            elif kind == "restart_early":    # stop; new process; it handles o[1] BEFORE start_persistence(); then starts
                self.early_line = o[1]
                self._guard(self._restart)
            elif kind == "restart_during":   # the inner op is handled while stop() is under way (before it disconnects)
                inner = tuple(o[1])
                run_inner = getattr(self, "nested", None) or self.op
                fired = []

                log = self.log

                def hook():
                    if not fired:
                        fired.append(1)
                        run_inner(inner)
                        fired.append(len(log))
                self.during_stop = hook
                try:
                    self._guard(self._restart)
                finally:
                    self.during_stop = None
                # observation of this op = what the restart itself did (the inner op reported at its own time)
                return self.render(fired[1] if len(fired) > 1 else start)
            elif kind == "clock":
                self.clock = o[1]
                return "ok"
            else:
                raise AssertionError(kind)
        return self.render(start)

    def _restart(self):
        import threading
        old = self.gw
        with mock.patch.object(threading, "Timer", _FakeTimer):
            self.restarts += 1
            hook = getattr(self, "during_stop", None)
            if hook is not None:
                # something is handled while stop() is under way: at the moment stop() disconnects the transport
                real_disconnect = old.tasks.transport.disconnect

                def disconnect():
                    hook()
                    return real_disconnect()
                old.tasks.transport.disconnect = disconnect
            if self.is_async:
                async def stop():
                    # every other stop finds a reconnect attempt pending (a task in transport.connect_task that
                    # stop() has to cancel on its way to the final save)
                    pending = self.restarts % 2 == 1
                    old.tasks.transport.connect_task = (
                        asyncio.get_running_loop().create_task(asyncio.sleep(3600)) if pending else None)
                    await old.stop()
                asyncio.run(stop())
            else:
                old.stop()
        # what the stopped gateway held when stop() returned (stop() may itself have handled something)
        self.held_at_stop = old.sensors
        cfg = self.cfg
        clock, fwn = self.clock, self._fwn
        self.__init__(cfg, self.scratch, log=self.log)
        self.clock, self._fwn = clock, fwn    # the harness clock is not part of the gateway
        early = getattr(self, "early_line", None)
        if early is not None:
            # a line the new process handles BEFORE start_persistence() merges the file (monitors only: no model)
            self.early_line = None
            self.gw.tasks.add_job(self.gw.logic, early)
            while not self.is_async and self.gw.tasks.queue:
                self.gw.tasks.transport.send(self.gw.tasks.run_job())
        if self.gw.tasks.persistence:
            if self.is_async:
                # start_persistence of the asyncio flavour creates a forever task: load + one save inline
                self.gw.tasks.persistence.safe_load_sensors()
                self.gw.tasks.persistence.save_sensors()
            else:
                with mock.patch.object(threading, "Timer", _FakeTimer):
                    self.gw.start_persistence()

    def render(self, start):
        toks = []
        for ev in self.log[start:]:
            if ev[0] == "S":
                toks += ["S", enc_str(ev[1])]
            elif ev[0] == "CB":
                m = ev[1]
                toks += ["CB"] + [str(x) for x in m[:5]] + [enc_str(str(m[5]))] + ev[2]
            else:
                toks += ["R", ev[1]]
        if self.decoy_events:      # the unused second gateway did something: state shared between gateway objects
            toks += ["R", "DecoyGatewayActive:" + ",".join(sorted(set(map(str, (e if isinstance(e, str) else e[0] for e in self.decoy_events)))))]
            del self.decoy_events[:]
        toks += ["#"] + render_state(self.gw)
        return " ".join(toks)


class _FakeTimer:
    """threading.Timer that never fires."""

    def __init__(self, *a, **k):
        pass

    def start(self):
        pass

    def cancel(self):
        pass


def op_line(o):
    """Model command line of an op."""
    kind = o[0]
    if kind == "recv":
        return "recv " + enc_str(o[1])
    if kind == "recvb":       # the model receives the line as LineReader decodes it: UTF-8 with errors="replace"
        return "recv " + enc_str(bytes(o[1]).decode("utf-8", "replace"))
    if kind == "pump":
        return "pump"
    if kind == "metric":
        return "metric " + ("1" if o[1] else "0")
    if kind in ("save", "restart"):
        return kind
    if kind == "restart_early":
        return "restart"          # (cases with this op are not compared with the model: see gwcheck)
    if kind == "clock":
        return f"clock {o[1]}"
    if kind == "setchild":
        _, sid, cid, vt, v, mt, ack = o
        return "setchild %d %d %s %s %s %s" % (sid, cid, tok_pyval(vt), tok_pyval(v),
                                             "--" if mt is None else mt, "--" if ack is None else ack)
    if kind == "updatefw":
        _, nids, t, v, data = o
        return "updatefw l%s %s %s %s" % (",".join(map(str, nids)), tok_pyval(t), tok_pyval(v),
                                          "--" if data is None else "s" + ",".join(map(str, data)))
    raise AssertionError(kind)


def init_line(cfg):
    vi = VERSIONS.index(cfg["ver"])
    return "init %d %d %d %d %d" % (vi, 1 if vi >= 2 else 0, 1 if cfg["flavour"] == "async" else 0,
                                    1 if cfg.get("callback", True) else 0, 1 if cfg.get("persist") else 0)


def oracle_strings(ops):
    """All strings the model may ask its oracles about."""
    from mysensors.message import Message
    out = ["1.4"]
    for o in ops:
        if o[0] in ("save_during", "save_fail_during", "restart_during"):
            o = tuple(o[1])
        if o[0] == "recvb":
            o = ("recv", bytes(o[1]).decode("utf-8", "replace"))
        if o[0] == "recv":
            try:
                out.append(Message(o[1]).payload)
            except ValueError:
                pass
        elif o[0] == "setchild":
            out.append(str(o[4]))
    return out


def split_components(line):
    """Split a rendered op output into named components for scoped comparison."""
    toks = line.split(" ")
    if "#" not in toks:
        return {"raw": line}
    i = toks.index("#")
    ev, st = toks[:i], toks[i + 1:]
    comp = {"S": [], "CB": [], "R": []}
    cur = None
    for t in ev:
        if t in ("S", "CB", "R"):
            cur = [t]
            comp[t].append(cur)
        elif cur is not None:
            cur.append(t)
    # state
    def idx(name):
        return st.index(name) if name in st else len(st)
    x0 = min(idx("X"), idx("J"))
    comp["tree"] = st[:x0]
    comp["extra"] = st[x0:idx("J")]
    comp["jobs"] = st[idx("J"):idx("DIRTY")]
    comp["dirty"] = st[idx("DIRTY"):idx("FW")]
    comp["fw"] = st[idx("FW"):]
    comp["events"] = ev
    return comp


