"""Deterministic schedule exploration of REAL Python code at source-line granularity.

Every controlled thread runs under sys.settrace; at each `line` event inside one of the
traced files it reports "(tid, line)" to the scheduler and blocks on its own semaphore until
the scheduler lets it execute exactly that line (= everything up to its next line event in a
traced file, calls into untraced code included).  Only one controlled thread runs at any
time, so a run is a deterministic function of the list of choices.  `explore` enumerates all
schedules up to a preemption bound by stateless depth-first search with replay: every run
executes a prefix of forced choices and then the default policy (stay on the current thread;
when it has finished, the lowest enabled one), and yields the alternative prefixes that
deviate from it once more.  `only_lines` restricts the yield points to the given line numbers
(sound when the other lines touch thread-local data only).

Every blocking wait has a generous timeout that raises HarnessError (a harness failure, never
a property violation).
"""
import sys
import threading

WAIT = 30.0


class HarnessError(Exception):
    pass


class Run:
    """One execution of `fns` (list of zero-argument callables, one per controlled thread)."""

    def __init__(self, fns, traced_files, only_lines=None):
        self.fns = fns
        self.files = set(traced_files)
        self.only = set(only_lines) if only_lines is not None else None
        self.n = len(fns)
        self.go = [threading.Semaphore(0) for _ in fns]
        self.posted = threading.Semaphore(0)
        self.state = [None] * self.n  # None = not started, int = blocked before that line, "done"
        self.failed = None
        self.trace = []  # (tid, line) of every executed macro step
        self.steps = []  # (chosen, enabled tuple, current before, preemptions before)

    # ---- controlled thread side
    def _tracer(self, tid):
        files = self.files
        only = self.only

        def local(frame, event, arg):
            if event == "line" and (only is None or frame.f_lineno in only):
                self._yield(tid, frame.f_lineno)
            return local

        def glob(frame, event, arg):
            if event == "call" and frame.f_code.co_filename in files:
                return local
            return None

        return glob

    def _yield(self, tid, line):
        self.state[tid] = line
        self.posted.release()
        if not self.go[tid].acquire(timeout=WAIT):
            self.failed = f"thread {tid} not released at line {line}"

    def _main(self, tid):
        sys.settrace(self._tracer(tid))
        try:
            self.fns[tid]()
        except BaseException as exc:  # the callables are expected to catch; record anyway
            self.failed = f"thread {tid} body raised {exc!r}"
        finally:
            sys.settrace(None)
            self.state[tid] = "done"
            self.posted.release()

    # ---- scheduler side
    def _await_post(self, what):
        if not self.posted.acquire(timeout=WAIT):
            raise HarnessError(f"timeout waiting for {what}")
        if self.failed:
            raise HarnessError(self.failed)

    def execute(self, prefix, strict=True):
        threads = [threading.Thread(target=self._main, args=(t,), daemon=True) for t in range(self.n)]
        for t, th in enumerate(threads):  # start one at a time: only one thread ever runs
            th.start()
            self._await_post(f"first line of thread {t}")
        cur = None
        preempt = 0
        i = 0
        while True:
            enabled = tuple(t for t in range(self.n) if self.state[t] != "done")
            if not enabled:
                break
            if i < len(prefix):
                t = prefix[i]
                if t not in enabled:
                    if strict:
                        raise HarnessError(f"replay diverged: choice {i}={t} not enabled ({enabled})")
                    t = cur if cur in enabled else enabled[0]
            else:
                t = cur if cur in enabled else enabled[0]
            self.steps.append((t, enabled, cur, preempt))
            if cur is not None and cur in enabled and t != cur:
                preempt += 1
            self.trace.append((t, self.state[t]))
            self.go[t].release()
            self._await_post(f"thread {t} after line {self.trace[-1][1]}")
            cur = t
            i += 1
        for th in threads:
            th.join(WAIT)
            if th.is_alive():
                raise HarnessError("controlled thread did not finish")
        return self

    def alternatives(self, prefix_len, bound):
        """Prefixes that follow this run up to some step >= prefix_len and then deviate."""
        out = []
        choices = [s[0] for s in self.steps]
        for i in range(prefix_len, len(self.steps)):
            chosen, enabled, cur, pre = self.steps[i]
            for alt in enabled:
                if alt == chosen:
                    continue
                cost = pre + (1 if (cur is not None and cur in enabled and alt != cur) else 0)
                if cost <= bound:
                    out.append(choices[:i] + [alt])
        return out


def explore(make, traced_files, bound, roots=None, limit=None, only_lines=None):
    """Enumerate schedules. `make()` -> (fns, observe) builds a fresh case; observe() is called
    after the run.  Yields (choices, trace, observation).  `roots`: list of start prefixes
    (default [[]]).  Depth first, deterministic order."""
    stack = [list(r) for r in (roots if roots is not None else [[]])][::-1]
    n = 0
    while stack:
        prefix = stack.pop()
        fns, observe = make()
        run = Run(fns, traced_files, only_lines).execute(prefix)
        yield [s[0] for s in run.steps], run.trace, observe()
        n += 1
        if limit is not None and n >= limit:
            return
        stack.extend(reversed(run.alternatives(len(prefix), bound)))


def run_one(make, traced_files, choices, only_lines=None):
    """Replay `choices` (a choice that is not enabled - the code under test may have changed since
    the schedule was recorded - falls back to the default policy), then the default policy.
    Returns (choices, trace, obs)."""
    fns, observe = make()
    run = Run(fns, traced_files, only_lines).execute(list(choices), strict=False)
    return [s[0] for s in run.steps], run.trace, observe()


def split_roots(make, traced_files, bound, only_lines=None):
    """Run the default schedule once; returns ((choices, trace, obs), alternative prefixes).
    explore(roots=[[]]) == that record + explore(roots=alternatives) (used to shard the search)."""
    fns, observe = make()
    run = Run(fns, traced_files, only_lines).execute([])
    return ([s[0] for s in run.steps], run.trace, observe()), run.alternatives(0, bound)
