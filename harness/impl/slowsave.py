"""A scheduled save is STILL BEING WRITTEN (its own thread: the 10 s timer thread of the threaded gateway, an executor
thread of the asyncio gateway) when messages are handled and the gateway is stopped.  The real schedule function, the
real stop(); the slow save is paused at one point of its file work (after serialising before the flush / in fsync /
before the first rename) until stop() has had 0.4 s to get as far as it can, then released.

C14: after stop() has returned (and the paused thread has ended) a fresh gateway loads exactly what the gateway held
when stop() returned.  C06: an id handed out while the save was slow is not handed out again after the restart.
Monitors over the real code with real threads; the pause points are fixed (no scheduler search)."""
import asyncio
import json
import logging
import os
import pickle
import shutil
import threading
from unittest import mock

PAUSES = ("before-flush", "fsync", "before-rename")
MORE_PAUSES = ("before-rename2", "before-remove")        # thorough tier
VARIANTS = [(flav, fmt, pause, traffic) for flav in ("sync", "async") for fmt in ("json", "pickle") for pause in PAUSES
            for traffic in ("values", "id-request")]
MORE_VARIANTS = [(flav, fmt, pause, traffic) for flav in ("sync", "async") for fmt in ("json", "pickle") for pause in MORE_PAUSES
                 for traffic in ("values", "id-request")]

SETUP = ["1;255;0;0;17;2.2", "1;1;0;0;3;light", "1;1;1;0;2;0"]
TRAFFIC = {"values": ["2;255;0;0;17;2.2", "2;3;0;0;6;a child with a description that makes the new file longer", "2;3;1;0;0;21.5",
                      "1;1;1;0;2;1"],
           "id-request": ["255;255;3;0;3;", "1;1;1;0;2;1"]}


class _Tr:
    can_log = False
    protocol = None
    connect_task = None

    def __init__(self):
        self.sent = []

    def send(self, message):
        if message:
            self.sent.append(message)

    def connect(self):
        pass

    def disconnect(self):
        pass


class _NoTimer:
    def __init__(self, *a, **k):
        pass

    def start(self):
        pass

    def cancel(self):
        pass


def _proj(gw):
    return sorted((n, s.sketch_name, sorted((c, ch.description, sorted(ch.values.items())) for c, ch in s.children.items()))
                  for n, s in gw.sensors.items())


def _gw(flav, path, tr):
    import mysensors
    cls = mysensors.BaseSyncGateway if flav == "sync" else mysensors.BaseAsyncGateway
    return cls(tr, persistence=True, persistence_file=path, protocol_version="2.2")


def run_variant(root, v):
    from mysensors import persistence as P
    flav, fmt, pause, traffic = v
    logging.disable(logging.CRITICAL)
    shutil.rmtree(root, ignore_errors=True)
    os.makedirs(root)
    path = os.path.join(root, "net." + fmt)
    tr = _Tr()
    gw = _gw(flav, path, tr)
    pers = gw.tasks.persistence
    for ln in SETUP:
        gw.logic(ln)
    pers.save_sensors()                       # an earlier complete save
    state_old = _proj(gw)
    gw.logic("1;1;1;0;2;1")                    # something changed: the next scheduled save has work to do
    state_new = _proj(gw)                      # what the scheduled (slow) save serialises
    inside, release = threading.Event(), threading.Event()
    slow = []                                  # ident of the thread whose save is slow (the first one to get there)
    lock = threading.Lock()

    def maybe_pause(point):
        with lock:
            if point != pause or (slow and slow[0] != threading.get_ident()) or inside.is_set():
                return
            slow.append(threading.get_ident())
        inside.set()
        release.wait(20)

    real_dump = {"json": json.dump, "pickle": pickle.dump}[fmt]
    real_fsync, real_rename = os.fsync, os.rename

    def dump(*a, **k):
        r = real_dump(*a, **k)
        maybe_pause("before-flush")
        return r

    def fsync(fd):
        maybe_pause("fsync")
        return real_fsync(fd)

    real_remove = os.remove
    renames = {}

    def rename(a, b):
        k = renames[threading.get_ident()] = renames.get(threading.get_ident(), 0) + 1
        maybe_pause("before-rename" if k == 1 else "before-rename2")
        return real_rename(a, b)

    def remove(a):
        maybe_pause("before-remove")
        return real_remove(a)

    out = {"variant": list(v)}
    errors = []
    with mock.patch.object(P.json if fmt == "json" else P.pickle, "dump", dump), mock.patch.object(os, "fsync", fsync), \
            mock.patch.object(os, "rename", rename), mock.patch.object(os, "remove", remove), \
            mock.patch.object(threading, "Timer", _NoTimer):
        if flav == "sync":
            t1 = threading.Thread(target=pers.schedule_save_sensors)     # what the timer thread runs
            t1.start()
            if not inside.wait(10):
                release.set()
                t1.join()
                return {"variant": list(v), "setup": "the scheduled save never reached the pause point"}
            for ln in TRAFFIC[traffic]:
                gw.tasks.add_job(gw.logic, ln)
                while gw.tasks.queue:
                    tr.send(gw.tasks.run_job())

            def stop():
                try:
                    gw.stop()
                except Exception as exc:
                    errors.append(f"stop() raised {type(exc).__name__}: {exc}")
                out["held"] = _proj(gw)
            t2 = threading.Thread(target=stop)
            t2.start()
            t2.join(0.4)
            out["stop_waited_for_the_slow_save"] = t2.is_alive()
            release.set()
            t1.join(20)
            t2.join(20)
            if t1.is_alive() or t2.is_alive():
                return {"variant": list(v), "stuck": "a thread did not end within 20 s after the slow save was released"}
        else:
            async def main():
                await pers.schedule_save_sensors()
                loop = asyncio.get_running_loop()
                if not await loop.run_in_executor(None, inside.wait, 10):
                    release.set()
                    return "the scheduled save never reached the pause point"
                for ln in TRAFFIC[traffic]:
                    gw.tasks.add_job(gw.logic, ln)

                async def stop():
                    try:
                        await gw.stop()
                    except Exception as exc:
                        errors.append(f"stop() raised {type(exc).__name__}: {exc}")
                    out["held"] = _proj(gw)
                task = loop.create_task(stop())
                await asyncio.sleep(0.4)
                out["stop_waited_for_the_slow_save"] = not task.done()
                release.set()
                await asyncio.wait_for(task, 20)
                return None
            why = asyncio.run(main())          # run() also joins the default executor: the slow thread has ended
            if why:
                return {"variant": list(v), "setup": why}
    out["errors"] = errors
    out["state_old"], out["state_new"] = state_old, state_new
    out["ids_given"] = [m.split(";")[5].strip() for m in tr.sent if m.startswith("255;255;3;0;4;")]
    tr2 = _Tr()
    g2 = _gw(flav, path, tr2)
    try:
        g2.tasks.persistence.safe_load_sensors()
        out["load_error"] = None
    except Exception as exc:
        out["load_error"] = f"{type(exc).__name__}: {exc}"
    out["loaded"] = _proj(g2)
    g2.tasks.add_job(g2.logic, "255;255;3;0;3;")
    while flav == "sync" and g2.tasks.queue:
        tr2.send(g2.tasks.run_job())
    out["ids_after_restart"] = [m.split(";")[5].strip() for m in tr2.sent if m.startswith("255;255;3;0;4;")]
    out["files"] = sorted(os.listdir(root))
    return out


def judge(o, pid):
    if "setup" in o:
        return [("setup", o["setup"], False)]
    if "stuck" in o:
        return [("stuck", o["stuck"], True)]
    out = []
    if pid == "C14":
        if o["errors"]:
            out.append(("stop-raises", o["errors"][0], True))
        if o["load_error"]:
            out.append(("load-raises", f"start-up load after the stop raised {o['load_error']} (files {o['files']})", True))
        elif o["loaded"] != o["held"]:
            out.append(("state-lost", f"a scheduled save was still being written when stop() was called: a fresh gateway loads "
                        f"{o['loaded']}, the gateway held {o['held']} when stop() returned (files {o['files']})", True))
    else:
        again = sorted(set(o["ids_given"]) & set(o["ids_after_restart"]))
        known = sorted(str(n[0]) for n in o.get("held", []) if str(n[0]) in o["ids_after_restart"])
        if known and not again:
            out.append(("id-of-known-node-handed-out", f"after the restart id {known} is handed out, which belongs to a node the "
                        f"gateway held when it was stopped", True))
        if again:
            out.append(("id-handed-out-again", f"id {again} was handed out while a scheduled save was being written, the gateway "
                        f"was stopped, and the restarted gateway hands it out again", True))
    return out


def loaded_token(o):
    """What the start-up after the stop loaded, in the model's vocabulary (TOld / TNew / TNext of Model/FsConc.v)."""
    if o.get("load_error"):
        return "raise"
    for tok, key in (("ok:next", "held"), ("ok:new", "state_new"), ("ok:old", "state_old")):
        if o["loaded"] == o.get(key):
            return tok
    return "ok:" if not o["loaded"] else "other"


def run_all(res, pid, thorough=False, collect=None):
    from harness import core
    root = str(core.BUILD / "scratch" / ("slow-%d" % os.getpid()))
    n = 0
    try:
        for v in VARIANTS + (MORE_VARIANTS if thorough else []):
            if pid == "C06" and v[3] != "id-request":
                continue
            res.evaluations += 1
            n += 1
            case = {"kind": "slow-save", "variant": list(v)}
            try:
                o = run_variant(os.path.join(root, "v"), v)
            except Exception as exc:
                res.violate("slow-save/harness", f"{v}: {type(exc).__name__}: {exc}", case, kind="harness", found_input=False)
                continue
            if "setup" in o:
                # the slow save never got to this pause point (e.g. the code no longer makes that call): nothing can
                # be concluded from this variant - counted, not reported
                res.count("slow-save:pause-point-not-reached")
                continue
            if collect is not None:
                collect.append((v, o))
            js = judge(o, "C14" if pid == "C12" else pid)
            for key, what, concrete in js:
                if concrete:
                    res.violate("slow-save/" + key, f"{v[0]} gateway, {v[1]}, slow save paused {v[2]}, {v[3]}: {what}", case)
                else:
                    res.violate("slow-save/" + key, f"{v}: {what}", case, kind="harness", found_input=False)
            if not js:
                res.nontriv(("slow-save",) + tuple(v))
    finally:
        shutil.rmtree(root, ignore_errors=True)
    res.count("slow-save-variants", n)


def replay(case, pid):
    from harness import core
    root = str(core.BUILD / "scratch" / ("slow-%d" % os.getpid()))
    try:
        o = run_variant(os.path.join(root, "v"), tuple(case["variant"]))
    finally:
        shutil.rmtree(root, ignore_errors=True)
    j = judge(o, pid)
    return {"case": case, "observed": o, "judgement": [list(x) for x in j], "violates": bool(j)}
