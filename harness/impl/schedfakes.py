"""C15 implementation side: drive the REAL periodic-save code of /repo deterministically.

* threaded flavour: mysensors.BaseSyncGateway with threading.Timer replaced by a
  recording fake whose fire() the harness calls (no real timers, no threads);
* asyncio flavour: mysensors.BaseAsyncGateway under a real event loop, the real
  default executor, asyncio.sleep replaced by a gate the harness opens once per
  iteration;
* I/O faults: mock.patch of builtins.open / os.fsync / os.rename / os.remove /
  os.access for the persistence paths, for exactly one save;
* serialisation interposer: MySensorsJSONEncoder.default, Sensor.__getstate__ and
  ChildSensor.__reduce_ex__ are wrapped so that the j-th call of one save first
  runs one inbound line through gateway.logic (or raises OSError) - a
  deterministic single-threaded realisation of "a message is handled while the
  file is being written".

Nothing in /repo is modified; every wrapper is installed from here.
"""
import asyncio
import builtins
import errno
import os
import shutil
import threading
from unittest import mock

from harness import core


class FakeTransport:
    """What Tasks needs from a transport."""

    def __init__(self):
        self.sent = []
        self.connect_task = None

    def send(self, message):
        if message:
            self.sent.append(message)

    def connect(self):
        return None

    def disconnect(self):
        return None


class FakeTimer:
    """threading.Timer stand-in: records, never runs by itself."""

    created = []

    def __init__(self, interval, function, args=None, kwargs=None):
        self.interval = interval
        self.function = function
        self.started = self.cancelled = self.fired = False
        FakeTimer.created.append(self)

    def start(self):
        self.started = True

    def cancel(self):
        self.cancelled = True

    @property
    def pending(self):
        return self.started and not self.cancelled and not self.fired

    def fire(self):
        assert self.pending
        self.fired = True
        self.function()


def msg_line(m):
    k = m[0]
    if k == "n":
        return f"{m[1]};255;0;0;{m[2]};1.4"
    if k == "c":
        return f"{m[1]};{m[2]};0;0;{m[3]};d"
    if k == "v":
        return f"{m[1]};{m[2]};1;0;{m[3]};{m[4]}"
    raise ValueError(m)


def proj(sensors):
    """The persisted part of gateway.sensors in the model's rendering."""
    if not sensors:
        return "-"
    nodes = []
    for nid, s in sensors.items():
        ch = []
        for cid, c in s.children.items():
            vals = ",".join(f"{int(k)}={v}" for k, v in c.values.items())
            ch.append(f"{int(cid)}:{int(c.type)}{{{vals}}}")
        typ = int(s.type) if s.type is not None else "None"
        nodes.append(f"{int(nid)}:{typ}(" + "|".join(ch) + ")")
    return ";".join(nodes)


class Interposer:
    """Counts the serialiser's object visits of one save and acts at the j-th."""

    def __init__(self):
        self.calls = 0
        self.action = None      # (j, callable)
        self.active = False

    def hit(self):
        if not self.active:
            return
        j = self.calls
        self.calls += 1
        if self.action and self.action[0] == j:
            self.action[1]()


class Harness:
    """One case: a gateway of the chosen flavour and format on a scratch directory."""

    def __init__(self, fmt, scratch):
        import mysensors
        from mysensors import persistence as P, sensor as S
        self.mysensors, self.P, self.S = mysensors, P, S
        self.fmt = fmt
        self.dir = os.path.join(scratch, "live")
        self.copy = os.path.join(scratch, "copy")
        shutil.rmtree(self.dir, ignore_errors=True)
        os.makedirs(self.dir)
        self.path = os.path.join(self.dir, f"p.{fmt}")
        self.ip = Interposer()
        self.save_log = []          # (need_save before, exception class name or None, denied hit)
        self.denied_hit = False
        self.gw = None
        self.stop_now = None        # set by the flavour runner: calls stop() from inside a save
        self.inflight = 0           # save_sensors calls currently running
        self._stack = []

    # ---- wrappers installed for the whole case
    def install(self):
        P, S, ip, log = self.P, self.S, self.ip, self.save_log
        orig_default = P.MySensorsJSONEncoder.default
        orig_getstate = S.Sensor.__getstate__
        orig_save = P.Persistence.save_sensors
        harness = self

        def default(enc, o):
            if isinstance(o, (S.Sensor, S.ChildSensor)):
                ip.hit()
            return orig_default(enc, o)

        def getstate(sensor):
            ip.hit()
            return orig_getstate(sensor)

        def reduce_ex(child, proto):
            ip.hit()
            return object.__reduce_ex__(child, proto)

        def save_sensors(pers):
            before = pers.need_save
            harness.denied_hit = False
            harness.inflight += 1
            try:
                orig_save(pers)
            except BaseException as exc:
                log.append((before, exc_name(exc), harness.denied_hit))
                raise
            finally:
                harness.inflight -= 1
            log.append((before, None, harness.denied_hit))

        for p in (mock.patch.object(P.MySensorsJSONEncoder, "default", default),
                  mock.patch.object(S.Sensor, "__getstate__", getstate),
                  mock.patch.object(S.ChildSensor, "__reduce_ex__", reduce_ex, create=True),
                  mock.patch.object(P.Persistence, "save_sensors", save_sensors)):
            p.start()
            self._stack.append(p)

    def uninstall(self):
        while self._stack:
            self._stack.pop().stop()

    # ---- set-up
    def make_prior_file(self, msgs):
        gw = self.mysensors.BaseSyncGateway(FakeTransport(), persistence=True, persistence_file=self.path)
        for m in msgs:
            gw.logic(msg_line(m))
        gw.tasks.persistence.save_sensors()
        self.save_log.clear()

    # ---- observation
    def disk(self):
        """What a fresh gateway loads from a copy of the directory."""
        shutil.rmtree(self.copy, ignore_errors=True)
        shutil.copytree(self.dir, self.copy)
        path = os.path.join(self.copy, f"p.{self.fmt}")
        if not os.path.isfile(path) and not os.path.isfile(path + ".bak"):
            return "none"
        gw = self.mysensors.BaseSyncGateway(FakeTransport(), persistence=True, persistence_file=path)
        try:
            gw.tasks.persistence.safe_load_sensors()
        except Exception as exc:  # noqa: BLE001 - any failure to load is an observation
            return "LOADERR:" + exc_name(exc)
        return proj(gw.sensors)

    # ---- fault plans: context manager active during exactly one save
    def plan_patches(self, plan):
        """-> list of mock patchers realising the plan; sets the interposer action."""
        kind = plan[0]
        self.ip.calls = 0
        self.ip.action = None
        patches = []
        tmp_marker = ".tmp."

        def oserr():
            return OSError(errno.ENOSPC, "injected")

        if kind == "denied":
            real_access = os.access

            def access(path, mode, **kw):
                if mode != os.W_OK:
                    return real_access(path, mode, **kw)
                self.denied_hit = True
                return False
            patches.append(mock.patch("os.access", access))
        elif kind == "msg":
            j, m = plan[1], plan[2]
            line = msg_line(m)
            self.ip.action = (j, lambda: self.gw.logic(line))
        elif kind == "io":
            where, j = plan[1], plan[2]
            if where == "ser":
                def boom():
                    raise oserr()
                self.ip.action = (j, boom)
            elif where == "open":
                real_open = builtins.open

                def fake_open(file, mode="r", *a, **k):
                    if isinstance(file, str) and tmp_marker in os.path.basename(file) and mode.startswith("w"):
                        raise oserr()
                    return real_open(file, mode, *a, **k)
                patches.append(mock.patch("builtins.open", fake_open))
            elif where == "sync":
                def fsync(fd):
                    raise oserr()
                patches.append(mock.patch("os.fsync", fsync))
            elif where in ("renbak", "renmain"):
                real_rename = os.rename

                def rename(src, dst, **k):
                    to_bak = str(dst).endswith(".bak")
                    if (where == "renbak") == to_bak and str(src).startswith(self.dir):
                        raise oserr()
                    return real_rename(src, dst, **k)
                patches.append(mock.patch("os.rename", rename))
            elif where == "rembak":
                def remove(path, **k):
                    raise oserr()
                patches.append(mock.patch("os.remove", remove))
            else:
                raise ValueError(plan)
        elif kind == "stopat":
            # probe outside the model: stop() is called while this save serialises
            self.ip.action = (plan[1], lambda: self.stop_now())
        elif kind != "clean":
            raise ValueError(plan)
        return patches

    def outcome(self, n_before):
        """Classify what the save_sensors call(s) since n_before did."""
        new = self.save_log[n_before:]
        if not new:
            return "noop"
        before, exc, denied = new[-1]
        if exc:
            return "raise:" + exc
        if not before:
            return "skip"
        if denied:
            return "denied"
        return "ok"


def exc_name(exc):
    for cls, name in ((OSError, "OSError"), (RuntimeError, "RuntimeError"),
                      (asyncio.CancelledError, "CancelledError")):
        if isinstance(exc, cls):
            return name
    return type(exc).__name__


def msg_of(m):
    return list(m)


# ------------------------------------------------------------------ the two flavours

def run_case(case, scratch):
    """Run one case against the implementation. Returns the list of observations, one
    per step, each a dict(out, calls, d, a, s, disk, tree, escaped)."""
    if case["flavour"] == "sync":
        return _run_sync(case, scratch)
    return _run_async(case, scratch)


def _obs(h, out, calls, armed, stopped, escaped=None):
    pers = h.gw.tasks.persistence
    return {"out": out, "calls": calls, "d": bool(pers.need_save), "a": bool(armed), "s": bool(stopped),
            "disk": h.disk(), "tree": proj(h.gw.sensors), "escaped": escaped}


def _obs_init(h, case):
    """Before start_persistence(): memory will hold what the load returns."""
    o = _obs(h, "msg", 0, True, False)
    if case.get("file"):
        o["tree"] = o["disk"]
    return o


def _setup(case, scratch, cls_name):
    h = Harness(case["fmt"], scratch)
    h.install()
    if case.get("file"):
        h.make_prior_file(case["prior"])
    h.gw = getattr(h.mysensors, cls_name)(FakeTransport(), persistence=True, persistence_file=h.path)
    if not case.get("file"):
        for m in case["prior"]:
            h.gw.logic(msg_line(m))
    return h


def _run_sync(case, scratch):
    FakeTimer.created = []
    h = None
    tp = mock.patch.object(threading, "Timer", FakeTimer)
    tp.start()
    try:
        h = _setup(case, scratch, "BaseSyncGateway")
        gw = h.gw
        obs = []
        started = stopped = False
        flags = {"stopped": False}

        def stop_now():
            # the application thread calls stop() while the timer thread is inside this save: stop() gets as far as
            # it can (saves exclude each other since fix D23: its final save waits for this one) and is joined after
            # the step
            flags["stopped"] = True
            th = threading.Thread(target=gw.stop)
            th.start()
            th.join(0.3)
            flags["stop_thread"] = th
        h.stop_now = stop_now

        def armed():
            return any(t.pending for t in FakeTimer.created)

        for stp in case["steps"]:
            op = stp["op"]
            if op == "init":
                obs.append(_obs_init(h, case))
                continue
            if op == "m":
                gw.logic(msg_line(stp["msg"]))
                obs.append(_obs(h, "msg", 0, armed() or not started, stopped))
                continue
            patches = h.plan_patches(stp["plan"])
            n0 = len(h.save_log)
            escaped = None
            h.ip.active = True
            for p in patches:
                p.start()
            try:
                if op == "save":
                    if not started:
                        started = True
                        gw.start_persistence()          # load, then the first schedule_save() call
                    else:
                        pend = [t for t in FakeTimer.created if t.pending]
                        if pend:
                            pend[-1].fire()             # the timer thread runs schedule_save
                elif op == "stop":
                    stopped = True
                    gw.stop()
            except Exception as exc:  # noqa: BLE001 - would end the timer thread / reach the caller of stop()
                escaped = exc_name(exc)
            finally:
                for p in reversed(patches):
                    p.stop()
                h.ip.active = False
            th = flags.pop("stop_thread", None)
            if th is not None:
                th.join(30)
                if th.is_alive():
                    raise RuntimeError("stop() called during a scheduled save did not return within 30 s after that save ended")
            stopped = stopped or flags["stopped"]
            obs.append(_obs(h, h.outcome(n0), h.ip.calls, armed() or not started, stopped, escaped))
        return obs
    finally:
        tp.stop()
        if h:
            h.uninstall()


def _run_async(case, scratch):
    h = None
    loop = asyncio.new_event_loop()
    gate = []
    state = {"reached": None, "task": None}

    async def fake_sleep(delay, result=None):
        fut = loop.create_future()
        gate.append(fut)
        state["reached"].set()
        try:
            await fut
        finally:
            if fut in gate:
                gate.remove(fut)
        return result

    real_sleep = asyncio.sleep
    sp = mock.patch("asyncio.sleep", fake_sleep)
    sp.start()
    try:
        h = _setup(case, scratch, "BaseAsyncGateway")
        gw = h.gw

        flags = {"stopped": False}

        def stop_now():
            # called on the executor thread in the middle of a save: run stop() on the loop
            # stop() gets as far as it can while this save is under way (since fix D23 its final save waits for this
            # one); it is awaited after the step
            flags["stopped"] = True
            import concurrent.futures
            fut = asyncio.run_coroutine_threadsafe(gw.stop(), loop)
            try:
                fut.result(timeout=0.3)
            except concurrent.futures.TimeoutError:
                flags["stop_future"] = fut
        h.stop_now = stop_now

        async def main():
            state["reached"] = asyncio.Event()
            obs = []
            started = stopped = False

            def armed():
                t = state["task"]
                return bool(t is not None and not t.done() and gate)

            for stp in case["steps"]:
                op = stp["op"]
                if op == "init":
                    obs.append(_obs_init(h, case))
                    continue
                if op == "m":
                    gw.logic(msg_line(stp["msg"]))
                    obs.append(_obs(h, "msg", 0, armed() or not started, stopped))
                    continue
                patches = h.plan_patches(stp["plan"])
                n0 = len(h.save_log)
                escaped = None
                h.ip.active = True
                for p in patches:
                    p.start()
                try:
                    if op == "save":
                        state["reached"].clear()
                        if not started:
                            started = True
                            before = set(asyncio.all_tasks())
                            await gw.start_persistence()     # load in executor; creates the task
                            new = [t for t in asyncio.all_tasks() if t not in before]
                            if len(new) != 1:
                                raise AssertionError(f"expected one save task, found {len(new)}")
                            state["task"] = new[0]
                            new[0].add_done_callback(lambda _t: state["reached"].set())
                            await asyncio.wait_for(state["reached"].wait(), 30)    # first iteration runs up to the sleep
                        elif armed():
                            gate[-1].set_result(None)        # the sleep ends
                            await asyncio.wait_for(state["reached"].wait(), 30)    # next iteration up to the next sleep / task end
                    elif op == "stop":
                        stopped = True
                        await gw.stop()
                except Exception as exc:  # noqa: BLE001
                    escaped = exc_name(exc)
                finally:
                    for p in reversed(patches):
                        p.stop()
                    h.ip.active = False
                fut = flags.pop("stop_future", None)
                if fut is not None:
                    await asyncio.wait_for(asyncio.wrap_future(fut), 30)
                while h.inflight:                        # an orphaned executor save (stop during a save)
                    await real_sleep(0.001)
                stopped = stopped or flags["stopped"]
                t = state["task"]
                if escaped is None and t is not None and t.done() and not t.cancelled() and t.exception() is not None:
                    escaped = exc_name(t.exception())        # the exception that ended the task
                obs.append(_obs(h, h.outcome(n0), h.ip.calls, armed() or not started, stopped, escaped))
            t = state["task"]
            if t is not None and not t.done():
                t.cancel()
                try:
                    await t
                except BaseException:  # noqa: BLE001
                    pass
            return obs

        return loop.run_until_complete(main())
    finally:
        sp.stop()
        try:
            loop.run_until_complete(loop.shutdown_default_executor())
        finally:
            loop.close()
        if h:
            h.uninstall()


def scratch_dir(root_pid=None):
    """Scratch directory of this process, below the directory of the process that owns the run."""
    d = core.BUILD / "scratch" / str(root_pid or os.getpid()) / "c15" / f"w{os.getpid()}"
    d.mkdir(parents=True, exist_ok=True)
    return str(d)
