"""Fakes and rigs for C20: the real Serial/TCP gateways (threaded and asyncio) over fake OS
objects on a simulated clock.

Clock unit: 1 tick = 1/1024 s, so every instant handed to the code (time.time(), loop.time())
is an exact binary64 number and `a + 2 * rt < now` in the code is exact integer arithmetic.
Observations per event: (now, transport.protocol is not None, protocol.transport is not None,
dial-loop state I | D | S<until>, outputs).  Outputs:
  M    on_conn_made(gateway) called          L0 / L1  on_conn_lost(gateway, None / exc)
  A<t> dial attempt at tick t                W        bytes written to the link
  C    mysensors code closed the link        S<d>     the dial loop sleeps d ticks
"""
import asyncio
import math
import threading
import time as _time
from unittest import mock

TPS = 1024                    # ticks per second
BASE = 1000 * TPS             # time.time() == 1000.0 at tick 0 of a case
LINE = "1;1;1;0;2;1\n"        # a user line for Send / WriteError
ANSWER = b"0;255;3;0;2;2.2\n"  # I_VERSION answer of the gateway
PROBE = b"0;255;3;0;2;\n"     # I_VERSION request written by check_connection

EVENTS = ("ok", "fail", "rerr", "werr", "pclose", "preset", "udisc", "stop", "ans", "send")


class HarnessError(Exception):
    """The rig itself failed (a wait timed out, the loop did not settle): never a violation."""


def ticks_of(seconds):
    return int(math.ceil(seconds * TPS - 1e-6))


class Clock:
    def __init__(self):
        self.t = BASE

    def time(self):
        return self.t / float(TPS)

    def rel(self):
        return self.t - BASE


def is_tick(ev):
    return ev[0] == "t" and ev[1:].isdigit()


# ======================================================================= asyncio rigs

class FakeAsyncTransport(asyncio.Transport):
    """What the protocol sees of an asyncio transport: write/close; close() schedules
    connection_lost(None) once; errors/EOF detected by the transport schedule
    connection_lost(exc / None) after closing the OS object themselves."""

    def __init__(self, rig, proto):
        super().__init__()
        self.rig, self.proto = rig, proto
        self.closed = False
        self.fail_write = False
        self.serial = self            # serial_asyncio transports have .serial (only logged)

    def write(self, data):
        if self.fail_write:
            self.fail_write = False
            raise BrokenPipeError("simulated write failure")
        if self.closed:
            return
        self.rig.emit("W", data=bytes(data))

    def close(self):
        if self.closed:
            return
        self.closed = True
        self.rig.emit("C")
        self.rig.loop.call_soon(self.proto.connection_lost, None)

    def is_closing(self):
        return self.closed

    def inject_lost(self, exc):
        if self.closed:
            return
        self.closed = True
        self.rig.loop.call_soon(self.proto.connection_lost, exc)


class AsyncRig:
    def __init__(self, flavour, rt_ticks, fail_kind=0):
        import serial
        assert flavour in ("aser", "atcp")
        self.flavour, self.rt, self.fail_kind = flavour, rt_ticks, fail_kind
        self.clock = Clock()
        self.loop = asyncio.new_event_loop()
        for a in ("_ready", "_scheduled"):
            if not hasattr(self.loop, a):
                raise HarnessError("event loop internals changed: " + a)
        self.loop.time = self.clock.time
        self.cur = []              # outputs of the event being processed
        self.detail = []           # (tag, info) in order, for the monitors
        self.pending = []          # futures of pending dials
        self.links = []
        self.sleep_until = None
        self.injected = {}         # id(exc) -> exc of injected errors
        self.serial = serial
        self.patches = [mock.patch("time.time", self.clock.time),
                        mock.patch("asyncio.sleep", self._sleep)]
        self._real_sleep = asyncio.sleep
        rt_s = rt_ticks / float(TPS)
        if flavour == "atcp":
            from mysensors.gateway_tcp import AsyncTCPGateway
            self.loop.create_connection = self._create_connection
            with self.patches[0]:
                self.gw = AsyncTCPGateway("127.0.0.1", reconnect_timeout=rt_s, protocol_version="2.2")
        else:
            from mysensors.gateway_serial import AsyncSerialGateway
            self.patches.append(mock.patch("serial_asyncio.create_serial_connection", self._create_serial))
            self.gw = AsyncSerialGateway("/dev/fake", reconnect_timeout=rt_s, protocol_version="2.2")
        self.tr = self.gw.tasks.transport
        self.proto = self.tr.protocol
        self.gw.on_conn_made = self._made
        self.gw.on_conn_lost = self._lost

    # --- recording
    def emit(self, tag, **info):
        self.cur.append(tag)
        info["t"] = self.clock.rel()
        self.detail.append((tag, info))

    def _made(self, gw):
        self.emit("M", ok=gw is self.gw)

    def _lost(self, gw, exc):
        self.emit("L1" if exc else "L0", ok=gw is self.gw, exc=repr(exc),
                  injected=exc is None or id(exc) in self.injected)

    # --- fakes
    async def _sleep(self, delay, result=None):
        d = ticks_of(delay)
        self.emit("S%d" % d)
        self.sleep_until = self.clock.rel() + d
        try:
            return await self._real_sleep(delay, result)
        finally:
            self.sleep_until = None

    async def _dial(self):
        fut = self.loop.create_future()
        self.pending.append(fut)
        self.emit("A%d" % self.clock.rel())
        try:
            await fut
        finally:
            if fut in self.pending:
                self.pending.remove(fut)

    async def _create_connection(self, protocol_factory, host=None, port=None, **kw):
        await self._dial()
        proto = protocol_factory()
        tr = FakeAsyncTransport(self, proto)
        # _SelectorSocketTransport.__init__: loop.call_soon(self._protocol.connection_made, self)
        self.loop.call_soon(proto.connection_made, tr)
        waiter = self.loop.create_future()
        self.loop.call_soon(waiter.set_result, None)
        await waiter                       # create_connection returns after connection_made ran
        self.links.append(tr)
        return tr, proto

    async def _create_serial(self, loop, protocol_factory, *args, **kwargs):
        await self._dial()                 # serial.serial_for_url(...)
        proto = protocol_factory()
        tr = FakeAsyncTransport(self, proto)
        loop.call_soon(proto.connection_made, tr)   # SerialTransport.__init__
        self.links.append(tr)
        return tr, proto

    # --- loop driving
    def _next_deadline(self):
        whens = [h._when for h in self.loop._scheduled if not h._cancelled]
        return ticks_of(min(whens)) if whens else None

    def settle(self):
        for _ in range(200):
            self.loop.call_soon(self.loop.stop)
            self.loop.run_forever()
            d = self._next_deadline()
            if not self.loop._ready and (d is None or d > self.clock.t):
                return
        raise HarnessError("event loop did not settle")

    def link(self):
        if self.links and not self.links[-1].closed:
            return self.links[-1]
        return None

    def start(self):
        for p in self.patches:
            p.start()
        asyncio.set_event_loop(self.loop)
        self.loop.set_exception_handler(lambda loop, ctx: None)
        self.start_task = self.loop.create_task(self.gw.start())
        self.settle()
        return self.take()

    def take(self):
        o, self.cur = self.cur, []
        return o

    def fail_exc(self):
        if self.flavour == "aser":
            return self.serial.SerialException("simulated: could not open port")
        return asyncio.TimeoutError() if self.fail_kind else ConnectionRefusedError("simulated")

    def _in_loop(self, fn):
        """run user code / a transport callback inside the running loop"""
        def act():
            try:
                fn()
            except Exception as exc:  # escapes to the caller of send()/disconnect()/...
                self.emit("X:" + type(exc).__name__)
        self.loop.call_soon(act)

    def do(self, ev):
        ln = self.link()
        if ev == "ok":
            if self.pending:
                self.pending[0].set_result(None)
        elif ev == "fail":
            if self.pending:
                self.pending[0].set_exception(self.fail_exc())
        elif ev in ("rerr", "preset"):
            if ln:
                if self.flavour == "aser":
                    exc = self.serial.SerialException("simulated read failure")
                else:
                    exc = OSError("simulated") if ev == "rerr" else ConnectionResetError("simulated")
                self.injected[id(exc)] = exc
                ln.inject_lost(exc)
        elif ev == "pclose":
            if ln:
                ln.inject_lost(None)
        elif ev == "werr":
            def werr():
                if ln:
                    ln.fail_write = True
                try:
                    self.tr.send(LINE)
                finally:
                    if ln:
                        ln.fail_write = False
            self._in_loop(werr)
        elif ev == "send":
            self._in_loop(lambda: self.tr.send(LINE))
        elif ev == "udisc":
            self._in_loop(self.tr.disconnect)
        elif ev == "stop":
            t = self.loop.create_task(self.gw.stop())
            self.settle()
            if not t.done():
                raise HarnessError("gateway.stop() did not finish")
            if t.exception() is not None:
                self.emit("X:" + type(t.exception()).__name__)
        elif ev == "ans":
            if ln:
                self._in_loop(lambda: ln.proto.data_received(ANSWER))
        elif is_tick(ev):
            dt = int(ev[1:])
            if dt > 0 and not self.pending:
                target = self.clock.t + dt
                d = self._next_deadline()
                self.clock.t = max(d, self.clock.t) if d is not None and d <= target else target
        else:
            raise HarnessError("unknown event " + ev)
        self.settle()
        return self.observe()

    def ct(self):
        if self.pending:
            return "D"
        if self.sleep_until is not None:
            return "S%d" % self.sleep_until
        return "I"

    def observe(self):
        return (self.clock.rel(), int(self.tr.protocol is not None), int(self.proto.transport is not None),
                self.ct(), self.take())

    def close(self):
        try:
            for t in asyncio.all_tasks(self.loop):
                t.cancel()
            for f in list(self.pending):
                if not f.done():
                    f.cancel()
            try:
                self.settle()
            except HarnessError:
                pass
        finally:
            for p in self.patches:
                try:
                    p.stop()
                except RuntimeError:
                    pass
            asyncio.set_event_loop(None)
            self.loop.close()


def run_async(flavour, rt_ticks, events, fail_kind=0):
    """-> (start outputs, [observation per event], detail log)"""
    rig = AsyncRig(flavour, rt_ticks, fail_kind)
    try:
        first = rig.start()
        obs = []
        for ev in events:
            rig.detail.append(("ev", {"ev": ev}))
            obs.append(rig.do(ev))
        return first, obs, rig.detail
    finally:
        rig.close()
