"""Fakes and rigs for C20: the real Serial/TCP gateways (threaded and asyncio) over fake OS
objects on a simulated clock.

Clock unit: 1 tick = 1/1024 s, so every instant handed to the code (time.time(), loop.time())
is an exact binary64 number and `a + 2 * rt < now` in the code is exact integer arithmetic.
Observations per event: (now, transport.protocol is not None, protocol.transport is not None,
dial-loop state I | D | S<until>, outputs).  Outputs:
  M    on_conn_made(gateway) called          L0 / L1  on_conn_lost(gateway, None / exc)
  A<t> dial attempt at tick t                W        bytes written to the link
  C    mysensors code closed the link        S<d>     the dial loop sleeps d ticks
"""
import asyncio
import math
import threading
import time as _time
from unittest import mock

TPS = 1024                    # ticks per second
BASE = 1000 * TPS             # time.time() == 1000.0 at tick 0 of a case
LINE = "1;1;1;0;2;1\n"        # a user line for Send / WriteError
ANSWER = b"0;255;3;0;2;2.2\n"  # I_VERSION answer of the gateway
PROBE = b"0;255;3;0;2;\n"     # I_VERSION request written by check_connection

EVENTS = ("ok", "fail", "rerr", "werr", "pclose", "preset", "udisc", "stop", "ans", "send")


class HarnessError(Exception):
    """The rig itself failed (a wait timed out, the loop did not settle): never a violation."""


def ticks_of(seconds):
    return int(math.ceil(seconds * TPS - 1e-6))


class Clock:
    def __init__(self):
        self.t = BASE

    def time(self):
        return self.t / float(TPS)

    def rel(self):
        return self.t - BASE


def is_tick(ev):
    return ev[0] == "t" and ev[1:].isdigit()


# ======================================================================= asyncio rigs

class FakeAsyncTransport(asyncio.Transport):
    """What the protocol sees of an asyncio transport: write/close; close() schedules
    connection_lost(None) once; errors/EOF detected by the transport schedule
    connection_lost(exc / None) after closing the OS object themselves."""

    def __init__(self, rig, proto):
        super().__init__()
        self.rig, self.proto = rig, proto
        self.closed = False
        self.fail_write = False
        self.serial = self            # serial_asyncio transports have .serial (only logged)

    def write(self, data):
        if self.fail_write:
            self.fail_write = False
            raise BrokenPipeError("simulated write failure")
        if self.closed:
            return
        self.rig.emit("W", data=bytes(data))

    def close(self):
        if self.closed:
            return
        self.closed = True
        self.rig.emit("C")
        self.rig.loop.call_soon(self.proto.connection_lost, None)

    def is_closing(self):
        return self.closed

    def inject_lost(self, exc):
        if self.closed:
            return
        self.closed = True
        self.rig.loop.call_soon(self.proto.connection_lost, exc)


class AsyncRig:
    def __init__(self, flavour, rt_ticks, fail_kind=0):
        import serial
        assert flavour in ("aser", "atcp")
        self.flavour, self.rt, self.fail_kind = flavour, rt_ticks, fail_kind
        self.clock = Clock()
        self.loop = asyncio.new_event_loop()
        for a in ("_ready", "_scheduled"):
            if not hasattr(self.loop, a):
                raise HarnessError("event loop internals changed: " + a)
        self.loop.time = self.clock.time
        self.cur = []              # outputs of the event being processed
        self.detail = []           # (tag, info) in order, for the monitors
        self.pending = []          # futures of pending dials
        self.links = []
        self.sleep_until = None
        self.injected = {}         # id(exc) -> exc of injected errors
        self.serial = serial
        self.patches = [mock.patch("time.time", self.clock.time),
                        mock.patch("asyncio.sleep", self._sleep)]
        self._real_sleep = asyncio.sleep
        rt_s = rt_ticks / float(TPS)
        if flavour == "atcp":
            from mysensors.gateway_tcp import AsyncTCPGateway
            self.loop.create_connection = self._create_connection
            with self.patches[0]:
                self.gw = AsyncTCPGateway("127.0.0.1", reconnect_timeout=rt_s, protocol_version="2.2")
        else:
            from mysensors.gateway_serial import AsyncSerialGateway
            self.patches.append(mock.patch("serial_asyncio.create_serial_connection", self._create_serial))
            self.gw = AsyncSerialGateway("/dev/fake", reconnect_timeout=rt_s, protocol_version="2.2")
        self.tr = self.gw.tasks.transport
        self.proto = self.tr.protocol
        self.gw.on_conn_made = self._made
        self.gw.on_conn_lost = self._lost

    # --- recording
    def emit(self, tag, **info):
        self.cur.append(tag)
        info["t"] = self.clock.rel()
        self.detail.append((tag, info))

    def mark(self, tag, **info):
        info["t"] = self.clock.rel()
        self.detail.append((tag, info))

    def _made(self, gw):
        self.emit("M", ok=gw is self.gw)

    def _lost(self, gw, exc):
        self.emit("L1" if exc else "L0", ok=gw is self.gw, exc=repr(exc),
                  injected=exc is None or id(exc) in self.injected)

    # --- fakes
    async def _sleep(self, delay, result=None):
        d = ticks_of(delay)
        self.emit("S%d" % d)
        self.sleep_until = self.clock.rel() + d
        try:
            return await self._real_sleep(delay, result)
        finally:
            self.sleep_until = None

    async def _dial(self):
        fut = self.loop.create_future()
        self.pending.append(fut)
        self.emit("A%d" % self.clock.rel())
        try:
            await fut
        finally:
            if fut in self.pending:
                self.pending.remove(fut)

    async def _create_connection(self, protocol_factory, host=None, port=None, **kw):
        await self._dial()
        proto = protocol_factory()
        tr = FakeAsyncTransport(self, proto)
        # _SelectorSocketTransport.__init__: loop.call_soon(self._protocol.connection_made, self)
        self.loop.call_soon(proto.connection_made, tr)
        self.mark("up")
        waiter = self.loop.create_future()
        self.loop.call_soon(waiter.set_result, None)
        await waiter                       # create_connection returns after connection_made ran
        self.links.append(tr)
        return tr, proto

    async def _create_serial(self, loop, protocol_factory, *args, **kwargs):
        await self._dial()                 # serial.serial_for_url(...)
        proto = protocol_factory()
        tr = FakeAsyncTransport(self, proto)
        loop.call_soon(proto.connection_made, tr)   # SerialTransport.__init__
        self.links.append(tr)
        self.mark("up")
        return tr, proto

    # --- loop driving
    def _next_deadline(self):
        whens = [h._when for h in self.loop._scheduled if not h._cancelled]
        return ticks_of(min(whens)) if whens else None

    def settle(self):
        for _ in range(200):
            self.loop.call_soon(self.loop.stop)
            self.loop.run_forever()
            d = self._next_deadline()
            if not self.loop._ready and (d is None or d > self.clock.t):
                return
        raise HarnessError("event loop did not settle")

    def link(self):
        if self.links and not self.links[-1].closed:
            return self.links[-1]
        return None

    def start(self):
        for p in self.patches:
            p.start()
        asyncio.set_event_loop(self.loop)
        self.loop.set_exception_handler(lambda loop, ctx: None)
        self.start_task = self.loop.create_task(self.gw.start())
        self.settle()
        return self.take()

    def take(self):
        o, self.cur = self.cur, []
        return o

    def fail_exc(self):
        if self.flavour == "aser":
            return self.serial.SerialException("simulated: could not open port")
        return asyncio.TimeoutError() if self.fail_kind else ConnectionRefusedError("simulated")

    def _in_loop(self, fn):
        """run user code / a transport callback inside the running loop"""
        def act():
            try:
                fn()
            except Exception as exc:  # escapes to the caller of send()/disconnect()/...
                self.emit("X:" + type(exc).__name__)
        self.loop.call_soon(act)

    def do(self, ev):
        ln = self.link()
        if ev == "ok":
            if self.pending:
                self.pending[0].set_result(None)
        elif ev == "fail":
            if self.pending:
                self.pending[0].set_exception(self.fail_exc())
        elif ev in ("rerr", "preset"):
            if ln:
                if self.flavour == "aser":
                    exc = self.serial.SerialException("simulated read failure")
                else:
                    exc = OSError("simulated") if ev == "rerr" else ConnectionResetError("simulated")
                self.injected[id(exc)] = exc
                self.mark("down", cause=ev)
                ln.inject_lost(exc)
        elif ev == "pclose":
            if ln:
                self.mark("down", cause=ev)
                ln.inject_lost(None)
        elif ev == "werr":
            def werr():
                if ln:
                    ln.fail_write = True
                try:
                    self.tr.send(LINE)
                finally:
                    if ln:
                        ln.fail_write = False
            self._in_loop(werr)
        elif ev == "send":
            self._in_loop(lambda: self.tr.send(LINE))
        elif ev == "udisc":
            self._in_loop(self.tr.disconnect)
        elif ev == "stop":
            t = self.loop.create_task(self.gw.stop())
            self.settle()
            if not t.done():
                raise HarnessError("gateway.stop() did not finish")
            if t.exception() is not None:
                self.emit("X:" + type(t.exception()).__name__)
        elif ev == "ans":
            if ln:
                self.mark("ans")
                self._in_loop(lambda: ln.proto.data_received(ANSWER))
        elif is_tick(ev):
            dt = int(ev[1:])
            if dt > 0 and not self.pending:
                target = self.clock.t + dt
                d = self._next_deadline()
                self.clock.t = max(d, self.clock.t) if d is not None and d <= target else target
        else:
            raise HarnessError("unknown event " + ev)
        self.settle()
        return self.observe()

    def ct(self):
        if self.pending:
            return "D"
        if self.sleep_until is not None:
            return "S%d" % self.sleep_until
        return "I"

    def observe(self):
        return (self.clock.rel(), int(self.tr.protocol is not None), int(self.proto.transport is not None),
                self.ct(), self.take())

    def close(self):
        try:
            for t in asyncio.all_tasks(self.loop):
                t.cancel()
            for f in list(self.pending):
                if not f.done():
                    f.cancel()
            try:
                self.settle()
            except HarnessError:
                pass
        finally:
            for p in self.patches:
                try:
                    p.stop()
                except RuntimeError:
                    pass
            asyncio.set_event_loop(None)
            self.loop.close()


def run_async(flavour, rt_ticks, events, fail_kind=0):
    """-> (start outputs, [observation per event], detail log)"""
    rig = AsyncRig(flavour, rt_ticks, fail_kind)
    try:
        first = rig.start()
        obs = []
        for ev in events:
            rig.mark("ev", ev=ev)
            obs.append(rig.do(ev))
        rig.mark("end")
        return first, obs, rig.detail
    finally:
        rig.close()


# ======================================================================= threaded rigs

class _Abort(BaseException):
    """raised inside fakes at clean-up time to end the gateway's threads"""


class FakeLink:
    """common part of the fake serial port / socket"""

    def __init__(self, rig):
        self.rig = rig
        self.is_open = True
        self.fail_write = False
        self.script = []           # serial: pending results of read(): bytes | Exception
        self.inbuf = []            # tcp: readable data
        self.eof = False
        self.err_select = False
        self.err_recv = None
        self.timeout = None
        self.write_timeout = None
        self.cancelled = False

    def _write(self, data, exc):
        if self.fail_write:
            self.fail_write = False
            raise exc
        self.rig.emit("W", data=bytes(data))
        return len(data)

    def close(self):
        if self.is_open:
            self.is_open = False
            self.rig.emit("C")


class FakeSerial(FakeLink):
    in_waiting = 0

    def read(self, size=1):
        rig = self.rig
        with rig.cv:
            while True:
                if rig.abort:
                    raise _Abort()
                if self.script:
                    r = self.script.pop(0)
                    if isinstance(r, Exception):
                        raise r
                    return r
                if self.cancelled:
                    self.cancelled = False
                    return b""
                rig.block("read", link=self)

    def cancel_read(self):
        with self.rig.cv:
            self.cancelled = True
            self.rig.release(lambda b: b.get("link") is self)

    def write(self, data):
        return self._write(data, self.rig.serial.SerialException("simulated write failure"))


class FakeSocket(FakeLink):
    def setblocking(self, flag):
        pass

    def fileno(self):
        return -1

    def recv(self, n):
        if self.err_recv is not None:
            exc, self.err_recv = self.err_recv, None
            raise exc
        if self.inbuf:
            return self.inbuf.pop(0)[:n]
        if self.eof:
            return b""
        raise BlockingIOError()

    def sendall(self, data):
        self._write(data, BrokenPipeError("simulated write failure"))


class SyncRig:
    WAIT = 20.0

    def __init__(self, flavour, rt_ticks, fail_kind=0):
        import serial
        import select
        import socket
        assert flavour in ("sser", "stcp")
        self.flavour, self.rt, self.fail_kind = flavour, rt_ticks, fail_kind
        self.serial, self.socket = serial, socket
        self.clock = Clock()
        self.cv = threading.Condition()
        self.blocked = {}          # thread -> dict(kind=..., ...)
        self.abort = False
        self.cur, self.detail, self.links, self.injected = [], [], [], {}
        self.base_threads = set(threading.enumerate())
        self.thread_errors = []
        self._real_select = select.select
        self._real_join = threading.Thread.join
        self._real_hook = threading.excepthook
        rig = self

        def join(thread, timeout=None):
            with rig.cv:
                rig.cv.notify_all()
            return rig._real_join(thread, timeout)

        self.patches = [mock.patch("time.time", self.clock.time), mock.patch("time.sleep", self._sleep),
                        mock.patch("select.select", self._select),
                        mock.patch.object(threading.Thread, "join", join)]
        rt_s = rt_ticks / float(TPS)
        if flavour == "sser":
            from mysensors.gateway_serial import SerialGateway
            self.patches.append(mock.patch("serial.serial_for_url", self._serial_for_url))
            self.gw = SerialGateway("/dev/fake", reconnect_timeout=rt_s, protocol_version="2.2")
        else:
            from mysensors.gateway_tcp import TCPGateway
            self.patches.append(mock.patch("socket.create_connection", self._create_connection))
            with self.patches[0]:
                self.gw = TCPGateway("127.0.0.1", reconnect_timeout=rt_s, protocol_version="2.2")
        self.tr = self.gw.tasks.transport
        self.proto = self.tr.protocol
        self.gw.on_conn_made = self._made
        self.gw.on_conn_lost = self._lost

    # --- recording (called from any thread)
    def emit(self, tag, **info):
        with self.cv:
            self.cur.append(tag)
            info["t"] = self.clock.rel()
            info["thread"] = threading.current_thread().name
            self.detail.append((tag, info))

    def mark(self, tag, **info):
        with self.cv:
            info["t"] = self.clock.rel()
            self.detail.append((tag, info))

    def _made(self, gw):
        self.emit("M", ok=gw is self.gw)

    def _lost(self, gw, exc):
        self.emit("L1" if exc else "L0", ok=gw is self.gw, exc=repr(exc),
                  injected=exc is None or id(exc) in self.injected or isinstance(exc, OSError) and "No response from" in str(exc)
                  or type(exc) is OSError and not exc.args)

    # --- blocking protocol (cv held by the caller)
    def block(self, kind, **info):
        """register the current thread as blocked and wait until released"""
        me = threading.current_thread()
        info["kind"] = kind
        self.blocked[me] = info
        self.cv.notify_all()
        while me in self.blocked and not self.abort:
            if kind == "reader" and not getattr(me, "alive", True):
                del self.blocked[me]          # ReaderThread.stop() cleared .alive and joins us
                break
            self.cv.wait(1.0)
        self.blocked.pop(me, None)
        if self.abort:
            raise _Abort()

    def release(self, pred):
        """cv held: release the blocked threads whose record satisfies pred"""
        n = 0
        for t, b in list(self.blocked.items()):
            if pred(b):
                del self.blocked[t]
                n += 1
        self.cv.notify_all()
        return n

    def find(self, kind):
        with self.cv:
            return [b for b in self.blocked.values() if b["kind"] == kind]

    # --- fakes
    def _kind_of_sleep(self):
        me = threading.current_thread()
        tgt = getattr(me, "_target", None)
        if tgt is not None and getattr(tgt, "__name__", "") == "_poll_queue":
            return "poll"
        if hasattr(me, "_check_connection"):
            return "reader"
        return "sleep"

    def _sleep(self, d):
        me = threading.current_thread()
        if me in self.base_threads:
            raise HarnessError("time.sleep called from the harness thread")
        kind = self._kind_of_sleep()
        with self.cv:
            if self.abort:
                raise _Abort()
            if kind == "sleep":
                dt = ticks_of(d)
                self.cur.append("S%d" % dt)
                self.detail.append(("S%d" % dt, {"t": self.clock.rel()}))
                self.block("sleep", until=self.clock.t + dt)
            else:
                self.block(kind)

    def _dial(self):
        with self.cv:
            if self.abort:
                raise _Abort()
            self.cur.append("A%d" % self.clock.rel())
            self.detail.append(("A%d" % self.clock.rel(), {"t": self.clock.rel()}))
            rec = {}
            self.block("dial", rec=rec)
            return rec.get("ok", False)

    def _serial_for_url(self, url, *a, **kw):
        if self._dial():
            ln = FakeSerial(self)
            self.links.append(ln)
            self.mark("up")
            return ln
        raise self.serial.SerialException("simulated: could not open port")

    def _create_connection(self, address, timeout=None, *a, **kw):
        if self._dial():
            ln = FakeSocket(self)
            self.links.append(ln)
            self.mark("up")
            return ln
        raise (self.socket.timeout("simulated") if self.fail_kind else ConnectionRefusedError("simulated"))

    def _select(self, r, w, x, timeout=None):
        if not (r and isinstance(r[0], FakeSocket)):
            return self._real_select(r, w, x, timeout)
        s = r[0]
        if self.abort:
            raise _Abort()
        if s.err_select:
            s.err_select = False
            return ([], [s], [s])
        return ([s] if (s.inbuf or s.eof or s.err_recv is not None) else [], [s], [])

    # --- quiescence
    def managed(self):
        return [t for t in threading.enumerate() if t not in self.base_threads]

    def wait_quiet(self):
        end = _time.monotonic() + self.WAIT
        with self.cv:
            while True:
                live = self.managed()
                if all(t in self.blocked for t in live):
                    return
                if _time.monotonic() > end:
                    raise HarnessError("threads did not become quiet: %s" % [t.name for t in live if t not in self.blocked])
                self.cv.wait(0.0005)

    def kick(self, kind):
        with self.cv:
            n = self.release(lambda b: b["kind"] == kind)
        self.wait_quiet()
        return n

    def pump(self):
        """let the real poll thread (SyncTasks._poll_queue) drain the job queue"""
        for _ in range(50):
            if not self.gw.tasks.queue or not self.find("poll"):
                return
            self.kick("poll")
        raise HarnessError("job queue does not drain")

    def _excepthook(self, args):
        if args.exc_type is _Abort:
            return
        with self.cv:
            self.cur.append("X:" + args.exc_type.__name__)
            self.detail.append(("X:" + args.exc_type.__name__, {"t": self.clock.rel(), "what": repr(args.exc_value)}))

    def start(self):
        for p in self.patches:
            p.start()
        threading.excepthook = self._excepthook
        self.gw.start()
        self.wait_quiet()
        return self.take()

    def take(self):
        with self.cv:
            o, self.cur = self.cur, []
        return o

    def link(self):
        if self.links and self.links[-1].is_open and self.proto.transport is not None \
                and getattr(self.proto.transport, "serial", None) is self.links[-1] and self.proto.transport.alive:
            return self.links[-1]
        return None

    def _user(self, fn):
        try:
            fn()
        except Exception as exc:
            self.emit("X:" + type(exc).__name__)

    def do(self, ev):
        ln = self.link()
        tcp = self.flavour == "stcp"
        dial = self.find("dial")
        if ev == "ok":
            if dial and self.tr.protocol is not None:
                with self.cv:
                    dial[0]["rec"]["ok"] = True
                    self.release(lambda b: b is dial[0])
        elif ev == "fail":
            if dial:
                with self.cv:
                    self.release(lambda b: b is dial[0])
        elif ev in ("rerr", "preset"):
            if ln:
                self.mark("down", cause=ev)
                if tcp:
                    if ev == "rerr":
                        ln.err_select = True
                    else:
                        exc = ConnectionResetError("simulated")
                        self.injected[id(exc)] = exc
                        ln.err_recv = exc
                    self.kick("reader")
                else:
                    exc = self.serial.SerialException("simulated read failure")
                    self.injected[id(exc)] = exc
                    with self.cv:
                        ln.script.append(exc)
                        self.release(lambda b: b.get("link") is ln)
        elif ev == "pclose":
            if ln:
                if tcp:
                    ln.eof = True
                    self.kick("reader")
                else:
                    with self.cv:
                        ln.script.append(b"")
                        self.release(lambda b: b.get("link") is ln)
        elif ev == "werr":
            if ln:
                ln.fail_write = True
            self._user(lambda: self.tr.send(LINE))
            if ln:
                ln.fail_write = False
        elif ev == "send":
            self._user(lambda: self.tr.send(LINE))
        elif ev == "udisc":
            self._user(self.tr.disconnect)
        elif ev == "stop":
            self._user(self.gw.stop)
            self.wait_quiet()
            self.kick("poll")               # the poll thread sees _stop_event and ends
        elif ev == "ans":
            if ln:
                if tcp:
                    if not ln.eof:
                        self.mark("ans")
                        ln.inbuf.append(ANSWER)
                        self.kick("reader")
                else:
                    with self.cv:
                        ln.script.append(ANSWER)
                        self.release(lambda b: b.get("link") is ln)
        elif is_tick(ev):
            dt = int(ev[1:])
            if dt > 0 and not dial:
                target = self.clock.t + dt
                sl = self.find("sleep")
                d = min((b["until"] for b in sl), default=None)
                if d is not None and d <= target:
                    with self.cv:
                        self.clock.t = max(d, self.clock.t)
                        self.release(lambda b: b["kind"] == "sleep" and b["until"] <= self.clock.t)
                else:
                    self.clock.t = target
                    if tcp and ln:
                        self.kick("reader")
        else:
            raise HarnessError("unknown event " + ev)
        self.wait_quiet()
        self.pump()
        return self.observe()

    def ct(self):
        if self.find("dial"):
            return "D"
        sl = self.find("sleep")
        if sl:
            return "S%d" % (min(b["until"] for b in sl) - BASE)
        return "I"

    def observe(self):
        return (self.clock.rel(), int(self.tr.protocol is not None), int(self.proto.transport is not None),
                self.ct(), self.take())

    def close(self):
        try:
            with self.cv:
                self.abort = True
                self.blocked.clear()
                self.cv.notify_all()
            end = _time.monotonic() + self.WAIT
            for t in self.managed():
                self._real_join(t, max(0.0, end - _time.monotonic()))
            left = [t.name for t in self.managed() if t.is_alive()]
        finally:
            for p in self.patches:
                try:
                    p.stop()
                except RuntimeError:
                    pass
            threading.excepthook = self._real_hook
        if left:
            raise HarnessError("threads leaked: %s" % left)


def run_sync(flavour, rt_ticks, events, fail_kind=0):
    rig = SyncRig(flavour, rt_ticks, fail_kind)
    try:
        first = rig.start()
        obs = []
        for ev in events:
            rig.mark("ev", ev=ev)
            obs.append(rig.do(ev))
        rig.mark("end")
        return first, obs, rig.detail
    finally:
        rig.close()


def run_case(flavour, rt_ticks, events, fail_kind=0):
    if flavour in ("aser", "atcp"):
        return run_async(flavour, rt_ticks, events, fail_kind)
    return run_sync(flavour, rt_ticks, events, fail_kind)
