"""C19 implementation side: the REAL BaseMySensorsProtocol.data_received in front of real
sync / async gateways with a recording transport, harness-driven pump, tagged logs.

Nothing in /repo is modified: observation points are instance attributes set from here
(proto.handle_line call-through wrapper, gw.logic call-through wrapper for the asyncio
flavour) and a recording object below the real mysensors.transport.Transport.send.
"""
import threading
import time as _time
from collections import deque
from unittest import mock


class HarnessError(Exception):
    """the harness itself failed (e.g. the poll thread never became idle); never a violation"""


class _FastSleepTime:
    """stands in for `time` inside mysensors.task: the poll period (0.02 s) is shortened, nothing else"""

    @staticmethod
    def sleep(seconds):
        _time.sleep(min(seconds, 0.001))

FIXED_TIME = 1700000000


class _FakeTimeModule:
    """stands in for the `time` module inside mysensors.handler (I_TIME reply deterministic)"""

    @staticmethod
    def localtime(*_a):
        return _time.gmtime(FIXED_TIME)


class _Low:
    def __init__(self):
        self.log = []

    def write(self, data):
        self.log.append(data)

    def close(self):
        pass


class _Proto:
    def __init__(self):
        self.transport = _Low()

    def conn_lost_callback(self):
        pass


def make_transport():
    from mysensors.transport import Transport

    class RecordingTransport(Transport):
        """the real Transport.send (drops None/empty, encodes) over a recording writer"""

        def __init__(self):
            super().__init__(None, None)
            self.protocol = _Proto()

        def connect(self):
            """tasks.start() connects the transport first: nothing to connect here"""

        @property
        def log(self):
            return self.protocol.transport.log

    return RecordingTransport()


def project(gw):
    """JSON-able projection of gw.sensors in insertion order (everything later behaviour can depend on)."""
    out = []
    for nid, s in gw.sensors.items():
        ch = [[cid, None if c.type is None else int(c.type), c.description,
               [[int(k) if isinstance(k, int) else repr(k), v] for k, v in c.values.items()]]
              for cid, c in s.children.items()]
        ns = [[cid, [[int(k) if isinstance(k, int) else repr(k), v] for k, v in c.values.items()]]
              for cid, c in s.new_state.items()]
        out.append({"id": nid, "type": None if s.type is None else int(s.type), "sketch": [s.sketch_name, s.sketch_version],
                    "battery": s.battery_level, "version": s.protocol_version, "heartbeat": s.heartbeat,
                    "children": ch, "desired": ns, "queue": list(s.queue), "reboot": s.reboot})
    return out


class Run:
    """One gateway + protocol; feed chunks under a pump schedule; everything observed is tagged.

    flavour: "sync" | "async".  schedule (sync only):
      "end"    pump only after the last chunk (max number of pending lines)
      "line"   drain after every delivered line   (poll thread faster than the reader)
      "chunk"  drain after every data_received call
      ("random", rng)  0..3 single pumps after every line and chunk, drain at the end
    """

    def __init__(self, flavour, version, schedule="end", tcp_gateway=False):
        import mysensors
        import mysensors.transport as T

        self.flavour = flavour
        self.schedule = schedule
        self.tr = make_transport()
        if flavour == "sync" and tcp_gateway:
            import mysensors.gateway_tcp as G

            class _TCP(mysensors.BaseSyncGateway, G.BaseTCPGateway):
                """TCPGateway's bases over the recording transport (TCPGateway itself builds a socket transport)"""

            self.gw = _TCP(self.tr, "127.0.0.1", protocol_version=version)
            self.proto = T.BaseMySensorsProtocol(self.gw, lambda: None)
        elif flavour == "sync":
            self.gw = mysensors.BaseSyncGateway(self.tr, protocol_version=version)
            self.proto = T.BaseMySensorsProtocol(self.gw, lambda: None)
        else:
            self.gw = mysensors.BaseAsyncGateway(self.tr, protocol_version=version)
            self.proto = T.AsyncMySensorsProtocol(self.gw, lambda: None)
        self.delivered = []      # arguments of handle_line, in order
        self.table = []          # per delivered line: [reply, [nested results]] as observed
        self.ops = []            # 'R' per delivered line, 'P' per pump call
        self.tags = deque()      # parallel to gw.tasks.queue (sync)
        self.emitted = []        # (tag, string) for every non-empty string sent; tag = ("L", i) | ("N", i, k)
        self.t_recv = {}
        self.t_run = {}
        self.clock = 0
        self.exc = None
        self.odd = []
        self._install()

    # ------------------------------------------------------------ observation points
    def _install(self):
        proto, gw = self.proto, self.gw
        orig_handle_line = type(proto).handle_line

        def handle_line(line):
            idx = len(self.delivered)
            self.delivered.append(line)
            self.ops.append("R")
            self.clock += 1
            self.t_recv[idx] = self.clock
            if self.flavour == "sync":
                q0 = len(gw.tasks.queue)
                orig_handle_line(proto, line)
                added = len(gw.tasks.queue) - q0
                if added != 1:
                    self.odd.append(f"handle_line enqueued {added} jobs for line {idx}")
                for _ in range(added):
                    self.tags.append(("L", idx))
                self.table.append([None, []])
                self._after_line()
            else:
                # asyncio flavour: everything written while handle_line runs belongs to this line;
                # the reply is the value logic() returned, the rest are its nested jobs
                self.table.append([None, []])
                self._reply = None
                l0 = len(self.tr.log)
                self.clock += 1
                self.t_run[idx] = self.clock
                orig_handle_line(proto, line)
                sent = [b.decode("utf-8", "surrogatepass") for b in self.tr.log[l0:]]
                reply = self._reply
                at = None
                if reply:
                    for k in range(len(sent) - 1, -1, -1):
                        if sent[k] == reply:
                            at = k
                            break
                nested = [x for k, x in enumerate(sent) if k != at]
                self.table[idx] = [reply if at is not None else None, nested]
                n = 0
                for k, x in enumerate(sent):
                    if k == at:
                        self.emitted.append((("L", idx), x))
                    else:
                        self.emitted.append((("N", idx, n), x))
                        n += 1

        proto.handle_line = handle_line
        if self.flavour == "async":
            orig_logic = gw.logic

            def logic(data):
                reply = orig_logic(data)
                self._reply = reply
                return reply

            gw.logic = logic

    # ------------------------------------------------------------ pump (sync)
    def pump(self):
        gw = self.gw
        q = gw.tasks.queue
        self.ops.append("P")
        self.clock += 1
        if not q:
            self.tr.send(gw.tasks.run_job())
            return
        tag = self.tags.popleft() if self.tags else ("?",)
        n0 = len(q) - 1
        reply = gw.tasks.run_job()
        new = len(q) - n0
        if tag[0] == "L":
            self.t_run[tag[1]] = self.clock
            self.table[tag[1]] = [reply, [None] * new]
            for k in range(new):
                self.tags.append(("N", tag[1], k))
        elif tag[0] == "N":
            self.table[tag[1]][1][tag[2]] = reply
            if new:
                self.odd.append(f"a nested job of line {tag[1]} enqueued {new} further jobs")
                for k in range(new):
                    self.tags.append(("?",))
        l0 = len(self.tr.log)
        self.tr.send(reply)
        if len(self.tr.log) > l0:
            self.emitted.append((tag, reply))

    def drain(self):
        n = 0
        while self.gw.tasks.queue:
            self.pump()
            n += 1
            if n > 100000:
                raise RuntimeError("pump does not drain")

    # ------------------------------------------------------------ the REAL poll thread
    def start_thread(self):
        """gw.tasks.start(): transport.connect() (no-op) + the real _poll_queue in its own thread"""
        before = set(threading.enumerate())
        self.gw.tasks.start()
        new = [t for t in threading.enumerate() if t not in before]
        if len(new) != 1:
            raise HarnessError(f"tasks.start() started {len(new)} threads")
        self.thread = new[0]

    def quiesce(self):
        """wait until the queue is empty AND the poll thread is idle: a sentinel job (added from
        this thread) reports from the poll thread whether anything is queued behind it"""
        tasks = self.gw.tasks
        for _ in range(100000):
            done = threading.Event()
            box = {}

            def sentinel(done=done, box=box):
                box["empty"] = not tasks.queue
                done.set()
                return None

            tasks.add_job(sentinel)
            if not done.wait(60):
                if not self.thread.is_alive():
                    self.exc = "poll thread died (exception in a job)"
                    return
                raise HarnessError("poll thread did not reach the sentinel job within 60 s")
            if box["empty"]:
                return
        raise HarnessError("poll thread never became idle")

    def stop_thread(self):
        self.gw.tasks._stop_event.set()      # not tasks.stop(): that also disconnects and saves
        self.thread.join(60)
        if self.thread.is_alive():
            raise HarnessError("poll thread did not stop within 60 s")

    def _after_line(self):
        s = self.schedule
        if s == "thread-line":
            if self.exc is None:
                self.quiesce()
        elif s == "line":
            self.drain()
        elif isinstance(s, tuple):
            for _ in range(s[1].choice((0, 0, 0, 1, 1, 2, 3))):
                self.pump()

    def _after_chunk(self):
        s = self.schedule
        if s == "chunk":
            self.drain()
        elif isinstance(s, tuple):
            for _ in range(s[1].choice((0, 0, 1, 1, 2, 3))):
                self.pump()

    # ------------------------------------------------------------ driving
    def setup(self, actions):
        """controller-side prefix, identical for every run of a case: lines handed to logic
        through add_job, controller calls; drained; the transport log is cleared afterwards"""
        gw = self.gw
        for a in actions:
            if a[0] == "line":
                gw.tasks.add_job(type(gw).logic.__get__(gw), a[1])
            elif a[0] == "set":
                try:
                    gw.set_child_value(a[1], a[2], a[3], a[4])
                except Exception:  # refused values are part of the (deterministic) setup
                    pass
            elif a[0] == "reboot":
                if a[1] in gw.sensors:
                    gw.sensors[a[1]].reboot = True
            elif a[0] == "metric":
                gw.metric = bool(a[1])
            while gw.tasks.queue:
                self.tr.send(gw.tasks.run_job())
        del self.tr.log[:]

    def feed(self, chunks):
        with mock.patch("mysensors.handler.time", _FakeTimeModule):
            try:
                for c in chunks:
                    self.proto.data_received(c)
                    if self.flavour == "sync":
                        self._after_chunk()
                if self.flavour == "sync":
                    self.drain()
            except Exception as exc:  # escaping exceptions are C01's subject; recorded, case skipped
                self.exc = f"{type(exc).__name__}: {exc}"
        return self.result()

    def result(self):
        return {
            "state": project(self.gw),
            "log": [b.decode("utf-8", "surrogatepass") for b in self.tr.log],
            "delivered": list(self.delivered),
            "residual": bytes(self.proto.buffer),
            "table": [[r if r else None, [x for x in ns if x]] for r, ns in self.table],
            "ops": "".join(self.ops),
            "emitted": list(self.emitted),
            "t_recv": dict(self.t_recv), "t_run": dict(self.t_run),
            "exc": self.exc, "odd": list(self.odd),
        }


def thread_run(version, setup, chunks, variant):
    """threaded flavour with the gateway's OWN poll thread (tasks.start()).
    variant "line": thread running, quiescence awaited after every delivered line
                    (must equal the hand-pumped "line" schedule);
    variant "end":  all chunks fed first, then the thread is started and drains
                    (must equal the hand-pumped "end" schedule)."""
    r = Run("sync", version, "thread-line" if variant == "line" else "thread-end")
    r.setup(setup)
    with mock.patch("mysensors.handler.time", _FakeTimeModule), mock.patch("mysensors.task.time", _FastSleepTime):
        started = False
        try:
            if variant == "line":
                r.start_thread()
                started = True
            for c in chunks:
                r.proto.data_received(c)
            if variant != "line":
                r.start_thread()
                started = True
            if r.exc is None:
                r.quiesce()
        except HarnessError:
            raise
        except Exception as exc:
            r.exc = f"{type(exc).__name__}: {exc}"
        finally:
            if started:
                r.stop_thread()
    return r.result()


def reference_run(version, setup, lines):
    """The function of the lines alone: each line handed to the asyncio gateway's add_job
    (inline logic + send), no protocol, no buffer."""
    r = Run("async", version)
    r.setup(setup)
    gw = r.gw
    with mock.patch("mysensors.handler.time", _FakeTimeModule):
        try:
            for line in lines:
                gw.tasks.add_job(type(gw).logic.__get__(gw), line)
        except Exception as exc:
            r.exc = f"{type(exc).__name__}: {exc}"
    return {"state": project(gw), "log": [b.decode("utf-8", "surrogatepass") for b in r.tr.log], "exc": r.exc}


# ---------------------------------------------------------------- TCP: the real TCPTransport.run loop

class FakeSocket:
    """feeds a byte stream to recv(n); `sizes` (optional) caps each recv below n"""

    def __init__(self, stream, sizes=None):
        self.stream = stream
        self.pos = 0
        self.sizes = list(sizes or [])
        self.recv_args = []
        self.returned = []
        self.sent = []
        self.owner = None

    def setblocking(self, flag):
        pass

    def recv(self, n):
        self.recv_args.append(n)
        k = n
        if self.sizes:
            k = max(1, min(n, self.sizes.pop(0)))
        data = self.stream[self.pos:self.pos + k]
        self.pos += len(data)
        if self.pos >= len(self.stream) and self.owner is not None:
            self.owner.alive = False     # stop the reader loop after this chunk
        self.returned.append(data)
        return data

    def sendall(self, data):
        self.sent.append(bytes(data))

    def close(self):
        pass

    def shutdown(self, *_a):
        pass


def tcp_run(version, setup, stream, sizes=None, pump=True):
    """sync flavour behind the real TCPTransport.run: recv(120) chunks reach data_received;
    the poll thread is played by the check-connection hook (called once per loop turn)."""
    import mysensors.gateway_tcp as G

    r = Run("sync", version, "end")
    r.setup(setup)
    sock = FakeSocket(stream, sizes)

    def check_conn():
        if pump:
            r.drain()

    t = G.TCPTransport(sock, lambda: r.proto, check_conn)
    sock.owner = t
    with mock.patch("mysensors.handler.time", _FakeTimeModule), \
            mock.patch.object(G.select, "select", lambda a, b, c, timeout=None: (a, b, [])), \
            mock.patch.object(G.time, "sleep", lambda s: None):
        try:
            if stream:
                t.run()
            r.drain()
        except Exception as exc:
            r.exc = f"{type(exc).__name__}: {exc}"
    # connection_lost cleared proto.transport; the buffer survives
    out = r.result()
    out["recv_args"] = sorted(set(sock.recv_args))
    out["chunks"] = [bytes(c) for c in sock.returned]
    return out


def tcp_probe_run(version, setup, stream, sizes=None):
    """As tcp_run, but the gateway is a TCP gateway and the reader loop's hook is its REAL check_connection under a
    clock that makes the periodic I_VERSION probe due on EVERY loop turn (11 s pass between two chunks; the gateway
    answers every probe, so the no-response disconnect never fires).  The probes are extra commands of the
    controller, counted and returned; everything else must be what any other segmentation gives."""
    import mysensors.gateway_tcp as G

    r = Run("sync", version, "end", tcp_gateway=True)
    r.setup(setup)
    sock = FakeSocket(stream, sizes)
    now = [1000.0]
    probes = [0]
    r.gw.tcp_check_timer = r.gw.tcp_disconnect_timer = now[0]
    # wired as the real gateway is: transport.protocol IS the line protocol, whose transport is the reader thread
    # (connection_made); what the gateway sends is what reaches the socket
    low = r.tr.protocol.transport
    r.tr.protocol = r.proto

    class _Time:
        @staticmethod
        def time():
            return now[0]

        @staticmethod
        def sleep(_s):
            pass

    def check_conn():
        now[0] += 11.0
        r.gw.tcp_disconnect_timer = now[0]          # the last probe was answered
        q0 = len(r.gw.tasks.queue)
        r.gw.check_connection()
        for _ in range(len(r.gw.tasks.queue) - q0):
            r.tags.append(("?",))
            probes[0] += 1
        r.drain()

    t = G.TCPTransport(sock, lambda: r.proto, check_conn)
    t.log = sock.sent                 # Run.pump looks at tr.log to see whether something was written
    sock.owner = t
    with mock.patch("mysensors.handler.time", _FakeTimeModule), \
            mock.patch.object(G.select, "select", lambda a, b, c, timeout=None: (a, b, [])), \
            mock.patch.object(G, "time", _Time):
        try:
            if stream:
                t.run()
            r.drain()
        except Exception as exc:
            r.exc = f"{type(exc).__name__}: {exc}"
    r.proto.transport = low           # connection_lost cleared it; result() reads the (empty) recorder
    out = r.result()
    out["log"] = [b.decode("utf-8", "surrogatepass") for b in sock.sent]
    out["probes"] = probes[0]
    out["probe_lines"] = [x for tag, x in r.emitted if tuple(tag) == ("?",)]   # what the probe jobs wrote
    out["chunks"] = [bytes(c) for c in sock.returned]
    return out
