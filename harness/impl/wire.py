"""C07 at the WIRE: the real Transport.send / BaseMySensorsProtocol between the pump and a recording low-level writer,
with the connection lost and made again in the middle of a smart-sleep history.  Observed: every byte string that
reaches a low-level writer, tagged with the phase it was written in.  Rule (C07): between the moment the connection
is back and the sleeping node's next wake-up line, nothing addressed to that node is written (commands released
while the link was down are gone; they must not surface when the node is asleep again)."""
import logging


class _Serial:
    def close(self):
        pass

    def __repr__(self):
        return "<fake link>"


class _Low:
    def __init__(self, wire, phase):
        self.wire, self.phase, self.serial = wire, phase, _Serial()

    def write(self, data):
        self.wire.append((self.phase[0], bytes(data).decode("utf-8", "surrogatepass")))

    def close(self):
        pass


VARIANTS = [(flav, ver, k, when, exc) for flav in ("sync", "async") for ver in ("2.0", "2.1", "2.2", "2.3.2")
            for k in (1, 3) for when in ("lost-before-pump", "lost-after-pump", "set-while-down", "request-while-down")
            for exc in (False, True)]


def run_variant(v):
    import mysensors
    from mysensors import transport as T
    flav, ver, k, when, exc = v
    logging.disable(logging.CRITICAL)
    wire, phase = [], ["setup"]
    if flav == "sync":
        tr = T.SyncTransport(None, lambda *a: None)
        gw = mysensors.BaseSyncGateway(tr, protocol_version=ver)
        proto = T.BaseMySensorsProtocol(gw, lambda: None)
    else:
        tr = T.AsyncTransport(None, lambda *a: None)
        gw = mysensors.BaseAsyncGateway(tr, protocol_version=ver)
        proto = T.AsyncMySensorsProtocol(gw, lambda: None)
    tr.gateway = gw
    tr.protocol = proto
    tr.can_log = False

    def pump():
        while flav == "sync" and gw.tasks.queue:
            tr.send(gw.tasks.run_job())

    def line(text):
        proto.data_received(text.encode() + b"\n")

    wake = "1;255;3;0;32;500" if ver >= "2.2" else "1;255;3;0;22;1000"
    proto.connection_made(_Low(wire, phase))
    for t in ("1;255;0;0;17;" + ver, "2;255;0;0;17;" + ver, "1;1;0;0;3;light", "1;2;0;0;3;light", "1;3;0;0;3;light",
              "2;1;0;0;3;light", "1;1;1;0;2;0", "1;2;1;0;2;0", "1;3;1;0;2;0", "2;1;1;0;2;0", wake):
        line(t)
        pump()
    assert gw.sensors[1].is_smart_sleep_node, "setup: node 1 is not a smart sleep node"
    phase[0] = "asleep"
    for c in range(1, k + 1):
        gw.set_child_value(1, c, 2, "1")
    pump()
    held = [w for w in wire if w[0] == "asleep" and w[1].startswith("1;")]
    err = OSError("link down (harness)") if exc else None
    if when == "lost-before-pump":
        if flav == "sync":
            line(wake)                      # read and queued ...
            phase[0] = "down"
            proto.connection_lost(err)      # ... the link goes down before the poll thread gets to it
            pump()
        else:
            phase[0] = "down"
            proto.connection_lost(err)
            gw.tasks.add_job(gw.logic, wake)   # (asyncio: a line still in flight is handled after the loss)
    elif when == "lost-after-pump":
        phase[0] = "window"
        line(wake)
        pump()
        phase[0] = "down"
        proto.connection_lost(err)
    elif when == "set-while-down":
        phase[0] = "down"
        proto.connection_lost(err)
        gw.set_child_value(1, 1, 2, "0")
        gw.set_child_value(2, 1, 2, "1")    # node 2 is awake: the command is lost with the link, not parked
        pump()
    else:
        phase[0] = "down"
        proto.connection_lost(err)
        gw.tasks.add_job(gw.logic, "1;2;2;0;2;")     # a request of the sleeping node, still in flight
        pump()
    phase[0] = "back"
    proto.connection_made(_Low(wire, phase))
    pump()
    line("2;1;1;0;2;1")                     # traffic of the other node
    line("2;255;3;0;6;0")
    pump()
    phase[0] = "next-window"
    line(wake)
    pump()
    return {"variant": list(v), "wire": wire, "held_while_asleep": held,
            "back": [w[1] for w in wire if w[0] == "back"],
            "window": [w[1] for w in wire if w[0] in ("window", "next-window")]}


def judge(o):
    bad = [w for w in o["back"] if w.split(";")[0] == "1"]
    out = []
    if o["held_while_asleep"]:
        out.append(("released-while-asleep", f"written to the sleeping node 1 outside a wake window: {o['held_while_asleep']}"))
    if bad:
        out.append(("released-at-reconnect", f"after the connection was back and before node 1 woke up again, commands "
                    f"for the sleeping node 1 reached the wire: {bad}"))
    return out
