"""The persistence file is a SYMBOLIC LINK to a file in another directory (configuration directory -> data volume).
One directory operation of a save (rename #1, rename #2, remove) fails (OSError) or the process dies there; then a
fresh gateway configured with the SAME (link) path loads.  C12/C15: the state loaded is the complete previous or the
complete new one, never nothing; the next save succeeds and the result loads.  No model here (the abstract file system
of Spec/AbstractFs.v has one directory and no links): monitors over the real code on the real file system."""
import logging
import os
import shutil
from unittest import mock

OPS = ("rename", "remove")


def _gw(path):
    import mysensors

    class Tr:
        can_log = False
        protocol = None

        def send(self, message):
            pass

        def connect(self):
            pass

        def disconnect(self):
            pass

    return mysensors.BaseSyncGateway(Tr(), persistence=True, persistence_file=path, protocol_version="2.2")


def _feed(gw, lines):
    for ln in lines:
        gw.logic(ln)


def _proj(gw):
    return sorted((n, s.sketch_name, sorted((c, sorted(ch.values.items())) for c, ch in s.children.items()))
                  for n, s in gw.sensors.items())


OLD = ["1;255;0;0;17;2.2", "1;255;3;0;11;old sketch", "1;1;0;0;3;light", "1;1;1;0;2;0"]
NEW = ["2;255;0;0;17;2.2", "1;1;1;0;2;1", "2;4;0;0;6;temp", "2;4;1;0;0;21.5"]
NEXT = ["3;255;0;0;17;2.1"]

VARIANTS = [(fmt, layout, op, nth, how) for fmt in ("json", "pickle") for layout in ("other-dir", "same-dir-other-name", "relative-link")
            for (op, nth) in (("rename", 1), ("rename", 2), ("remove", 1)) for how in ("fails", "dies")]


def run_variant(root, v):
    """-> dict(loaded=..., old=..., new=..., after_next=..., want_next=...)"""
    fmt, layout, op, nth, how = v
    logging.disable(logging.CRITICAL)
    shutil.rmtree(root, ignore_errors=True)
    conf, data = os.path.join(root, "conf"), os.path.join(root, "data")
    os.makedirs(conf)
    os.makedirs(data)
    link = os.path.join(conf, "net." + fmt)
    if layout == "other-dir":
        os.symlink(os.path.join(data, "real." + fmt), link)
    elif layout == "same-dir-other-name":
        os.symlink(os.path.join(conf, "real." + fmt), link)
    else:
        os.symlink(os.path.join("..", "data", "real." + fmt), link)
    gw = _gw(link)
    _feed(gw, OLD)
    gw.tasks.persistence.save_sensors()              # the previous complete save
    old = _proj(gw)
    check = _gw(link)
    check.tasks.persistence.safe_load_sensors()
    if _proj(check) != old:
        return {"setup": "the first save through the link does not load back"}
    _feed(gw, NEW)
    new = _proj(gw)
    real = getattr(os, op)
    count = [0]

    class Died(BaseException):
        pass

    def faulty(*a, **k):
        count[0] += 1
        if count[0] == nth:
            if how == "dies":
                raise Died()
            raise OSError(5, "Input/output error (harness)")
        return real(*a, **k)

    raised = None
    with mock.patch.object(os, op, faulty):
        try:
            gw.tasks.persistence.save_sensors()
        except Died:
            raised = "died"
        except OSError as exc:
            raised = type(exc).__name__
    reached = count[0] >= nth
    g2 = _gw(link)
    g2.tasks.persistence.safe_load_sensors()
    loaded = _proj(g2)
    # the process that loaded goes on: something changes, the next save succeeds, a third process loads it
    _feed(g2, NEXT)
    want = _proj(g2)
    err = None
    try:
        g2.tasks.persistence.save_sensors()
    except Exception as exc:
        err = f"{type(exc).__name__}: {exc}"
    g3 = _gw(link)
    g3.tasks.persistence.safe_load_sensors()
    return {"reached": reached, "raised": raised, "loaded": loaded, "old": old, "new": new, "next_save_error": err,
            "after_next": _proj(g3), "want_next": want,
            "need_save_after_failure": gw.tasks.persistence.need_save if raised == "OSError" else None}


def judge(o):
    if "setup" in o:
        return [("setup", o["setup"])]
    out = []
    if o["loaded"] not in (o["old"], o["new"]):
        out.append(("loads-neither-old-nor-new",
                    f"after the interrupted save a fresh gateway loaded {o['loaded']} - neither the previous state {o['old']} "
                    f"nor the new one"))
    if o["next_save_error"]:
        out.append(("next-save-fails", f"the next save raised {o['next_save_error']}"))
    elif o["after_next"] != o["want_next"]:
        out.append(("next-save-not-loadable", f"the state saved next ({o['want_next']}) is not what a fresh gateway loads "
                    f"({o['after_next']})"))
    if o["need_save_after_failure"] is False:
        out.append(("failed-save-marked-saved", "the save failed with OSError and the state is marked saved"))
    return out


def run_all(res, pid, which=None):
    """Run the family for property `pid` (C12: both causes; C15: the failing operation only)."""
    from harness import core
    root = str(core.BUILD / "scratch" / ("link-%d" % os.getpid()))
    n = 0
    try:
        for v in VARIANTS:
            if which is not None and v[4] not in which:
                continue
            res.evaluations += 1
            n += 1
            case = {"kind": "linked-file", "variant": list(v)}
            try:
                o = run_variant(os.path.join(root, "v"), v)
            except Exception as exc:
                res.violate("linked-file/harness", f"{v}: {type(exc).__name__}: {exc}", case, kind="harness", found_input=False)
                continue
            for key, what in judge(o):
                res.violate("linked-file/" + key, f"persistence file is a symbolic link ({v[1]}), {v[0]}, {v[2]} #{v[3]} {v[4]}: {what}", case)
            if not judge(o) and o.get("reached"):
                res.nontriv(("linked-file",) + tuple(v))
    finally:
        shutil.rmtree(root, ignore_errors=True)
    res.count("linked-file-variants", n)


def replay(case):
    from harness import core
    root = str(core.BUILD / "scratch" / ("link-%d" % os.getpid()))
    try:
        o = run_variant(os.path.join(root, "v"), tuple(case["variant"]))
    finally:
        shutil.rmtree(root, ignore_errors=True)
    j = judge(o)
    return {"case": case, "observed": o, "judgement": j, "violates": bool(j)}
