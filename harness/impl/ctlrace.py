"""C01 with two threads: a controller call (set_child_value / update_fw, application thread) runs while the poll thread
handles an inbound line.  Every interleaving of the two at source-line granularity (harness.impl.sched, preemption
bound) on the REAL gateway: "no controller call that returned normally can make message processing raise".

Each scenario = (version, history that builds the state, the controller call, the inbound line).  The two racing
pieces are exactly what the threads of a threaded gateway run: `gateway.set_child_value(...)` resp.
`tasks.run_job(); transport.send(reply)` for the queued line (and then the jobs it queued).
"""
import logging

from harness.impl import sched

SCENARIOS = [
    # (name, version, set-up lines, controller call, racing inbound line)
    ("desired-new-type-vs-wake-up", "2.2",
     ["1;255;0;0;17;2.2", "1;1;0;0;3;", "1;2;0;0;3;", "1;1;1;0;2;0", "1;1;1;0;3;10", "1;255;3;0;32;500",
      ("setchild", 1, 1, 2, "1"), ("setchild", 1, 1, 3, "50")],
     ("setchild", 1, 1, 16, "1"), "1;255;3;0;32;500"),      # a value type the node never reported: a new table entry
    ("desired-known-type-vs-wake-up", "2.1",
     ["1;255;0;0;17;2.1", "1;1;0;0;3;", "1;1;1;0;2;0", "1;255;3;0;22;7", ("setchild", 1, 1, 2, "1")],
     ("setchild", 1, 1, 2, "0"), "1;255;3;0;22;8"),
    ("desired-vs-report-of-that-value", "2.0",
     ["1;255;0;0;17;2.0", "1;1;0;0;3;", "1;1;1;0;2;0", "1;255;3;0;22;7"],
     ("setchild", 1, 1, 2, "1"), "1;1;1;0;2;1"),
    ("set-vs-child-presentation", "1.5",
     ["1;255;0;0;17;1.5", "1;1;0;0;3;", "1;1;1;0;2;0"],
     ("setchild", 1, 1, 2, "1"), "1;2;0;0;6;late child"),
    ("set-vs-value-request", "2.2",
     ["1;255;0;0;17;2.2", "1;1;0;0;3;", "1;1;1;0;2;0", "1;255;3;0;32;500"],
     ("setchild", 1, 1, 2, "1"), "1;1;2;0;2;"),
    ("set-unknown-node-vs-its-presentation", "2.2",
     ["2;255;0;0;17;2.2"],
     ("setchild", 1, 1, 2, "1"), "1;255;0;0;17;2.2"),
    ("set-on-newer-node-vs-line-of-a-newer-version", "2.1",      # the node's tables (2.2) differ from the gateway's (2.1)
     ["1;255;0;0;17;2.3.2", "1;1;0;0;3;", "1;1;1;0;2;0", "1;255;3;0;22;7", ("setchild", 1, 1, 2, "1")],
     ("setchild", 1, 1, 2, "0"), "1;255;3;0;32;500"),            # pre-sleep notification: not defined in 2.1
    ("update-fw-vs-config-request", "2.0",
     ["1;255;0;0;17;2.0", ("updatefw", 1, 1, 1, 40)],
     ("updatefw", 1, 1, 2, 64), "1;255;4;0;0;010001000300cdab0201"),
    ("update-fw-vs-block-request", "1.4",
     ["1;255;0;0;17;1.4", ("updatefw", 1, 1, 1, 40), "1;255;4;0;0;010001000300cdab0201"],
     ("updatefw", 1, 2, 2, 64), "1;255;4;0;2;010001000000"),
]


class _Transport:
    can_log = False
    protocol = None

    def __init__(self):
        self.sent = []

    def send(self, message):
        if message:
            self.sent.append(message)

    def connect(self):
        pass

    def disconnect(self):
        pass


def _apply(gw, step):
    from mysensors.ota import prepare_fw  # noqa: F401  (imported for its side effects on coverage only)
    if isinstance(step, str):
        gw.tasks.add_job(gw.logic, step)
        while gw.tasks.queue:
            gw.tasks.transport.send(gw.tasks.run_job())
    elif step[0] == "setchild":
        gw.set_child_value(*step[1:])
    else:
        _, nid, t, v, size = step
        gw.tasks.ota.make_update([nid], t, v, bytes((i * 7 + 1) & 255 for i in range(size)))


def make(sc):
    import mysensors
    name, ver, setup, call, line = sc

    def build():
        logging.disable(logging.CRITICAL)
        gw = mysensors.BaseSyncGateway(_Transport(), protocol_version=ver)
        for st in setup:
            _apply(gw, st)
        gw.tasks.add_job(gw.logic, line)        # the reader thread queued the line
        out = {}

        def controller():
            try:
                _apply(gw, call)
                out["call"] = None
            except BaseException as exc:        # a refused call did not "return normally": not judged
                out["call"] = exc

        def pump():
            try:
                for _ in range(8):              # the line, then the jobs it queued
                    if not gw.tasks.queue:
                        break
                    gw.tasks.transport.send(gw.tasks.run_job())
            except BaseException as exc:
                out["pump"] = exc

        def observe():
            return {"call": None if out.get("call") is None else type(out["call"]).__name__,
                    "pump": None if out.get("pump") is None else repr(out["pump"]),
                    "sent": list(gw.tasks.transport.sent)}

        return [controller, pump], observe
    return build


def files(sc=None):
    """Source files whose lines are yield points: the handlers, gateway, sensor, OTA and task code - plus the
    version-table lookup and the validator for the scenario that is about them (more lines, more schedules)."""
    import mysensors
    from mysensors import const, handler, message, ota, sensor, task
    mods = [mysensors, handler, sensor, ota, task]
    if sc is not None and sc[0] == "set-on-newer-node-vs-line-of-a-newer-version":
        mods += [const, message]
    return [m.__file__ for m in mods]


def warm_up():
    """Module-level caches (imported constant modules) are filled before any exploration, so that every run of a
    scenario executes the same lines (the explorer replays prefixes of earlier runs)."""
    from mysensors.const import get_const
    for v in ("1.4", "1.5", "2.0", "2.1", "2.2"):
        get_const(v)


def explore(sc, bound, limit=None):
    """All schedules of scenario sc up to `bound` preemptions. Yields (choices, trace, observation)."""
    warm_up()
    return sched.explore(make(sc), files(sc), bound, limit=limit)


def replay(sc, choices):
    warm_up()
    return sched.run_one(make(sc), files(sc), choices)
