"""Common machinery of the /verif checks: regenerate, build, run model, verdict, evidence."""
import fcntl
import hashlib
import json
import os
import random
import re
import shutil
import subprocess
import sys
import time
from pathlib import Path

VERIF = Path(__file__).resolve().parent.parent
REPO = Path(os.environ.get("VERIF_REPO", "/repo"))
# VERIF_WORKROOT (tools_seed.sh only): an isolated copy of coq/ and _build/ so that several trees
# (VERIF_REPO=...) can be checked concurrently without touching /verif's own build or evidence.
WORKROOT = Path(os.environ.get("VERIF_WORKROOT", str(VERIF)))
BUILD = WORKROOT / "_build"
COQ = WORKROOT / "coq"
GEN = COQ / "theories" / "Gen"
EVID = WORKROOT / "evidence"
REPLAY = EVID / "replay"
GUARD = "PYMYSENSORS_VERIF"

FORBIDDEN = re.compile(
    r"\b(Admitted|admit|Axiom|Axioms|Parameter|Parameters|Conjecture|Conjectures|"
    r"Admit Obligations|Unset Guard Checking|bypass_check|Unset Positivity Checking|"
    r"Unset Universe Checking|native_compute|type-in-type|impredicative-set)\b"
)

TRUSTED_BASE = [
    "Coq 8.16.1 kernel, full .vo builds (no -vos), vm_compute for finite side conditions; no native_compute",
    "no Axiom/Parameter/Admitted in the development (grep gate on every run); Print Assumptions parsed per theorem",
    "translators harness/translate/*.py (fail-closed) render live Python objects/ASTs of /repo into coq/theories/Gen/*.v",
    "extraction: ExtrOcamlBasic only (bool/option/unit/list/prod/sumbool/sumor to OCaml natives, andb/orb inlined); N, Z, positive, nat, uint stay extracted inductives; ocamlfind ocamlopt 4.13.1; coq/ocaml/driver.ml byte pump",
    "correspondence harness (harness/*.py): generators, fakes, canonicaliser; generator quality bounds the tie",
]


def log(*a):
    print(*a, file=sys.stderr, flush=True)


class Lock:
    def __init__(self, name="lock"):
        BUILD.mkdir(exist_ok=True)
        self.path = BUILD / name

    def __enter__(self):
        self.f = open(self.path, "w")
        fcntl.flock(self.f, fcntl.LOCK_EX)
        return self

    def __exit__(self, *a):
        fcntl.flock(self.f, fcntl.LOCK_UN)
        self.f.close()


def write_if_changed(path, text):
    path = Path(path)
    if path.exists() and path.read_text() == text:
        return False
    path.parent.mkdir(parents=True, exist_ok=True)
    tmp = path.with_suffix(path.suffix + ".tmp%d" % os.getpid())
    tmp.write_text(text)
    os.replace(tmp, path)
    return True


# ---------------------------------------------------------------- regenerate

def regenerate(names):
    """Run the translators named in `names`; returns dict name -> error string or None."""
    from harness import translate  # noqa

    errors = {}
    for name in names:
        mod = __import__(f"harness.translate.{name}", fromlist=["generate", "TARGET"])
        target = GEN / mod.TARGET
        try:
            text = mod.generate()
        except Exception as exc:  # fail closed
            errors[name] = f"{type(exc).__name__}: {exc}"
            for stale in (target, target.with_suffix(".vo"), target.with_suffix(".glob")):
                if stale.exists():
                    stale.unlink()
            continue
        write_if_changed(target, text)
        errors[name] = None
    return errors


# ---------------------------------------------------------------- build

def grep_gate():
    hits = []
    for p in sorted((COQ / "theories").rglob("*.v")):
        for i, line in enumerate(p.read_text().splitlines(), 1):
            code = re.sub(r"\(\*.*?\*\)", "", line)
            if FORBIDDEN.search(code):
                hits.append(f"{p.relative_to(VERIF)}:{i}: {line.strip()}")
    return hits


def coq_build(targets, timeout=1500):
    """make the given .vo targets; returns (ok, log_text, wall)."""
    t0 = time.time()
    env = dict(os.environ, MK_TIMEOUT=str(timeout))
    proc = subprocess.run(
        [str(COQ / "mk.sh")] + list(targets),
        cwd=COQ, env=env, stdout=subprocess.PIPE, stderr=subprocess.STDOUT, text=True,
    )
    return proc.returncode == 0, proc.stdout, time.time() - t0


def parse_props(prop_file):
    """Names of Theorems in a Props file."""
    text = (COQ / "theories" / "Props" / prop_file).read_text()
    return re.findall(r"^\s*Theorem\s+([A-Za-z0-9_']+)", text, re.M)


def print_assumptions(prop_vfile):
    """Re-run coqc on the Props file (cheap) and parse its Print Assumptions output.

    Returns (ok, {theorem: [axioms]}) in source order of the Print Assumptions commands."""
    path = COQ / "theories" / "Props" / prop_vfile
    text = path.read_text()
    names = re.findall(r"^\s*Print Assumptions\s+([A-Za-z0-9_']+)\s*\.", text, re.M)
    proc = subprocess.run(
        ["timeout", "600", "coqc", "-Q", "theories", "PMS", "-w", "none", str(path)],
        cwd=COQ, stdout=subprocess.PIPE, stderr=subprocess.STDOUT, text=True,
    )
    out = proc.stdout
    blocks = re.split(r"(?=^Closed under the global context|^Axioms:)", out, flags=re.M)
    blocks = [b for b in blocks if b.startswith("Closed under") or b.startswith("Axioms:")]
    res = {}
    for n, b in zip(names, blocks):
        if b.startswith("Closed"):
            res[n] = []
        else:
            res[n] = re.findall(r"^([A-Za-z0-9_.']+)\s*:", b, re.M)
    return proc.returncode == 0 and len(blocks) == len(names), res, out


ALLOWED_AXIOMS = set()  # none needed so far; std-lib axioms would be named here and in DESIGN.md §7


def build_runner(tag=""):
    """Extract Model/Shell<tag>.v (via Extract/Extract<tag>.v) and build _build/model_run<tag>
    when stale. Returns (ok, log)."""
    ex = BUILD / ("extract" + tag)
    ex.mkdir(parents=True, exist_ok=True)
    shell_vo = COQ / "theories" / "Model" / f"Shell{tag}.vo"
    runner = BUILD / ("model_run" + tag)
    if not shell_vo.exists():
        return False, f"Model/Shell{tag}.vo missing"
    stamp = ex / "stamp"
    key = hashlib.sha256(shell_vo.read_bytes() + (COQ / "ocaml" / "driver.ml").read_bytes()).hexdigest()
    if runner.exists() and stamp.exists() and stamp.read_text() == key:
        return True, "runner up to date"
    proc = subprocess.run(
        ["timeout", "600", "coqc", "-Q", str(COQ / "theories"), "PMS", "-w", "none",
         str(COQ / "theories" / "Extract" / f"Extract{tag}.v")],
        cwd=ex, stdout=subprocess.PIPE, stderr=subprocess.STDOUT, text=True,
    )
    if proc.returncode != 0:
        return False, proc.stdout
    shutil.copy(COQ / "ocaml" / "driver.ml", ex / "driver.ml")
    tmp = BUILD / ("model_run%s.tmp%d" % (tag, os.getpid()))
    proc2 = subprocess.run(
        ["timeout", "600", "ocamlfind", "ocamlopt", "-w", "-a", "-unsafe", "-inline", "100",
         "model.mli", "model.ml", "driver.ml", "-o", str(tmp)],
        cwd=ex, stdout=subprocess.PIPE, stderr=subprocess.STDOUT, text=True,
    )
    if proc2.returncode != 0:
        return False, proc2.stdout
    os.replace(tmp, runner)
    stamp.write_text(key)
    return True, proc.stdout + proc2.stdout


# ---------------------------------------------------------------- model runner

def enc_str(s):
    """Python str -> model string token."""
    return "s" + ",".join(str(ord(c)) for c in s)


def enc_cps(cps):
    return "s" + ",".join(str(c) for c in cps)


def dec_str(tok):
    assert tok.startswith("s"), tok
    if tok == "s":
        return ""
    return "".join(chr(int(x)) for x in tok[1:].split(","))


def dec_cps(tok):
    assert tok.startswith("s"), tok
    if tok == "s":
        return []
    return [int(x) for x in tok[1:].split(",")]


class Model:
    """A model_run process. batch(lines) -> list of output lines (one per input)."""

    def __init__(self, tag=""):
        self.tag = tag
        self.path = BUILD / ("model_run" + tag)

    def batch(self, lines, timeout=3600):
        if not lines:
            return []
        data = "\n".join(lines) + "\n"
        proc = subprocess.run(
            ["/bin/sh", "-c", f"ulimit -s unlimited 2>/dev/null; exec {self.path}"],
            input=data, stdout=subprocess.PIPE, stderr=subprocess.PIPE, text=True, timeout=timeout,
        )
        out = proc.stdout.split("\n")
        if out and out[-1] == "":
            out.pop()
        if proc.returncode != 0 or len(out) != len(lines):
            raise RuntimeError(
                f"model_run failed rc={proc.returncode} got {len(out)} of {len(lines)} lines: {proc.stderr[-400:]}"
            )
        return out

    def sessions(self, sessions, jobs=None):
        """Run many independent sessions (each a list of lines; every session starts
        from a fresh state) in parallel processes. Returns list of list of outputs."""
        from concurrent.futures import ThreadPoolExecutor

        jobs = jobs or min(16, max(1, len(sessions)))
        chunks = [[] for _ in range(jobs)]
        for i, s in enumerate(sessions):
            chunks[i % jobs].append((i, s))

        def work(chunk):
            lines = []
            for _, s in chunk:
                lines.append("reset")
                lines.extend(s)
            outs = self.batch(lines)
            res = []
            k = 0
            for i, s in chunk:
                k += 1
                res.append((i, outs[k:k + len(s)]))
                k += len(s)
            return res

        result = [None] * len(sessions)
        with ThreadPoolExecutor(jobs) as ex:
            for part in ex.map(work, [c for c in chunks if c]):
                for i, o in part:
                    result[i] = o
        return result


def coq_crosscheck(inputs_sessions, outputs_sessions, tag, shell=""):
    """Evaluate the same sessions inside Coq with vm_compute and compare with the extracted
    runner's outputs. Returns (n_checked, ok, log)."""
    d = BUILD / "xcheck"
    d.mkdir(parents=True, exist_ok=True)

    def lit(s):
        return "[" + ";".join(str(b) for b in s.encode("ascii")) + "]"

    parts = [
        ("From Coq Require Import List NArith.\nFrom PMS Require Import Model.Shell%s.\n" % shell)
        + "Import ListNotations.\nOpen Scope N_scope.\n"
    ]
    n = 0
    for k, (ins, outs) in enumerate(zip(inputs_sessions, outputs_sessions)):
        parts.append(
            f"Goal shell_run shell_init [{';'.join(lit(x) for x in ins)}] = [{';'.join(lit(x) for x in outs)}].\n"
            "Proof. vm_compute. reflexivity. Qed.\n"
        )
        n += len(ins)
    f = d / f"xcheck_{tag}_{os.getpid()}.v"
    f.write_text("".join(parts))
    proc = subprocess.run(
        ["/bin/sh", "-c",
         f"ulimit -s unlimited 2>/dev/null; exec timeout 900 coqc -Q {COQ}/theories PMS -w none {f}"],
        cwd=d, stdout=subprocess.PIPE, stderr=subprocess.STDOUT, text=True,
    )
    for p in d.glob(f.stem + "*"):
        p.unlink()
    for p in d.glob("." + f.stem + "*"):
        p.unlink()
    return n, proc.returncode == 0, proc.stdout[-2000:]


# ---------------------------------------------------------------- findings / verdict

def load_findings():
    p = VERIF / "known_findings.json"
    if not p.exists():
        return []
    return json.loads(p.read_text())["findings"]


class Violation:
    def __init__(self, key, what, case, kind="monitor", found_input=True):
        self.key = key          # structural fingerprint used to match known findings
        self.what = what        # one line
        self.case = case        # json-able replay content
        self.kind = kind        # monitor | correspondence | proof | translator
        self.found_input = found_input


class Result:
    """Accumulates what one check run did."""

    def __init__(self, prop_id):
        self.prop_id = prop_id
        self.violations = []
        self.evaluations = 0
        self.nontrivial = set()
        self.samples = []
        self.dist = {}
        self.extra = {}
        self.assumptions = []
        self.rule = ""
        self.exhaustive = None

    def count(self, key, n=1):
        self.dist[key] = self.dist.get(key, 0) + n

    def sample(self, s, cap=6):
        if len(self.samples) < cap:
            self.samples.append(s)

    def nontriv(self, fingerprint):
        self.nontrivial.add(fingerprint if isinstance(fingerprint, (str, int, tuple)) else json.dumps(fingerprint, sort_keys=True))

    def violate(self, *a, **k):
        self.violations.append(Violation(*a, **k))


def case_hash(obj):
    return hashlib.sha256(json.dumps(obj, sort_keys=True, default=str).encode()).hexdigest()[:12]


def rng_for(seed, *tags):
    h = hashlib.sha256(("%s|" % seed + "|".join(map(str, tags))).encode()).digest()
    return random.Random(int.from_bytes(h[:8], "big"))


class _Sink(__import__("logging").Handler):
    """Formats every record (so that a broken log call fails where it is made) and throws it away."""

    def emit(self, record):
        record.getMessage()


def debug_logging(on):
    """The library under DEBUG logging (every log statement is evaluated and formatted) or silenced."""
    import logging
    lg = logging.getLogger("mysensors")
    if on:
        logging.disable(logging.NOTSET)
        logging.raiseExceptions = True
        if not any(isinstance(h, _Sink) for h in lg.handlers):
            lg.addHandler(_Sink())
        lg.setLevel(logging.DEBUG)
        lg.propagate = False
    else:
        lg.setLevel(logging.WARNING)
        logging.disable(logging.CRITICAL)
