"""C14 - a clean stop loses nothing."""
import shutil

from harness import gwcheck
from harness.gen import scenarios_a

ID = "C14"
PROP_FILE = "C14.v"
SOFT_PINS = "core"
TRANSLATORS = ["unicode_tables", "tables"]
RULE = ("40% grammar-generated histories with periodic save ticks / stop+start cycles at random positions and a final stop+start, "
        "60% directed ones that end (1-3 times per history) with: save tick, ONE state-changing message of a chosen handler "
        "kind (node presentation, child presentation, set, battery, sketch name, sketch version, heartbeat, id request; "
        "kinds cycled), stop+start - so that the tick has cleared the dirty flag and only that handler can set it again; "
        "in 35% of these endings the message is instead handled WHILE the periodic save is in progress (op save_during: "
        "os.rename of the real save_sensors is intercepted after the nodes were serialised and the message is pumped there; "
        "the model runs the linearisation save tick, then message); "
        "10% (>= 2.0) end with a smart sleeping node confirming exactly the desired value right after a save tick; 12% (2.2) "
        "with a periodic save that FAILS in the pickle serialiser because the node's wake-up announcement is handled while its "
        "desired-state table is pickled (op save_fail_during; model = the announcement alone, state still unsaved); "
        "5 versions x threaded/asyncio x plain/MQTT x JSON/pickle, 30% of the directed ones without event callback. "
        "The monitor compares a typed snapshot of the tree held at stop() with the tree the next start loads. "
        "non-trivial = distinct history with at least one stop whose state had a node and that had a save tick before it")
RULE += ' MONITORS ONLY: harness/impl/slowsave.py - a scheduled save still being written in its own thread (paused after serialising / in fsync / before the first rename) when messages are handled and stop() is called: after stop() and the end of that thread a fresh gateway loads what the gateway held (real threads, both flavours and formats, 24 variants).'
ASSUMPTIONS = ["a clean stop and restart = stop(), a new gateway object with the same configuration, start_persistence() "
               "(threading.Timer replaced by an inert fake; asyncio flavour: load + one save inline)",
               "a periodic save tick = one call of Persistence.save_sensors (what the timer / the asyncio task calls)",
               "the file system behaves (no faults here: C12/C13)"]
THEOREMS_DOC = {
    'C14_tree_change_marks_dirty': 'with persistence a dispatcher call that changes the persisted tree leaves the state marked unsaved',
    'C14_logic_dirty_exact': 'the flag after a dispatcher call: set iff accepted and alerting (and persistence), else unchanged',
    'C14_logic_never_clears': 'the dispatcher never clears the flag',
    'C14_controller_ops_frame': 'controller calls change neither the persisted tree nor the flag',
    'C14_send_job_frame': 'pumping a queued send job changes neither the persisted tree nor the flag',
    'C14_proj_load_tree': 'loading a persisted tree and projecting it again is the identity',
    'C14_clean_implies_synced': 'invariant over all histories with saves and restarts: flag clear implies the file holds exactly the current tree',
    'C14_stop_loses_nothing': 'after stop and the next start the gateway and the file hold exactly the tree held at the stop',
    'C14_dirty_flag_is_write_only': 'gateways equal but for the flag stay so under every operation (simulation through all handlers)',
    'C14_save_tick_positions_irrelevant': 'histories differing only in the placement of periodic saves end, after stop/restart, in the identical gateway and file',
    'C14_save_tick_positions_tree': '... in particular in the same tree and file'}
SCOPE = ["tree", "dirty"]
MONITORS = ["c14"]


def build_cases(ctx):
    n = ctx.budget(300, 6000)
    ng = (n * 2) // 5
    cases = scenarios_a.generic_cases(ctx, "c14", ng, mqtt_rate=0.15)
    for i, c in enumerate(cases):
        c["ops"] = scenarios_a.sprinkle_persistence(ctx.rng("c14s", i), c["ops"], 0.08, 0.03) + [("restart",)]
    for i in range(n - ng):
        rng = ctx.rng("c14d", i)
        cfg = gwcheck.make_cfg(rng)
        cfg["callback"] = rng.random() < 0.7
        cfg["persist"] = True
        kind = scenarios_a.TAIL_KINDS[i % len(scenarios_a.TAIL_KINDS)]
        case = {"id": f"c14d-{ctx.seed}-{ctx.scale}-{i}", "cfg": cfg}
        if i % 12 == 5:                       # failed save in the pickle serialiser (needs 2.2 and pickle)
            cfg["ver"] = "2.2"
            cfg.pop("spell", None)
            case["_fmt"] = "pickle"
            case["ops"] = scenarios_a.c14_failed_save(scenarios_a.Hist(rng, cfg))
        elif i % 12 == 7:                     # confirmation of the desired value right after a save tick
            cfg["ver"] = rng.choice(["2.0", "2.1", "2.2"])
            cfg.pop("spell", None)
            case["ops"] = scenarios_a.c14_confirm_desired(scenarios_a.Hist(rng, cfg))
        else:
            case["ops"] = scenarios_a.c14_directed(rng, cfg, kind)
        cases.append(case)
    return cases


def run(ctx, res):
    cases = build_cases(ctx)
    root = scenarios_a.assign_persist(cases, "c14", lambda i, c: c.pop("_fmt", None) or ["json", "pickle"][(i // 3) % 2])
    from harness.impl import slowsave
    slowsave.run_all(res, ID, thorough=(ctx.tier == "thorough"))       # a scheduled save still being written (own thread) when stop() is called: real threads
    try:
        recs = gwcheck.run_cases(ctx, res, cases, MONITORS, SCOPE, "c14")
    finally:
        shutil.rmtree(root, ignore_errors=True)
    stops = tails = 0
    for r in recs:
        st = r["stats"]
        if st.get("c14:stop:nonempty-state-after-save-tick", 0) >= 1:
            res.nontriv(r["case"]["id"])
        stops += st.get("c14:stop:json", 0) + st.get("c14:stop:pickle", 0)
        tails += sum(v for k, v in st.items() if k.startswith("c14:stop:only-change-since-save-tick/"))
    res.extra["stops"] = stops
    res.extra["stops_whose_only_change_since_the_last_save_tick_is_one_handler"] = tails
    res.extra["share_of_such_stops"] = round(tails / max(stops, 1), 3)
    res.extra["ops_handled_while_a_periodic_save_was_in_progress"] = sum(
        1 for r in recs for o in r["case"]["ops"] if tuple(o)[0] == "save_during")
    for r in recs[:2] + recs[-2:]:
        res.sample({"cfg": r["case"]["cfg"], "ops": r["case"]["ops"][:8], "n_ops": len(r["case"]["ops"])})


def replay(ctx, case):
    c0 = case["case"] if "case" in case else case
    if c0.get("kind") == "slow-save":
        from harness.impl import slowsave
        return slowsave.replay(c0, ID)
    c, root = scenarios_a.relocated(case["case"] if "case" in case else case, "c14")
    try:
        return gwcheck.replay_case(ctx, c)
    finally:
        shutil.rmtree(root, ignore_errors=True)
