"""C18 - documented configuration is accepted and honoured.

Tie between Model/Config*.v (interpreted over Gen/Signatures.v) and the real
constructors / version helpers of the repo, plus monitors that evaluate the
property directly on the implementation.
"""
import itertools
import re
from concurrent.futures import ThreadPoolExecutor

from harness import core
from harness.core import enc_str, dec_str

ID = "C18"
PROP_FILE = "C18.v"
RUNNER = "Config"
TRANSLATORS = ["signatures"]
RULE = ("constructor cases = 6 classes x required arguments positional/by keyword x every vector "
        "absent/first/second representative value over the 7 documented keyword options (3^7, exhaustive) "
        "+ a random stream (wider value pools, undocumented keywords, extra/missing/duplicated arguments); "
        "non-trivial = at least one option given and distinct (class, style, arguments). "
        "version cases = major 0..3 x minor 0..12 x patch absent/0..3 (exhaustive) + spellings like 2, 2.00, 02.0, "
        "4-section, huge sections, non-numeric strings, floats, ints, bools, None (+ random dotted strings); "
        "non-trivial = distinct value whose str() is not the literal default '1.4'")
RULE += ' The effect probe also builds the gateway with persistence_file as a pathlib.Path: it loads and saves like the string.'
ASSUMPTIONS = [
    "awesomeversion 24.6.0 compares two strings of the form [0-9]+(.[0-9]+)* as modelled from its source "
    "(identical strings neither < nor >, otherwise compare_base_sections with missing sections = 0) and never "
    "classifies one as SpecialContainer; every other input is an oracle (comparison verdicts, and whether the "
    "strategy is SpecialContainer): the harness feeds the library's real answers, the theorems quantify over them",
    "the int() of a version section is unbounded in the model (CPython refuses more than 4300 digits)",
    "constructor arguments are opaque to the constructors except persistence (truth value) and protocol_version; "
    "calls the model does not interpret (OTAFirmware, threading.Lock, LineReader protocols, handler registration) "
    "do not change the observed attributes",
    "the theorem about constructors covers two representative values per option; other values only by the tie",
]
TRUSTED = [
    "harness/translate/signatures.py: inspect.signature + AST summaries of 22 __init__ bodies, get_const/is_version/"
    "safe_is_version/is_sensor/Sensor.protocol_version shapes, README/example calls -> Gen/Signatures.v",
    "Spec/ConfigSpec.v: documented options per class, where each acts, supported versions (hand-written from README.md)",
]
THEOREMS_DOC = {
    "C18_documented_options_accepted": "6 classes x 2 call styles x 3^7 option vectors: construction returns and every given option is visible where it acts (vm over generated signatures + completeness of the enumeration)",
    "C18_numeric_order": "numeric comparison of section lists (zero padded) is a total preorder; 2 = 2.0 = 2.0.0",
    "C18_awesomeversion_numeric": "the modelled awesomeversion < and > on dotted numeric strings are that numeric comparison",
    "C18_floor_rule": "Spec floor function = greatest supported version <=num v, else the 1.4 constants",
    "C18_version_floor": "forall dotted numeric strings: get_const = floor; safe_is_version keeps v iff v >=num 1.4; is_sensor's >= 2.0 test = a 2.x table is selected; a node gets the same table",
    "C18_node_same_rule": "forall values and oracles: node_const = gateway_const",
    "C18_nonnumeric_fallback": "str() not dotted numeric and (container word | library cannot compare | older than 1.4) -> version 1.4 and 1.4 constants (gateway and node); otherwise kept as written",
    "C18_nonnumeric_fallback_unfixed_refuted": "history (finding version/container-word, fixed by b5ee08d): without the container test and with awesomeversion's verdict on 'dev' the digit-free string was kept and selected the 2.2 constants; with the test it gives 1.4",
    "C18_alert_effect": "Gateway.alert (facts from its AST): callback invoked iff configured; with persistence on every alert marks the network changed, with or without a callback",
    "C18_generated_matches_spec": "generated CONST_VERSIONS/defaults = Spec's supported list; documented examples use documented keywords only",
    "C18_core_machine_version_agrees": "on dotted numeric strings the hand-written version verdicts of the core machine (Base/Version.v: ver_ge14, safe_num, const_index) equal is_version / safe_is_version / get_const of this model over the GENERATED tests, key order and module table; num_ge = the spec order le_numb",
}

# ------------------------------------------------------------------ the documented interface (mirror of Spec/ConfigSpec.v)

CLASSES = [
    ("SerialGateway", "mysensors.gateway_serial", "serial"),
    ("AsyncSerialGateway", "mysensors.gateway_serial", "serial"),
    ("TCPGateway", "mysensors.gateway_tcp", "tcp"),
    ("AsyncTCPGateway", "mysensors.gateway_tcp", "tcp"),
    ("MQTTGateway", "mysensors.gateway_mqtt", "mqtt"),
    ("AsyncMQTTGateway", "mysensors.gateway_mqtt", "mqtt"),
]
COMMON = ["event_callback", "persistence", "persistence_file", "protocol_version"]
DOCUMENTED = {
    "serial": COMMON + ["baud", "timeout", "reconnect_timeout"],
    "tcp": COMMON + ["port", "timeout", "reconnect_timeout"],
    "mqtt": COMMON + ["in_prefix", "out_prefix", "retain"],
}
SUPPORTED = [((1, 4), "mysensors.const_14"), ((1, 5), "mysensors.const_15"), ((2, 0), "mysensors.const_20"),
             ((2, 1), "mysensors.const_21"), ((2, 2), "mysensors.const_22")]
SUPPORTED_STR = {"1.4": (1, 4), "1.5": (1, 5), "2.0": (2, 0), "2.1": (2, 1), "2.2": (2, 2)}


class Stub:
    """Opaque callable standing for a user callback."""
    pool = {}

    def __init__(self, tag):
        self.tag = tag
        self.calls = []

    def __call__(self, *a, **k):
        self.calls.append((a, k))

    def __repr__(self):
        return f"<Stub {self.tag}>"


def stub(tag):
    if tag not in Stub.pool:
        Stub.pool[tag] = Stub(tag)
    return Stub.pool[tag]


REQUIRED_TOK = {
    "serial": [("port", "S" + enc_str("/dev/ttyACM0"))],
    "tcp": [("host", "S" + enc_str("127.0.0.1"))],
    "mqtt": [("pub_callback", "O" + enc_str("pub")), ("sub_callback", "O" + enc_str("sub"))],
}


def tok(v):
    """Python value -> value token of the model's wire format."""
    if v is None:
        return "N"
    if v is True:
        return "B1"
    if v is False:
        return "B0"
    if isinstance(v, int):
        return "I%d" % v
    if isinstance(v, float):
        return "F" + enc_str(repr(v))
    if isinstance(v, str):
        return "S" + enc_str(v)
    if isinstance(v, Stub):
        return "O" + enc_str(v.tag)
    if isinstance(v, tuple) and len(v) == 2:
        return "P" + tok(v[0]) + "/" + tok(v[1])
    if isinstance(v, type(re)):
        return "O" + enc_str(v.__name__)
    mod = type(v).__module__ or ""
    if mod == "mysensors" or mod.startswith("mysensors."):
        return "R" + enc_str(type(v).__name__)
    return "O" + enc_str("?" + type(v).__name__)


def untok(t):
    if t == "N":
        return None
    if t in ("B0", "B1"):
        return t == "B1"
    if t[0] == "I":
        return int(t[1:])
    if t[0] == "F":
        return float(dec_str(t[1:]))
    if t[0] == "S":
        return dec_str(t[1:])
    if t[0] == "O":
        return stub(dec_str(t[1:]))
    raise ValueError(t)


REPS = {
    "event_callback": (stub("cbA"), stub("cbB")),
    "persistence": (True, False),
    "persistence_file": ("a.json", "dir/b.pickle"),
    "protocol_version": ("2.2", "2.0.0"),
    "baud": (57600, 9600),
    "port": (5004, 1),
    "timeout": (2.5, 3),
    "reconnect_timeout": (7.0, 0.5),
    "in_prefix": ("in-a", "a/b"),
    "out_prefix": ("out-a", "x/y"),
    "retain": (False, True),
}

PATHS = [
    ("tasks", "transport", "timeout"), ("tasks", "transport", "reconnect_timeout"), ("port",), ("baud",),
    ("server_address",), ("tasks", "transport", "in_prefix"), ("tasks", "transport", "out_prefix"),
    ("tasks", "transport", "_retain"), ("tasks", "persistence"), ("tasks", "persistence", "persistence_file"),
    ("event_callback",), ("protocol_version",), ("const",),
]


def exc_name(exc):
    import voluptuous as vol
    from awesomeversion import AwesomeVersionException
    for cls, name in ((vol.Invalid, "VolInvalid"), (AwesomeVersionException, "OtherError"),
                      (ValueError, "ValueError"), (KeyError, "KeyError"), (IndexError, "IndexError"),
                      (AttributeError, "AttributeError"), (TypeError, "TypeError"), (OSError, "OSError"),
                      (RuntimeError, "RuntimeError")):
        if isinstance(exc, cls):
            return name
    return type(exc).__name__


def gw_class(idx):
    import importlib
    name, mod, _ = CLASSES[idx]
    return getattr(importlib.import_module(mod), name)


# ------------------------------------------------------------------ constructor cases

def rep_case(idx, kw, choices):
    fam = CLASSES[idx][2]
    req = REQUIRED_TOK[fam]
    kws = [[o, tok(REPS[o][int(c) - 1])] for o, c in zip(DOCUMENTED[fam], choices) if c != "0"]
    if kw:
        return {"kind": "ctor", "cls": idx, "pos": [], "kws": [[k, v] for k, v in req] + kws,
                "rep": [idx, kw, choices], "documented_only": True}
    return {"kind": "ctor", "cls": idx, "pos": [v for _, v in req], "kws": kws,
            "rep": [idx, kw, choices], "documented_only": True}


VERSION_EXTRAS = ["2", "2.00", "02.0", "2.0.0.0", "2.2.0.1", "1.4.0.0", "1.04", "1.40", "0", "10.0", "2.10",
                  "1.4", "99999999999999999999.1", "2.00000000000000000000000001", "20.04", "2024.1.1",
                  "2.0-beta", "2.0b1", "v2.0", " 2.0", "2.0 ", "2.0.", ".2.0", "2..0", "2,0", "abc", "", "None",
                  "latest", "dev", "stable", "beta", " dev ", "vdev", "dev.", "Vlatest", "Latest", "1.4a", "2.x", "٢.٠", "2.0\n", "0x20", "1e1", "-2.0", "+2.0", "2.0.0-rc1",
                  "7 .", "2 .", "7..", "2..", "2\t.", "4. .", " 2 .", "v4..", "14 .", "2.0 .", "2.0..", "1.4 .",
                  2.0, 1.5, 2.2, 1.3, 2.25, 0.0, 2, 1, 0, 3, 14, True, False, None]

OPTION_POOLS = {
    "event_callback": [stub("cbA"), None, stub("cbC")],
    "persistence": [True, False, 1, 0, "yes", "", None],
    "persistence_file": ["x.json", "p.pickle", "a b.json", "", "d/e.pickle"],
    "baud": [9600, 115200, "57600", None, 1],
    "port": [5003, 1, "5003", 65535],
    "timeout": [0.5, 2, None, 0.0, 1.0],
    "reconnect_timeout": [3.0, 1, 0, 10.0],
    "in_prefix": ["", "a", "a/b", "mygw-in", "ü", "attic(2)/in", "gw[1]", "what?", "a.b+"],
    "out_prefix": ["", "b", "c/d", "mygw-out", "out(1)"],
    "retain": [True, False, 0, 1, None],
}
UNDOCUMENTED = ["timeout", "reconnect_timeout", "baud", "port", "host", "in_prefix", "retain", "foo", "transport",
                "protocol", "connect", "gateway", "args", "kwargs", "pub_callback", "const", "sensors"]


def version_pool(rng):
    k = rng.random()
    if k < 0.5:
        return "%d.%d" % (rng.randrange(4), rng.randrange(13)) + ("" if rng.random() < 0.5 else ".%d" % rng.randrange(4))
    if k < 0.8:
        return rng.choice(VERSION_EXTRAS)
    return random_dotted(rng)


def random_dotted(rng):
    n = rng.choice([1, 2, 2, 3, 3, 4, 5])
    secs = []
    for k in range(n):
        pool = [1, 1, 2, 2, 2, 2, 0, 3, 14, 10 ** 12] if k == 0 else \
            [0, 0, 0, 1, 1, 2, 2, 3, 4, 5, 9, 10, 14, 15, 20, 22, 100, 10 ** 12]
        s = str(rng.choice(pool))
        if rng.random() < 0.2:
            s = "0" * rng.randrange(1, 3) + s
        secs.append(s)
    return ".".join(secs)


def random_case(rng):
    idx = rng.randrange(6)
    fam = CLASSES[idx][2]
    req = list(REQUIRED_TOK[fam])
    by_kw = rng.random() < 0.4
    kws = []
    for o in DOCUMENTED[fam]:
        if rng.random() < 0.45:
            v = version_pool(rng) if o == "protocol_version" else rng.choice(OPTION_POOLS[o])
            kws.append([o, tok(v)])
    rng.shuffle(kws)
    pos = []
    if by_kw:
        kws = [[k, v] for k, v in req] + kws
    else:
        pos = [v for _, v in req]
    documented_only = True
    if rng.random() < 0.3:
        documented_only = False
        m = rng.random()
        if m < 0.4:
            k = rng.choice([u for u in UNDOCUMENTED if u not in DOCUMENTED[fam] and u not in dict(req)] or ["foo"])
            kws.append([k, tok(rng.choice([1, "x", None, 2.5]))])
        elif m < 0.6:
            pos = pos + [tok(rng.choice([stub("cbA"), 7, "x", None])) for _ in range(rng.randrange(1, 4))]
        elif m < 0.75:
            if pos:
                pos = pos[:-1]
            else:
                kws = kws[1:]
        elif m < 0.9 and not by_kw:
            kws.append([req[0][0], req[0][1]])     # required argument twice
        else:
            kws.append(["self", tok(1)])
    return {"kind": "ctor", "cls": idx, "pos": pos, "kws": kws, "rep": None, "documented_only": documented_only}


# ------------------------------------------------------------------ oracle entries

FIXED_VERSIONS = ["1.4", "1.5", "2.0", "2.1", "2.2"]
CONTAINER_WORDS = ("latest", "dev", "stable", "beta")   # awesomeversion's SpecialContainer strategy


def container_word(v):
    if not isinstance(v, str):
        return False
    w = v.strip()
    w = w[:-1] if w.endswith(".") else w
    w = w[1:] if w[:1] in ("v", "V") else w
    return w in CONTAINER_WORDS
OPS = ["lt", "le", "gt", "ge", "eq", "ne"]
DOTTED = re.compile(r"[0-9]+(\.[0-9]+)*\Z")
_orc_cache = {}
unmodelled_exceptions = []


def py_str(v):
    if isinstance(v, Stub):
        return "<" + v.tag + ">"
    return str(v)


_refused_cache = []


def _refused():
    if not _refused_cache:
        from awesomeversion import AwesomeVersionStrategy
        from harness.translate import signatures
        try:
            r = signatures.live_refused_strategies()
        except Exception:
            r = set()
        _refused_cache.append(r or {AwesomeVersionStrategy.SPECIALCONTAINER})
    return _refused_cache[0]


def oracle_tokens(s):
    """The library's verdicts for every comparison the model may ask about the non dotted numeric string s."""
    if DOTTED.match(s):
        return []
    if s in _orc_cache:
        return _orc_cache[s]
    import operator
    from awesomeversion import AwesomeVersion, AwesomeVersionCompareException, AwesomeVersionStrategy
    out = []
    # oracle `cont`: is_version refuses this string because of its awesomeversion strategy (SPECIALCONTAINER
    # words since b5ee08d, forms of UNKNOWN strategy that cannot be compared since the fix of finding D22)
    if AwesomeVersion(s).strategy in _refused():
        out.append("c:" + enc_str(s))
    for i, op in enumerate(OPS):
        f = getattr(operator, op)
        for o in FIXED_VERSIONS:
            for l, r in ((s, o), (o, s)):
                try:
                    verdict = "1" if f(AwesomeVersion(l), AwesomeVersion(r)) else "0"
                except AwesomeVersionCompareException:
                    verdict = "x"
                except Exception as exc:  # outside what the oracle type can express
                    unmodelled_exceptions.append((l, r, op, type(exc).__name__))
                    verdict = "x"
                out.append("o:%d:%s:%s:%s" % (i, enc_str(l), enc_str(r), verdict))
    _orc_cache[s] = out
    return out


# ------------------------------------------------------------------ implementation side

def observe(gw):
    out = []
    for path in PATHS:
        cur = gw
        try:
            for a in path:
                cur = getattr(cur, a)
        except AttributeError:
            out.append("-")
            continue
        out.append(tok(cur))
    return out


def build(case, file_as_path=False):
    cls = gw_class(case["cls"])
    pos = [untok(t) for t in case["pos"]]
    kws = {}
    for k, t in case["kws"]:
        kws[k] = untok(t)
    if file_as_path and isinstance(kws.get("persistence_file"), str):
        import pathlib
        kws["persistence_file"] = pathlib.Path(kws["persistence_file"])      # documented as "a path": os.PathLike too
    return cls(*pos, **kws)


def dup_keyword(case):
    ks = [k for k, _ in case["kws"]]
    return len(set(ks)) != len(ks)


def impl_ctor(case):
    try:
        gw = build(case)
    except Exception as exc:
        return ["err", exc_name(exc)], None
    return ["ok"] + observe(gw), gw


def model_ctor_line(case):
    name = CLASSES[case["cls"]][0]
    toks = ["construct", enc_str(name)] + ["p:" + t for t in case["pos"]]
    toks += ["k:%s:%s" % (enc_str(k), t) for k, t in case["kws"]]
    for k, t in case["kws"]:
        if k == "protocol_version":
            toks += oracle_tokens(py_str(untok(t)))
    return " ".join(toks)


def numeric_floor(s):
    """The property's rule, independent of model and implementation: highest supported version not above s
    numerically (sections left to right, missing = 0), else 1.4.  Returns (floor sections, kept)."""
    secs = [int(x) for x in s.split(".")]

    def le(a, b):
        n = max(len(a), len(b))
        return list(a) + [0] * (n - len(a)) <= list(b) + [0] * (n - len(b))
    best = None
    for c, _ in SUPPORTED:
        if le(c, secs) and (best is None or le(best, c)):
            best = c
    kept = le((1, 4), secs)
    return (best or (1, 4)), kept


def expected_version(v):
    """(module, stored version or None if the monitor has no opinion on the stored string) by the property's rule,
    or None when the rule does not say (strings mixing digits and other characters)."""
    s = py_str(v)
    if DOTTED.match(s) and all(len(x) <= 4000 for x in s.split(".")):
        fl, kept = numeric_floor(s)
        return dict(SUPPORTED)[fl], (s if kept else "1.4")
    if not any(ch.isdigit() for ch in s):
        return "mysensors.const_14", "1.4"
    return None


def monitor_ctor(case, obs, gw):
    """The property on the real constructor: accepted, and every option visible where it acts."""
    if not case["documented_only"]:
        return None
    if obs[0] != "ok":
        return f"{CLASSES[case['cls']][0]} refused documented options {[k for k, _ in case['kws']]}: {obs[1]}"
    fam = CLASSES[case["cls"]][2]
    given = {k: untok(t) for k, t in case["kws"]}

    def same(a, b):
        return a is b or (type(a) is type(b) and a == b)
    tr = gw.tasks.transport
    for k, v in given.items():
        if k == "timeout" and not same(tr.timeout, v):
            return f"timeout={v!r} but transport.timeout={tr.timeout!r}"
        if k == "reconnect_timeout" and not same(tr.reconnect_timeout, v):
            return f"reconnect_timeout={v!r} but transport.reconnect_timeout={tr.reconnect_timeout!r}"
        if k == "baud" and not same(gw.baud, v):
            return f"baud={v!r} but gateway.baud={gw.baud!r}"
        if k == "port" and fam == "tcp" and not (isinstance(gw.server_address, tuple) and len(gw.server_address) == 2
                                                 and same(gw.server_address[1], v)):
            return f"port={v!r} but server_address={gw.server_address!r}"
        if k == "port" and fam == "serial" and not same(gw.port, v):
            return f"port={v!r} but gateway.port={gw.port!r}"
        if k == "host" and not same(gw.server_address[0], v):
            return f"host={v!r} but server_address={gw.server_address!r}"
        if k == "in_prefix" and not same(tr.in_prefix, v):
            return f"in_prefix={v!r} but transport.in_prefix={tr.in_prefix!r}"
        if k == "out_prefix" and not same(tr.out_prefix, v):
            return f"out_prefix={v!r} but transport.out_prefix={tr.out_prefix!r}"
        if k == "retain" and not same(tr._retain, v):
            return f"retain={v!r} but transport._retain={tr._retain!r}"
        if k == "event_callback" and gw.event_callback is not v:
            return f"event_callback not stored: {gw.event_callback!r}"
        if k == "persistence":
            if bool(v) != (gw.tasks.persistence is not None):
                return f"persistence={v!r} but tasks.persistence={gw.tasks.persistence!r}"
        if k == "persistence_file" and bool(given.get("persistence", False)):
            if gw.tasks.persistence is None or not same(gw.tasks.persistence.persistence_file, v):
                return f"persistence_file={v!r} not used by the persistence object"
        if k == "protocol_version":
            exp = expected_version(v)
            if exp is not None:
                if gw.const.__name__ != exp[0]:
                    return f"protocol_version={v!r} selects {gw.const.__name__}, the rule says {exp[0]}"
                if gw.protocol_version != exp[1]:
                    return f"protocol_version={v!r} stored as {gw.protocol_version!r}, expected {exp[1]!r}"
            elif gw.const.__name__ not in dict((m, 1) for _, m in SUPPORTED):
                return f"protocol_version={v!r} selects unknown module {gw.const.__name__}"
    # an option that was NOT given keeps the value the README documents (it must not depend on what other
    # gateways of this process were configured with)
    if fam in ("serial", "tcp"):
        for k, d in (("timeout", 1.0), ("reconnect_timeout", 10.0)):
            if k not in given and not same(getattr(tr, k, None), d):
                return f"{k} not given but transport.{k}={getattr(tr, k, None)!r} (documented default {d!r})"
    if fam == "serial" and "baud" not in given and len(case["pos"]) < 2 and not same(gw.baud, 115200):
        return f"baud not given but gateway.baud={gw.baud!r} (documented default 115200)"
    if fam == "tcp" and "port" not in given and len(case["pos"]) < 2 and not same(gw.server_address[1], 5003):
        return f"port not given but server_address={gw.server_address!r} (documented default port 5003)"
    if "protocol_version" not in given and (gw.const.__name__ != "mysensors.const_14" or gw.protocol_version != "1.4"):
        return f"protocol_version not given but {gw.const.__name__} / {gw.protocol_version!r} selected (documented default '1.4')"
    if fam == "mqtt":
        why = mqtt_effect(gw, given)
        if why:
            return why
    return None


def mqtt_effect(gw, given):
    """in_prefix / out_prefix / retain as they act on the broker callbacks and on received topics."""
    tr = gw.tasks.transport
    pub, sub = tr._pub_callback, tr._sub_callback
    if not (isinstance(pub, Stub) and isinstance(sub, Stub)):
        return None
    if not all(isinstance(given.get(k, ""), str) for k in ("in_prefix", "out_prefix")):
        return None
    inp, outp = given.get("in_prefix", ""), given.get("out_prefix", "")
    pub.calls.clear()
    sub.calls.clear()
    handed = []
    try:
        gw.init_topics()
        tr.send("1;255;3;0;6;M\n")
        pubs = list(pub.calls)
        pub.calls.clear()
        gw.logic = lambda data: handed.append(data)      # what recv hands to the gateway
        before = len(gw.tasks.queue) if hasattr(gw.tasks, "queue") else 0
        tr.recv(inp + "/1/255/3/0/6", "0", 0)
        for func, args in list(gw.tasks.queue)[before:]:
            handed.extend(args)
            gw.tasks.queue.pop()
    except Exception as exc:
        return f"MQTT probe raised {type(exc).__name__}: {exc}"
    finally:
        gw.__dict__.pop("logic", None)
        subs = list(sub.calls)
        pub.calls.clear()
        sub.calls.clear()
    if not (subs and all(a[0].startswith(inp + "/") for a, _ in subs)):
        return f"in_prefix={inp!r} not used for the subscriptions {[a[0] for a, _ in subs]}"
    # the prefixes also act on what is subscribed LATER, when a child is presented - also when another MQTT
    # gateway object with other prefixes was created in the meantime
    _LATER[0] += 1
    if _LATER[0] % 5:              # every fifth MQTT construction (the probe builds a second gateway)
        return _mqtt_rest(given, pubs, outp, inp, handed)
    dpub, dsub = Stub("decoy-pub"), Stub("decoy-sub")
    try:
        type(gw)(dpub, dsub, in_prefix="decoy-in", out_prefix="decoy-out", protocol_version=gw.protocol_version)
        known = set(gw.sensors)
        for topic, pl in ((inp + "/77/255/0/0/17", "2.2"), (inp + "/77/3/0/0/6", "")):
            tr.recv(topic, pl, 0)
            while getattr(gw.tasks, "queue", None):
                tr.send(gw.tasks.run_job())
        later = [a[0] for a, _ in sub.calls]
        for n in set(gw.sensors) - known:
            del gw.sensors[n]
    except Exception as exc:
        return f"MQTT presentation probe raised {type(exc).__name__}: {exc}"
    finally:
        pub.calls.clear()
        sub.calls.clear()
    if dsub.calls or dpub.calls:
        return (f"in_prefix={inp!r}: a child presented to this gateway was subscribed through ANOTHER gateway object: "
                f"{[a[0] for a, _ in dsub.calls][:3]}")
    if inp + "/77/3/1/+/+" not in later:
        return f"in_prefix={inp!r} not used for the topics of a child presented later: {later}"
    return _mqtt_rest(given, pubs, outp, inp, handed)


_LATER = [0]


def _mqtt_rest(given, pubs, outp, inp, handed):
    if [h.strip() for h in handed] != ["1;255;3;0;6;0"]:
        return f"in_prefix={inp!r}: a message received on topic {inp + '/1/255/3/0/6'!r} reached the gateway as {handed}"
    if not (len(pubs) == 1 and pubs[0][0][0] == outp + "/1/255/3/0/6" and pubs[0][0][1] == "M"):
        return f"out_prefix={outp!r} not used for publishing {[a[:2] for a, _ in pubs]}"
    if "retain" in given and not (len(pubs) == 1 and pubs[0][0][3] is given["retain"]):
        return f"retain={given['retain']!r} not passed to the publish callback ({pubs[0][0][3]!r})"
    if "retain" not in given and pubs[0][0][3] is not True:
        return f"retain not given but the publish callback got retain={pubs[0][0][3]!r}"
    return None


def effect_probe(case):
    """event_callback / persistence / persistence_file as they ACT: the first scheduled save, a node
    presentation, the final save, then a second gateway with the same options loads the file.
    Returns (key, why) or None, and the observation {"called", "restored"}."""
    import os
    import shutil
    import tempfile
    from unittest import mock
    given = {k: untok(t) for k, t in case["kws"]}
    pf = given.get("persistence_file", "mysensors.pickle")
    if not isinstance(pf, str) or not pf or os.path.isabs(pf) or ".." in pf:
        return None, None
    base = core.BUILD / "scratch" / str(os.getpid())
    base.mkdir(parents=True, exist_ok=True)
    d = tempfile.mkdtemp(dir=base)
    old = os.getcwd()
    obs = {}
    try:
        os.chdir(d)
        for sub in ("dir", "d"):
            os.mkdir(sub)
        with mock.patch("os.fsync", lambda fd: None):
            gw = build(case)
            cb = given.get("event_callback")
            if isinstance(cb, Stub):
                cb.calls.clear()
            pers = gw.tasks.persistence
            if pers is not None:
                pers.safe_load_sensors()
                pers.save_sensors()                   # what start_persistence's first scheduled save does
            gw.logic("1;255;0;0;17;%s\n" % gw.protocol_version)
            if 1 not in gw.sensors:
                return ("effect/presentation", f"a node presenting {gw.protocol_version!r} is not registered"), obs
            if isinstance(cb, Stub):
                obs["called"] = len(cb.calls)
                cb.calls.clear()
            if pers is not None:
                pers.save_sensors()                   # the final save of stop()
            files = sorted(os.path.join(r, f)[2:] for r, _, fs in os.walk(".") for f in fs)
            if pers is not None:
                gw2 = build(case)
                gw2.tasks.persistence.safe_load_sensors()
                obs["restored"] = 1 in gw2.sensors
                obs["file"] = os.path.isfile(pf)
                if "persistence_file" in given:
                    # the same option given as a pathlib.Path: the gateway can be built, loads the file, saves it
                    gw3 = build(case, file_as_path=True)
                    gw3.tasks.persistence.safe_load_sensors()
                    obs["restored_path_object"] = 1 in gw3.sensors
                    gw3.tasks.persistence.save_sensors()
        want = bool(given.get("persistence", False))
        if isinstance(cb, Stub) and obs["called"] != 1:
            return ("option-no-effect/event_callback",
                    f"event_callback called {obs['called']} times for one node presentation"), obs
        if want and pers is None:
            return ("option-no-effect/persistence", "persistence requested but there is no persistence object"), obs
        if want and not obs["restored"]:
            return ("option-no-effect/persistence",
                    f"persistence={given['persistence']!r}"
                    + ("" if "event_callback" in given else " without event_callback")
                    + f": a node presented after the first save is not restored by a second gateway (files {files})"), obs
        if want and obs.get("restored_path_object") is False:
            return ("option-no-effect/persistence_file-as-path-object",
                    f"persistence_file given as pathlib.Path({pf!r}): the node saved under that name is not restored"), obs
        if want and not obs["file"]:
            return ("option-no-effect/persistence_file", f"persistence file {pf!r} was not written (files {files})"), obs
        if not want and files:
            return ("option-no-effect/persistence", f"persistence is off but files {files} were created"), obs
        return None, obs
    except Exception as exc:
        return ("effect/exception", f"effect probe raised {type(exc).__name__}: {exc}"), obs
    finally:
        os.chdir(old)
        shutil.rmtree(d, ignore_errors=True)


def wants_effect_probe(ctx, case, i):
    """quick: every presence/value vector of the four interacting options x the rest all absent or all
    first value; thorough: every vector.  Random documented calls: one in five."""
    if not case["documented_only"]:
        return False
    if case["rep"]:
        return ctx.tier == "thorough" or case["rep"][2][4:] in ("000", "111")
    return i % 5 == 0


# ------------------------------------------------------------------ version cases

GW_PROBES = ["1;1;0;0;26;x\n", "1;1;0;0;36;x\n", "1;255;3;0;22;500\n", "1;255;3;0;32;500\n",
             "1;1;1;0;47;x\n", "1;1;1;0;42;x\n", "1;1;1;0;22;1\n"]
NODE_PROBES = [(42, "x"), (47, "x"), (22, "1")]


def gateway_probe(gw):
    """Which version-discriminating frames the gateway's validation accepts, and whether is_sensor asks an
    unknown node to present itself."""
    from unittest import mock
    import voluptuous as vol
    from mysensors.message import Message
    seen = []
    orig = Message.validate

    def spy(self, protocol_version):
        try:
            r = orig(self, protocol_version)
        except vol.Invalid:
            seen.append(0)
            raise
        seen.append(1)
        return r
    acc = []
    with mock.patch.object(Message, "validate", spy):
        for line in GW_PROBES:
            seen.clear()
            try:
                gw.logic(line)
            except Exception as exc:
                acc.append("exc:" + type(exc).__name__)
                continue
            acc.append(seen[0] if seen else "novalidate")
    before = len(gw.tasks.queue)
    try:
        gw.is_sensor(77)
        asked = len(gw.tasks.queue) - before
    except Exception as exc:
        asked = "exc:" + type(exc).__name__
    return acc, asked


def node_probe(value):
    import voluptuous as vol
    from mysensors.sensor import Sensor
    from mysensors.const import get_const
    s = Sensor(1)
    try:
        s.protocol_version = value
        stored = s.protocol_version
    except Exception as exc:
        return {"stored": "err:" + exc_name(exc)}
    out = {"stored": "ok:" + tok(stored)}
    try:
        out["const"] = "ok:" + enc_str(get_const(stored).__name__)
    except Exception as exc:
        out["const"] = "err:" + exc_name(exc)
    acc = []
    for vt, payload in NODE_PROBES:
        try:
            s.validate_child_state(1, vt, payload)
            acc.append(1)
        except vol.Invalid:
            acc.append(0)
        except Exception as exc:
            acc.append("exc:" + type(exc).__name__)
    out["probes"] = acc
    return out


def wire_presentation(value):
    """A node presenting `value` on the wire to a 2.2 gateway: the version the gateway records for it."""
    if not isinstance(value, str) or ";" in value or value != value.strip() or "\n" in value:
        return None
    from mysensors.gateway_serial import SerialGateway
    gw = SerialGateway("/dev/ttyACM0", protocol_version="2.2")
    try:
        gw.logic(f"1;255;0;0;17;{value}\n")
    except Exception as exc:
        return "exc:" + type(exc).__name__
    return gw.sensors[1].protocol_version if 1 in gw.sensors else "rejected"


def impl_version(value):
    from mysensors.validation import is_version, safe_is_version
    from mysensors.const import get_const
    from mysensors.gateway_serial import SerialGateway
    obs = {}
    try:
        obs["is_version"] = "ok:" + enc_str(is_version(value))
    except Exception as exc:
        obs["is_version"] = "err:" + exc_name(exc)
    try:
        safe = safe_is_version(value)
        obs["safe"] = "ok:" + enc_str(safe)
    except Exception as exc:
        safe = None
        obs["safe"] = "err:" + exc_name(exc)
    try:
        obs["raw_const"] = "ok:" + enc_str(get_const(value).__name__)
    except Exception as exc:
        obs["raw_const"] = "err:" + exc_name(exc)
    try:
        gw = SerialGateway("/dev/ttyACM0", protocol_version=value)
        obs["gw_version"] = "ok:" + enc_str(gw.protocol_version)
        obs["gw_const"] = "ok:" + enc_str(gw.const.__name__)
        acc, asked = gateway_probe(gw)
        obs["gw_probes"] = acc
        obs["asked"] = asked
    except Exception as exc:
        obs["gw_version"] = obs["gw_const"] = "err:" + exc_name(exc)
        obs["gw_probes"], obs["asked"] = None, None
    obs["node"] = node_probe(value)
    obs["wire"] = wire_presentation(value)
    return obs


def model_version_line(value):
    return " ".join(["version", tok(value)] + oracle_tokens(py_str(value)))


def model_version_obs(out):
    t = out.split(" ")
    return {"is_version": t[0], "safe": t[1], "gw_const": t[2], "raw_const": t[3], "asked": t[4],
            "node_stored": t[5], "node_const": t[6]}


def compare_version(obs, mo):
    diffs = []
    pairs = [("is_version", obs["is_version"]), ("safe", obs["safe"]), ("safe", obs["gw_version"]),
             ("gw_const", obs["gw_const"]), ("raw_const", obs["raw_const"]),
             ("node_stored", obs["node"]["stored"]), ("node_const", obs["node"].get("const", mo["node_const"]))]
    for k, got in pairs:
        if mo[k] != got:
            diffs.append(f"{k}: model {mo[k]} implementation {got}")
    asked = obs["asked"]
    exp = {"ok:1": 1, "ok:0": 0}.get(mo["asked"], mo["asked"])
    if asked != exp:
        diffs.append(f"presentation request: model {mo['asked']} implementation {asked}")
    return diffs


_reference = {}


def reference():
    """Behaviour of gateways / nodes configured with exactly the five supported version strings."""
    if not _reference:
        from mysensors.gateway_serial import SerialGateway
        for s, secs in SUPPORTED_STR.items():
            gw = SerialGateway("/dev/ttyACM0", protocol_version=s)
            acc, asked = gateway_probe(gw)
            _reference[secs] = {"gw_probes": acc, "asked": asked, "node_probes": node_probe(s)["probes"],
                                "const": gw.const.__name__}
    return _reference


def reference_selftest():
    ref = reference()
    why = []
    for (a, b) in [((1, 4), (1, 5)), ((1, 5), (2, 0)), ((2, 1), (2, 2))]:
        if ref[a]["gw_probes"] == ref[b]["gw_probes"]:
            why.append(f"gateway probes do not tell {a} from {b}")
    for (a, b) in [((1, 4), (1, 5)), ((1, 5), (2, 0))]:
        if ref[a]["node_probes"] == ref[b]["node_probes"]:
            why.append(f"node probes do not tell {a} from {b}")
    if [ref[c]["asked"] for c, _ in SUPPORTED] != [0, 0, 1, 1, 1]:
        why.append(f"presentation request per supported version is {[ref[c]['asked'] for c, _ in SUPPORTED]}")
    for c, m in SUPPORTED:
        if ref[c]["const"] != m:
            why.append(f"version {c} uses {ref[c]['const']}")
    return why


def monitor_version(value, obs):
    """The property's rule evaluated on what the implementation did with `value`."""
    if obs["gw_const"].startswith("err") or obs["safe"].startswith("err"):
        return f"configuring protocol_version={value!r} raised {obs['gw_const']}"
    if obs["node"]["stored"].startswith("err") or obs["node"].get("const", "err").startswith("err"):
        return f"a node presenting {value!r} raised {obs['node']}"
    exp = expected_version(value)
    mods = [m for _, m in SUPPORTED]
    gw_const, node_const = dec_str(obs["gw_const"][3:]), dec_str(obs["node"]["const"][3:])
    if exp is None:
        if gw_const not in mods or node_const not in mods:
            return f"{value!r} selects an unknown module {gw_const} / {node_const}"
        if gw_const != node_const:
            return f"{value!r}: gateway uses {gw_const} but a node presenting it gets {node_const}"
        return None
    mod, stored = exp
    if gw_const != mod:
        return f"gateway with protocol_version={value!r} uses {gw_const}; highest supported version not above it is {mod}"
    if node_const != mod:
        return f"node presenting {value!r} is validated against {node_const}; the rule says {mod}"
    if dec_str(obs["gw_version"][3:]) != stored:
        return f"gateway stores {dec_str(obs['gw_version'][3:])!r} for {value!r}, expected {stored!r}"
    if obs["node"]["stored"] != "ok:" + tok(stored):
        return f"node stores {obs['node']['stored']} for {value!r}, expected {stored!r}"
    ref = reference()[[c for c, m in SUPPORTED if m == mod][0]]
    if obs["gw_probes"] != ref["gw_probes"]:
        return f"gateway {value!r} accepts frames {obs['gw_probes']}, a {mod} gateway accepts {ref['gw_probes']}"
    if obs["asked"] != ref["asked"]:
        return f"gateway {value!r}: presentation request for an unknown node = {obs['asked']}, {mod} gives {ref['asked']}"
    if obs["node"]["probes"] != ref["node_probes"]:
        return f"node {value!r} accepts values {obs['node']['probes']}, a {mod} node accepts {ref['node_probes']}"
    w = obs["wire"]
    if w is not None:
        kept = stored == py_str(value)
        if kept and DOTTED.match(py_str(value)) and w != stored:
            return f"node presenting {value!r} on the wire is recorded with version {w!r}, expected {stored!r}"
        if w not in ("rejected", stored):
            return f"node presenting {value!r} on the wire is recorded with version {w!r}"
    return None


# ------------------------------------------------------------------ documented examples

def run_examples(res):
    from harness.translate import signatures
    try:
        _, raw = signatures.examples()
    except Exception as exc:
        res.violate("examples/translator", f"documentation examples unreadable: {exc}", {"kind": "examples"},
                    kind="correspondence", found_input=False)
        return
    import ast
    index = {n: i for i, (n, _, _) in enumerate(CLASSES)}
    notes = []
    for ex in raw:
        idx = index[ex["class"]]
        fam = CLASSES[idx][2]

        def value(src):
            try:
                return ast.literal_eval(src)
            except (ValueError, SyntaxError):
                return stub("doc:" + src)
        case = {"kind": "ctor", "cls": idx, "pos": [tok(value(s)) for s in ex["pos"]],
                "kws": [[k, tok(value(s))] for k, s in ex["kw"].items()], "rep": None,
                "documented_only": True, "example": ex["file"]}
        res.evaluations += 1
        res.count("example:" + ex["file"])
        undocumented = [k for k in ex["kw"] if k not in DOCUMENTED[fam]]
        if undocumented:
            res.violate("examples/undocumented-keyword",
                        f"{ex['file']} passes {undocumented} to {ex['class']}; Spec/ConfigSpec.v does not list them",
                        case, kind="correspondence", found_input=False)
        obs, gw = impl_ctor(case)
        why = monitor_ctor(case, obs, gw)
        if why:
            res.violate("examples/" + ex["class"], f"{ex['file']}: {why}", case, kind="monitor")
        n_req = len(REQUIRED_TOK[fam])
        if len(ex["pos"]) > n_req and obs[0] == "ok":
            # outside the property's quantifier (keyword options): where did the extra positional land?
            landed = {".".join(p): o for p, o in zip(PATHS, obs[1:]) if o.startswith("O") and "doc:" in dec_str(o[1:])}
            notes.append({"file": ex["file"], "call": ex, "extra_positional_bound_to": landed})
    res.extra["documentation_examples"] = len(raw)
    res.extra["positional_observations"] = notes


# ------------------------------------------------------------------ run

def model_lines(model, lines, jobs=16):
    if not lines:
        return []
    n = max(1, min(jobs, len(lines) // 200 + 1))
    chunks = [lines[i::n] for i in range(n)]
    with ThreadPoolExecutor(n) as ex:
        outs = list(ex.map(model.batch, chunks))
    res = [None] * len(lines)
    for k, o in enumerate(outs):
        res[k::n] = o
    return res


def ctor_cases(ctx):
    cases = []
    for idx in range(6):
        for kw in (0, 1):
            for ch in itertools.product("012", repeat=7):
                cases.append(rep_case(idx, kw, "".join(ch)))
    n_rep = len(cases)
    rng = ctx.rng("c18", "ctor")
    for _ in range(ctx.budget(3000, 60000)):
        cases.append(random_case(rng))
    return cases, n_rep


def version_values(ctx):
    vals = []
    for major in range(4):
        for minor in range(13):
            vals.append(f"{major}.{minor}")
            for patch in range(4):
                vals.append(f"{major}.{minor}.{patch}")
    n_grid = len(vals)
    vals += VERSION_EXTRAS
    rng = ctx.rng("c18", "version")
    from harness.gen import text
    for _ in range(ctx.budget(300, 6000)):
        k = rng.random()
        if k < 0.7:
            vals.append(random_dotted(rng))
        elif k < 0.85:
            s = random_dotted(rng)
            i = rng.randrange(len(s) + 1)
            s = s[:i] + rng.choice(["-", "a", " ", ".", "v", "rc1", "+", "٣", "\n"]) + s[i:]
            if rng.random() < 0.4:      # a second edit (e.g. blank + trailing dot: forms a library cannot compare)
                j = rng.randrange(len(s) + 1)
                s = s[:j] + rng.choice(["-", " ", ".", ".", "\t", "_", "+"]) + s[j:]
            vals.append(s)
        else:
            vals.append(text.payload(rng)[:12])
    return vals, n_grid


def container_witness_selftest():
    """The oracle used by the Coq witness C18_nonnumeric_fallback_refuted (container_orc) is the library's verdict."""
    import operator
    from awesomeversion import AwesomeVersion, AwesomeVersionStrategy
    for w in CONTAINER_WORDS:
        if AwesomeVersion(w).strategy != AwesomeVersionStrategy.SPECIALCONTAINER:
            return f"awesomeversion does not classify {w!r} as a special container"
        for op in OPS:
            for o in FIXED_VERSIONS:
                try:
                    got = (getattr(operator, op)(AwesomeVersion(w), AwesomeVersion(o)),
                           getattr(operator, op)(AwesomeVersion(o), AwesomeVersion(w)))
                except Exception as exc:
                    return f"awesomeversion raises {type(exc).__name__} comparing {w!r} {op} {o!r}"
                if got != (op in ("gt", "ge", "ne"), op in ("lt", "le", "ne")):
                    return f"awesomeversion: {w!r} {op} {o!r} / reversed = {got}, the Coq witness oracle assumes a container word is greater"
    return None


def run(ctx, res):
    model = ctx.model
    why = container_witness_selftest()
    if why:
        res.violate("oracle/container-witness", why, {"kind": "selftest"}, kind="correspondence", found_input=False)
    # ---- self tests of the monitor's reference
    for why in reference_selftest():
        res.violate("selftest/reference", why, {"kind": "selftest"}, kind="monitor",
                    found_input=why.startswith("version") or why.startswith("presentation"))
    # ---- constructors
    cases, n_rep = ctor_cases(ctx)
    lines = [model_ctor_line(c) for c in cases]
    outs = model_lines(model, lines) if model is not None else [None] * len(cases)
    if model is not None and not ctx.searching:
        # the harness enumerates exactly the cases of the theorem (Spec.call_of)
        spec = model_lines(model, ["case %d %d c%s" % tuple(c["rep"]) for c in cases[:n_rep]])
        for c, l, s in zip(cases, lines, spec):
            if "construct " + s != l:
                res.violate("spec/call-mismatch", f"Spec.call_of gives {s!r}, harness built {l!r}", c,
                            kind="correspondence", found_input=False)
                break
        chk = model_lines(model, ["check %d %d c%s" % tuple(c["rep"]) for c in cases[:n_rep:7]])
        bad = [c for c, o in zip(cases[:n_rep:7], chk) if o != "1"]
        if bad:
            res.violate("model/check-case", "the model's own checker rejects a documented case", bad[0],
                        kind="correspondence", found_input=False)
    xin, xout = [], []
    n_effect = 0
    alert_pred = {}
    if model is not None:
        o = model.batch(["alert %d %d 0" % (a, b) for a in (0, 1) for b in (0, 1)])
        alert_pred = {(bool(a), bool(b)): tuple(x.split(" ")) for (a, b), x in
                      zip([(a, b) for a in (0, 1) for b in (0, 1)], o)}
    for i, (c, mo) in enumerate(zip(cases, outs)):
        if dup_keyword(c):
            continue
        obs, gw = impl_ctor(c)
        res.evaluations += 1
        fam = CLASSES[c["cls"]][2]
        res.count("ctor:%s:%s" % (fam, "rep" if c["rep"] else ("doc" if c["documented_only"] else "malformed"))
                  + ":" + (obs[0] if obs[0] == "ok" else obs[1]))
        if c["kws"] and obs[0] == "ok":
            res.nontriv(core.case_hash([c["cls"], c["pos"], c["kws"]]))
        why = monitor_ctor(c, obs, gw)
        if not why and obs[0] == "ok" and wants_effect_probe(ctx, c, i):
            kw, eobs = effect_probe(c)
            if eobs is not None:
                n_effect += 1
                res.count("effect:%s:cb=%s:persistence=%s" % (fam, "event_callback" in dict(c["kws"]),
                                                              "restored" if eobs.get("restored") else
                                                              ("off" if "restored" not in eobs else "LOST")))
            if kw:
                res.violate(kw[0], f"{CLASSES[c['cls']][0]}: {kw[1]}", c, kind="monitor")
                why = kw[1]
            elif eobs and alert_pred:
                given = dict(c["kws"])
                has_cb = "event_callback" in given and given["event_callback"] != "N"
                pred = alert_pred[(has_cb, "restored" in eobs)]
                got = ("1" if eobs.get("called", 0) == 1 else "0", "1" if eobs.get("restored") else "0")
                if pred != got:
                    res.violate("corr/alert", f"alert model (called, dirty)={pred}, implementation {got}", c,
                                kind="correspondence", found_input=False)
            continue_key = True
        else:
            continue_key = False
        if why and not continue_key:
            key = "ctor/" + fam + "/" + (why.split("=")[0].split(" ")[0] if obs[0] == "ok" else obs[1])
            if obs[0] == "ok" and why.startswith("protocol_version=") and \
                    container_word(dict((k, untok(t)) for k, t in c["kws"]).get("protocol_version")):
                key = "version/container-word"
            res.violate(key, why, c, kind="monitor")
        if mo is not None:
            m = mo.split(" ")
            if m != obs:
                if not why:
                    diff = [(".".join(p), a, b) for p, a, b in zip(PATHS, m[1:], obs[1:]) if a != b] \
                        if m[0] == obs[0] == "ok" else [(m[:2], obs[:2])]
                    res.violate("corr/ctor/" + fam, f"model {diff} (model, implementation) differ", c,
                                kind="correspondence", found_input=False)
            elif len(xin) < 60 and i % 437 == 0:
                xin.append(lines[i])
                xout.append(mo)
        if i in (5, 3000, 9000, 20000, n_rep + 3, n_rep + 11):
            res.sample({"case": c, "impl": obs})
    res.extra["exhaustive_subspaces"] = {"constructor_option_vectors": n_rep, "effect_probes": n_effect}
    import os
    import shutil
    shutil.rmtree(core.BUILD / "scratch" / str(os.getpid()), ignore_errors=True)
    # ---- documented examples
    run_examples(res)
    # ---- versions
    vals, n_grid = version_values(ctx)
    vlines = [model_version_line(v) for v in vals]
    vouts = model_lines(model, vlines) if model is not None else [None] * len(vals)
    if model is not None:
        # the monitor's floor rule is the Spec's floor function
        dotted = sorted({py_str(v) for v in vals if DOTTED.match(py_str(v))})
        fl = model_lines(model, ["floor " + enc_str(s) for s in dotted])
        for s, o in zip(dotted, fl):
            flag, mod = o.split(" ")
            exp = expected_version(s)
            if flag != "1" or exp is None or dec_str(mod) != exp[0]:
                res.violate("spec/floor-mismatch", f"Spec floor of {s!r} is {dec_str(mod)}, monitor rule {exp}",
                            {"kind": "version", "value": tok(s)}, kind="correspondence", found_input=False)
                break
    seen = set()
    for i, (v, mo) in enumerate(zip(vals, vouts)):
        t = tok(v)
        if t in seen:
            continue
        seen.add(t)
        obs = impl_version(v)
        res.evaluations += 1
        s = py_str(v)
        cls = "dotted" if DOTTED.match(s) else ("nodigit" if not any(ch.isdigit() for ch in s) else "mixed")
        res.count("version:%s:%s:%s" % (type(v).__name__, cls, dec_str(obs["gw_const"][3:]) if obs["gw_const"].startswith("ok") else obs["gw_const"]))
        if s != "1.4":
            res.nontriv("v:" + t)
        case = {"kind": "version", "value": t}
        why = monitor_version(v, obs)
        if why:
            exp = expected_version(v)
            key = "version/container-word" if container_word(v) else \
                "version/%s/%s" % (cls, "floor" if exp else "consistency")
            res.violate(key, why, case, kind="monitor")
        if mo is not None:
            diffs = compare_version(obs, model_version_obs(mo))
            if diffs and not why:
                res.violate("corr/version/" + cls, "; ".join(diffs), case, kind="correspondence", found_input=False)
            elif not diffs and len(xin) < 140 and i % 5 == 0:
                xin.append(vlines[i])
                xout.append(mo)
        if i in (9, 130, n_grid + 1, n_grid + 17, n_grid + 40):
            res.sample({"case": case, "value": repr(v), "impl": obs})
    res.extra["exhaustive_subspaces"]["version_grid"] = n_grid
    res.extra["oracle_unmodelled_exceptions"] = unmodelled_exceptions[:10]
    res.exhaustive = True
    if model is not None and not ctx.searching and xin:
        n, ok, lg = core.coq_crosscheck([xin], [xout], "c18", shell="Config")
        res.extra["extraction_crosschecks"] = n
        if not ok:
            res.violate("xcheck", "extracted runner disagrees with vm_compute: " + lg[-300:], {"tag": "c18"},
                        kind="correspondence", found_input=False)


def replay(ctx, case):
    c = case["case"] if "case" in case else case
    out = {"case": c}
    if c.get("kind") == "ctor":
        obs, gw = impl_ctor(c)
        out["call"] = "%s(%s)" % (CLASSES[c["cls"]][0], ", ".join(
            [repr(untok(t)) for t in c["pos"]] + ["%s=%r" % (k, untok(t)) for k, t in c["kws"]]))
        out["impl"] = obs
        out["monitor"] = monitor_ctor(c, obs, gw)
        if not out["monitor"] and obs[0] == "ok" and c.get("documented_only"):
            kw, eobs = effect_probe(c)
            out["effect"] = eobs
            out["monitor"] = kw[1] if kw else None
            import os
            import shutil
            shutil.rmtree(core.BUILD / "scratch" / str(os.getpid()), ignore_errors=True)
        if ctx.model is not None:
            out["model"] = ctx.model.batch([model_ctor_line(c)])[0].split(" ")
    elif c.get("kind") == "version":
        v = untok(c["value"])
        obs = impl_version(v)
        out["value"] = repr(v)
        out["impl"] = obs
        out["monitor"] = monitor_version(v, obs)
        if ctx.model is not None:
            out["model"] = model_version_obs(ctx.model.batch([model_version_line(v)])[0])
    else:
        out["monitor"] = "; ".join(reference_selftest()) or None
    out["violates"] = bool(out.get("monitor"))
    return out
