"""C05 - every reply is the prescribed one, well-formed and correctly addressed."""
import os
from concurrent.futures import ThreadPoolExecutor

from harness import gwcheck, oracles
from harness.core import enc_str, dec_str
from harness.gen import scenarios_a
from harness.impl import gwrun

ID = "C05"
PROP_FILE = "C05.v"
SOFT_PINS = "core"
TRANSLATORS = ["unicode_tables", "tables"]
RULE = ("half grammar-generated histories restricted to the property's scope (controller values without ';', line breaks, "
        "trailing white space; inbound lines without embedded line feed), half directed request/reply scenarios (report "
        "then request, requests for unreported types, config with metric toggles, time under arbitrary clocks, id "
        "requests, gateway-ready, every node/child-needing handler from unknown nodes and children, smart-sleeping nodes "
        "with withheld replies and pending desired values, reboot and firmware traffic) over 5 versions x threaded/asyncio "
        "x plain/MQTT. The monitor computes the prescribed multiset of replies per processed line (incl. its nested jobs) "
        "and checks every emitted string for canonical form and addressee; every emitted string (sent or withheld) is "
        "also validated by the extracted serial API spec (independent of Message.validate). "
        "non-trivial = distinct history with at least 2 lines that have a prescribed reply and at least one with silence")
ASSUMPTIONS = ["which inbound lines are accepted is decided by the library's decoder+validator (C02/C03)",
               "local time is the harness clock (calendar.timegm patched), arbitrary per history",
               "firmware responses and reboot commands are only recognised and allowed here; their content is C09/C10",
               "commands released when a node wakes up are only allowed here; that they are the right ones is C08",
               "the ack flag of the set that answers a value request is not prescribed by the text (the library echoes the request's flag)"]
THEOREMS_DOC = {
    'C05_configurations': "cfgv v g iff g runs the table of version v with that version's >=2.0 flag (the five configurations)", 'C05_type_resolution': 'generated registry, every version: message types 0..4 resolve to handle_presentation/set/req/internal/stream (vm_compute per version)',
    'C05_internal_resolution': 'generated registry, every version, every internal sub-type in range: the registered handler function (or none) has the behaviour class the hand-written internal_action table gives (finite vm_compute check lifted by In_zrange)',
    'C05_stream_resolution': 'every version, stream sub-types 0..5: 0 -> firmware config request handler, 2 -> firmware request handler, others none',
    'C05_route_closed': '_route_message in closed form: presentations dropped; a non-stream command for a sleeping known node is appended to its queue; otherwise passed through',
    'C05_reply_table': "all 5 configurations, all oracles/clocks, every state with Inv, every accepted line not triggering the wake-up flush: strings given to add_job inside the call (sent at once in asyncio, queued as send jobs when threaded) followed by the returned reply = encodings of the prescribed messages that routing lets through, in order; each node's hold queue grows by exactly the encodings of the prescribed messages withheld for it; configuration unchanged", 'C05_reply_table_asyncio': 'asyncio flavour, recv of one accepted line: the transport log grows by exactly emitted_part of the prescribed list, job queue unchanged, hold queues grow by withheld_part',
    'C05_reply_table_threaded': 'threaded flavour, the pump iteration that runs the queued line: reply sent at once, nested commands appended to the job queue as send jobs, together = emitted_part; hold queues grow by withheld_part',
    'C05_at_most_one_command': 'the table never prescribes more than one command',
    'C05_no_spurious_output_rejected': 'undecodable or invalid line: logic returns the same state and no reply (nothing sent, queued or withheld)',
    'C05_no_spurious_output_silent': 'accepted message for which the table prescribes nothing: no reply, no send, no job, every hold queue unchanged',
    'C05_invariant_reachable': 'Inv5 (stored values validated+carriable, node ids 0..255, every withheld/queued/logged command string is the encoding of a carriable validating message, firmware data are bytes) together with Inv holds after every history of op_wire operations (set_child_value with a carriable value and ANY node/child id, update_fw with an image as in C01) from gw_init',
    'C05_logic_keeps_invariant': 'one dispatcher call (ALL handlers incl. the wake-up flush) keeps Inv5 and its reply string encodes a carriable validating message',
    'C05_op_wire_reading': 'op_wire o iff: set_child_value is given a carriable value, update_fw an image as in C01, anything else unrestricted - no condition on node ids',
    'C05_emitted_canonical_valid': 'all histories (any inbound text, both flavours, controller values carriable, set_child_value with ANY node/child id): every ESend string, every queued send job, every withheld string is canonical, decodes to the message it encodes, which validates for the configured version and has node id in 0..255; a withheld string decodes to a message for the node in whose queue it waits (full statement since the library fix of finding D20: is_sensor only asks a node id in range(BROADCAST_ID + 1) to present itself)',
    'C05_replies_validate': 'per version that sends them: presentation request, discover request, reboot order, config reply (M/I), time reply (any clock), id response (any child id, id in 1..254) validate and are carriable',
    'C05_validate_ack_independent': 'validation depends on ack only through ack in {0,1}',
    'C05_prescribed_addressing': 'every prescribed command is addressed to the sender of the inbound message, except the discover request',
    'C05_presentation_request_addressing': 'a presentation request is prescribed only on >=2.0, to the sender, and only if the sender or the child concerned is unknown',
    'C05_reply_addressing': "machine level: every string a call emits (nested or reply) or withholds encodes a prescribed message addressed to the sender (withheld: in the sender's queue) or is the broadcast discover request", 'C05_set_child_value_addressing': "controller call set_child_value in closed form (set_child_commands): presentation request to sid if node/child unknown on >=2.0; nothing while the node sleeps; else the validated command with caller's type/ack; all carry the caller's node id; emitted/withheld split as for replies"}
SCOPE = ["S", "extra"]
MONITORS = ["c05"]


def build_cases(ctx):
    n = ctx.budget(300, 6000)
    cases = scenarios_a.generic_cases(ctx, "c05", n // 2, mqtt_rate=0.15)
    for i in range(n - n // 2):
        rng = ctx.rng("c05d", i)
        cfg = gwcheck.make_cfg(rng)
        cases.append({"id": f"c05d-{ctx.seed}-{ctx.scale}-{i}", "cfg": cfg, "ops": scenarios_a.c05_directed(rng, cfg)})
    for c in cases:
        c["ops"] = scenarios_a.make_carriable(c["ops"])
        c["carriable"] = True
        c["cfg"]["carriable"] = True
    return cases


def emitted_strings(outs):
    """All strings sent or sitting in a hold queue, parsed from rendered implementation outputs."""
    found = set()
    for line in outs:
        comp = gwrun.split_components(line)
        if "raw" in comp:
            continue
        for ev in comp["S"]:
            found.add(ev[1])
        ex = comp["extra"]
        i = 0
        while i < len(ex):
            if ex[i] == "Q":
                i += 1
                while i < len(ex) and ex[i] not in ("X", "D") and ex[i].startswith("s"):
                    found.add(ex[i])
                    i += 1
                while i < len(ex) and ex[i] != "X":      # desired-state tokens
                    i += 1
            else:
                i += 1
    return [dec_str(t) for t in sorted(found)]


def spec_lines(vi, strings):
    """`spec` commands for the emitted strings that decode (undecodable ones are the monitor's business)."""
    from mysensors.message import Message
    lines, kept = [], []
    for s in strings:
        try:
            m = Message(s)
        except ValueError:
            continue
        p = m.payload
        lines.append(f"spec {vi} {m.node_id} {m.child_id} {m.type} {m.ack} {m.sub_type} {enc_str(p)} | {oracles.for_payloads([p])}")
        kept.append((s, m.type, m.sub_type))
    return lines, kept


def spec_check(ctx, items):
    """items: [(case record key, vi, [strings])] -> {key: [(string, type, sub) rejected by the spec]}"""
    import logging
    logging.disable(logging.CRITICAL)
    flat, owner = [], []
    for key, vi, strings in items:
        lines, kept = spec_lines(vi, strings)
        flat += lines
        owner += [(key, k) for k in kept]
    if not flat:
        return {}, 0
    jobs = min(16, os.cpu_count() or 4)
    parts = gwcheck.chunks(flat, jobs)
    with ThreadPoolExecutor(jobs) as tex:
        verdicts = [o for part in tex.map(ctx.model.batch, parts) for o in part]
    bad = {}
    for (key, k), v in zip(owner, verdicts):
        if v.strip() != "1":
            bad.setdefault(key, []).append(k + (v,))
    return bad, len(flat)


# regression corpus of finding D20 (fixed in the library: is_sensor only requests a presentation from a node id in
# range(BROADCAST_ID + 1)): set_child_value with node ids outside 0..255 on >= 2.0 gateways must emit nothing
D20_CORPUS = [
    {"id": "c05-d20-sync", "cfg": {"ver": "2.2", "flavour": "sync", "callback": True, "cb_raises": False, "mqtt": False, "carriable": True},
     "ops": [("recv", "1;255;0;0;17;2.2"), ("pump",), ("setchild", 300, 0, 2, "1", None, None), ("pump",), ("pump",)]},
    {"id": "c05-d20-async", "cfg": {"ver": "2.0", "flavour": "async", "callback": False, "cb_raises": False, "mqtt": False, "carriable": True},
     "ops": [("setchild", -1, 0, 2, "1", None, None), ("setchild", 256, 1, 2, "1", None, 1)]},
]


def run(ctx, res):
    cases = D20_CORPUS + build_cases(ctx)
    if ctx.tier == "thorough" and not ctx.searching:
        # exhaustive small scope: EVERY history of length <= 4 (asyncio) / <= 3 (threaded) over a 12-letter alphabet
        xs = gwcheck.small_scope_cases("c05", 3, flavours=("async", "sync"))
        res.extra["exhaustive_subspaces"] = [f"all {len(xs)} histories of length <= 3 (both flavours, 5 versions) over "
                                             "gwcheck.SMALL_ALPHABET, 5 versions"]
        cases = cases + xs
    # a third of the longer histories: persistence and a clean stop + start in the middle
    import shutil
    from harness.gen import scenarios
    scenarios.with_restarts(ctx, cases, "c05")
    root = scenarios_a.assign_persist(cases, "c05", lambda i, c: c.pop("_fmt", None))
    try:
        recs = gwcheck.run_cases(ctx, res, cases, MONITORS, SCOPE, "c05")
    finally:
        shutil.rmtree(root, ignore_errors=True)
    if ctx.model is not None:
        items = [(i, gwrun.VERSIONS.index(r["case"]["cfg"]["ver"]), emitted_strings(r["impl"])) for i, r in enumerate(recs)]
        bad, n = spec_check(ctx, items)
        res.count("spec-validated-emitted-strings", n)
        for i, lst in bad.items():
            c = recs[i]["case"]
            s, t, sub, v = lst[0]
            key = f"emitted-invalid/{t};{sub}"
            try:
                node = int(s.split(";")[0])
            except ValueError:
                node = 0
            if (t, sub) == (3, 19) and not 0 <= node <= 255:
                # a presentation request to an id outside 0..255 (what set_child_value(<such an id>) caused on a
                # >= 2.0 gateway before the library fix of finding D20; C05_emitted_canonical_valid excludes it,
                # C05_ex_set_child_out_of_range_silent is the former witness): named so that a regression is recognisable
                key = "emitted-invalid/presentation-request-node-out-of-range"
            res.violate(key,
                        f"[{c['id']}] gateway version {c['cfg']['ver']} emitted {s!r}, which the serial API spec rejects ({v})",
                        {"kind": "spec", "cfg": c["cfg"], "ops": c["ops"], "monitors": MONITORS})
    else:
        res.count("spec-validation-skipped(no model runner)")
    for r in recs:
        st = r["stats"]
        prescribed = sum(v for k, v in st.items() if k.startswith("c05:reply-prescribed:"))
        judged = sum(v for k, v in st.items() if k.startswith("c05:judged:"))
        if prescribed >= 2 and judged > prescribed:
            res.nontriv(r["case"]["id"])
    for r in recs[:2] + recs[-2:]:
        res.sample({"cfg": r["case"]["cfg"], "ops": r["case"]["ops"][:8], "n_ops": len(r["case"]["ops"])})


def replay(ctx, case):
    c = case["case"] if "case" in case else case
    out = gwcheck.replay_case(ctx, c)
    if ctx.model is not None:
        outs, _, _ = gwcheck.impl_case(dict(c, monitors=[]))
        bad, n = spec_check(ctx, [(0, gwrun.VERSIONS.index(c["cfg"]["ver"]), emitted_strings(outs))])
        out["spec_validated"] = n
        out["spec_rejects"] = bad.get(0, [])
        out["violates"] = out["violates"] or bool(bad)
    return out
