"""C05 - every reply is the prescribed one, well-formed and correctly addressed."""
import os
from concurrent.futures import ThreadPoolExecutor

from harness import gwcheck, oracles
from harness.core import enc_str, dec_str
from harness.gen import scenarios_a
from harness.impl import gwrun

ID = "C05"
PROP_FILE = "C05.v"
TRANSLATORS = ["unicode_tables", "tables"]
RULE = ("half grammar-generated histories restricted to the property's scope (controller values without ';', line breaks, "
        "trailing white space; inbound lines without embedded line feed), half directed request/reply scenarios (report "
        "then request, requests for unreported types, config with metric toggles, time under arbitrary clocks, id "
        "requests, gateway-ready, every node/child-needing handler from unknown nodes and children, smart-sleeping nodes "
        "with withheld replies and pending desired values, reboot and firmware traffic) over 5 versions x threaded/asyncio "
        "x plain/MQTT. The monitor computes the prescribed multiset of replies per processed line (incl. its nested jobs) "
        "and checks every emitted string for canonical form and addressee; every emitted string (sent or withheld) is "
        "also validated by the extracted serial API spec (independent of Message.validate). "
        "non-trivial = distinct history with at least 2 lines that have a prescribed reply and at least one with silence")
ASSUMPTIONS = ["which inbound lines are accepted is decided by the library's decoder+validator (C02/C03)",
               "local time is the harness clock (calendar.timegm patched), arbitrary per history",
               "firmware responses and reboot commands are only recognised and allowed here; their content is C09/C10",
               "commands released when a node wakes up are only allowed here; that they are the right ones is C08",
               "the ack flag of the set that answers a value request is not prescribed by the text (the library echoes the request's flag)"]
THEOREMS_DOC = {}
SCOPE = ["S", "extra"]
MONITORS = ["c05"]


def build_cases(ctx):
    n = ctx.budget(300, 6000)
    cases = scenarios_a.generic_cases(ctx, "c05", n // 2, mqtt_rate=0.15)
    for i in range(n - n // 2):
        rng = ctx.rng("c05d", i)
        cfg = gwcheck.make_cfg(rng)
        cases.append({"id": f"c05d-{ctx.seed}-{ctx.scale}-{i}", "cfg": cfg, "ops": scenarios_a.c05_directed(rng, cfg)})
    for c in cases:
        c["ops"] = scenarios_a.make_carriable(c["ops"])
        c["carriable"] = True
        c["cfg"]["carriable"] = True
    return cases


def emitted_strings(outs):
    """All strings sent or sitting in a hold queue, parsed from rendered implementation outputs."""
    found = set()
    for line in outs:
        comp = gwrun.split_components(line)
        if "raw" in comp:
            continue
        for ev in comp["S"]:
            found.add(ev[1])
        ex = comp["extra"]
        i = 0
        while i < len(ex):
            if ex[i] == "Q":
                i += 1
                while i < len(ex) and ex[i] not in ("X", "D") and ex[i].startswith("s"):
                    found.add(ex[i])
                    i += 1
                while i < len(ex) and ex[i] != "X":      # desired-state tokens
                    i += 1
            else:
                i += 1
    return [dec_str(t) for t in sorted(found)]


def spec_lines(vi, strings):
    """`spec` commands for the emitted strings that decode (undecodable ones are the monitor's business)."""
    from mysensors.message import Message
    lines, kept = [], []
    for s in strings:
        try:
            m = Message(s)
        except ValueError:
            continue
        p = m.payload
        lines.append(f"spec {vi} {m.node_id} {m.child_id} {m.type} {m.ack} {m.sub_type} {enc_str(p)} | {oracles.for_payloads([p])}")
        kept.append((s, m.type, m.sub_type))
    return lines, kept


def spec_check(ctx, items):
    """items: [(case record key, vi, [strings])] -> {key: [(string, type, sub) rejected by the spec]}"""
    import logging
    logging.disable(logging.CRITICAL)
    flat, owner = [], []
    for key, vi, strings in items:
        lines, kept = spec_lines(vi, strings)
        flat += lines
        owner += [(key, k) for k in kept]
    if not flat:
        return {}, 0
    jobs = min(16, os.cpu_count() or 4)
    parts = gwcheck.chunks(flat, jobs)
    with ThreadPoolExecutor(jobs) as tex:
        verdicts = [o for part in tex.map(ctx.model.batch, parts) for o in part]
    bad = {}
    for (key, k), v in zip(owner, verdicts):
        if v.strip() != "1":
            bad.setdefault(key, []).append(k + (v,))
    return bad, len(flat)


def run(ctx, res):
    cases = build_cases(ctx)
    recs = gwcheck.run_cases(ctx, res, cases, MONITORS, SCOPE, "c05")
    if ctx.model is not None:
        items = [(i, gwrun.VERSIONS.index(r["case"]["cfg"]["ver"]), emitted_strings(r["impl"])) for i, r in enumerate(recs)]
        bad, n = spec_check(ctx, items)
        res.count("spec-validated-emitted-strings", n)
        for i, lst in bad.items():
            c = recs[i]["case"]
            s, t, sub, v = lst[0]
            res.violate(f"emitted-invalid/{t};{sub}",
                        f"[{c['id']}] gateway version {c['cfg']['ver']} emitted {s!r}, which the serial API spec rejects ({v})",
                        {"kind": "spec", "cfg": c["cfg"], "ops": c["ops"], "monitors": MONITORS})
    else:
        res.count("spec-validation-skipped(no model runner)")
    for r in recs:
        st = r["stats"]
        prescribed = sum(v for k, v in st.items() if k.startswith("c05:reply-prescribed:"))
        judged = sum(v for k, v in st.items() if k.startswith("c05:judged:"))
        if prescribed >= 2 and judged > prescribed:
            res.nontriv(r["case"]["id"])
    for r in recs[:2] + recs[-2:]:
        res.sample({"cfg": r["case"]["cfg"], "ops": r["case"]["ops"][:8], "n_ops": len(r["case"]["ops"])})


def replay(ctx, case):
    c = case["case"] if "case" in case else case
    out = gwcheck.replay_case(ctx, c)
    if ctx.model is not None:
        outs, _, _ = gwcheck.impl_case(dict(c, monitors=[]))
        bad, n = spec_check(ctx, [(0, gwrun.VERSIONS.index(c["cfg"]["ver"]), emitted_strings(outs))])
        out["spec_validated"] = n
        out["spec_rejects"] = bad.get(0, [])
        out["violates"] = out["violates"] or bool(bad)
    return out
