"""C07 - nothing is sent to a sleeping node outside its wake window."""
from harness import gwcheck
from harness.gen import scenarios

ID = "C07"
PROP_FILE = "C07.v"
SOFT_PINS = "core"
TRANSLATORS = ["unicode_tables", "tables"]
RULE = ("70% directed smart-sleep scenarios (harness/gen/scenarios.sleep_history: 2-3 nodes of presented version never / 1.4 / "
        "1.5.1 / = gateway / 2.3 on a 2.0, 2.1 or 2.2 gateway, early wake-up announcements, then 20-60 ops interleaving controller "
        "sets, reports, value requests, late children, presentation requests for unknown children, reboot requests, firmware "
        "requests, repeated wake-ups, other nodes' traffic and - threaded flavour - pumps at random positions) + 30% histories of "
        "the generic grammar restricted to 2.0-2.2; threaded/asyncio x plain/MQTT transport; replayed on the real gateway under "
        "the monitor c07 and on the extracted model; non-trivial = distinct history in which at least one string was withheld "
        "for a sleeping node, at least one string left in a wake-up burst and at least one string left for another, awake node "
        "while some node slept")
RULE += ' MONITORS ONLY: harness/impl/wire.py - the real Transport.send and line protocol over a recording writer, the link lost and made again around a wake-up (128 variants: flavour x version x held commands x loss point x cause): nothing for the sleeping node reaches the wire when the connection is back.'
ASSUMPTIONS = ["'sleeping' is read as `sensor.is_smart_sleep_node` before the line is processed (asyncio) / when the send job "
               "was enqueued (threaded flavour, followed by monitors.Tracker)",
               "node 0 (the gateway itself, target of the TCP watchdog probe) never announces smart sleep",
               "float(), awesomeversion are oracles fed with the library's real verdicts"]
THEOREMS_DOC = {
    'C07_line_header': "node id / command of encode m (first / third ';' field) are m_node m / m_type m for EVERY message, whatever its payload", 'C07_wake_announcements': 'the dispatcher reaches handle_heartbeat_response / handle_pre_sleep_notification exactly for internal sub-type 22 (2.0, 2.1) / 32 (2.2), never in 1.4/1.5 (finite check of the generated registry)',
    'C07_reachable_invariants': 'every reachable state (5 configurations, any history of lines, pumps, controller calls) satisfies Inv, QInv (withheld strings are addressed to the node holding them), CInv (children keyed by id)',
    'C07_route_withholds': "a non-stream, non-presentation message for a known sleeping node is not returned: encode m is appended at the END of that node's queue, every other node and field identical", 'C07_route_passes': 'unknown node, node not sleeping, or stream message: returned, state untouched',
    'C07_route_drops_presentation': 'a message of presentation type is never returned by routing',
    'C07_others_not_delayed': 'routing changes no node except the addressee, and the addressee only when it sleeps',
    'C07_logic_sends_to_sleeping_only_on_wake': "one dispatcher call, both flavours: every string sent, queued as send job or returned as reply that is addressed to a node sleeping before the call is of stream type or the line is that node's wake-up announcement", 'C07_step_sends_to_sleeping_only_on_wake': 'every history, any next step: what the step hands to the transport is an earlier queued send job or obeys the rule; what it queues is the arriving line or a send obeying the rule',
    'C07_queued_sends_have_allowed_origin': "threaded flavour, whole histories (erasable ghost of enqueue state/cause): every waiting send job addressed to a node that slept when it was queued is a stream response or part of that node's wake-up burst", 'C07_set_child_value_sleeping_silent': 'set_child_value on a sleeping node queues, logs and sends nothing; it only stores the desired value',
    'C07_release_only_on_wake': "in every step every hold queue is prefix-extended, except in the step processing that node's own wake-up announcement", 'C07_logic_release_only_on_wake': 'the same for one dispatcher call',
    'C07_sleeping_changes_only_on_wake': 'a node never stops sleeping and starts only in the step processing its own announcement'}
SCOPE = ["S", "extra", "jobs"]


def run(ctx, res):
    n = ctx.budget(300, 6000)
    nd = n * 7 // 10
    # six short directed histories first: gwcheck re-evaluates the first six sessions inside Coq (vm_compute), which is slow
    cases = scenarios.directed_cases(ctx, "c07x", 6, scenarios.sleep_history, scenarios.SLEEP_VERSIONS, length=(10, 16))
    cases += scenarios.corpus_cases(ID)
    cases += scenarios.directed_cases(ctx, "c07s", nd - len(cases), scenarios.sleep_history, scenarios.SLEEP_VERSIONS)
    cases += gwcheck.gen_cases(ctx, "c07g", n - nd, length=(20, 60), versions=scenarios.SLEEP_VERSIONS)
    # a third of the histories: persistence and a clean stop + start in the middle (pickle stores more than json)
    import shutil
    from harness.gen import scenarios_a
    scenarios.with_restarts(ctx, cases, "c07")
    root = scenarios_a.assign_persist(cases, "c07", lambda i, c: c.pop("_fmt", None))
    run_wire(ctx, res)
    try:
        recs = gwcheck.run_cases(ctx, res, cases, ["c07"], SCOPE, "c07")
    finally:
        shutil.rmtree(root, ignore_errors=True)
    reach = {"withheld": 0, "burst": 0, "stream_to_sleeper": 0, "ends_with_sleeper": 0, "awake_while_sleep": 0}
    for r in recs:
        st = r["stats"]
        w, b = st.get("c07:withheld", 0), st.get("c07:sent:in-wake-burst", 0)
        o = st.get("c07:sent:to-awake-node/while-others-sleep", 0)
        reach["withheld"] += bool(w)
        reach["burst"] += bool(b)
        reach["awake_while_sleep"] += bool(o)
        reach["stream_to_sleeper"] += bool(st.get("c07:sent:stream-to-sleeping"))
        reach["ends_with_sleeper"] += bool(st.get("c07:history-ends-with-sleeper"))
        if w and b and o:
            res.nontriv(r["case"]["id"])
    res.extra["histories_reaching"] = reach
    for r in recs[:2] + recs[-1:]:
        res.sample({"id": r["case"]["id"], "cfg": r["case"]["cfg"], "ops": r["case"]["ops"][:10], "n_ops": len(r["case"]["ops"])})


def run_wire(ctx, res):
    """The release rule at the wire (real Transport.send and line protocol, link lost and made again around a wake-up):
    harness/impl/wire.py.  Fixed family of variants (both flavours x 4 versions x held commands x loss point x cause)."""
    from harness.impl import wire
    n = reached = 0
    for v in wire.VARIANTS:
        try:
            o = wire.run_variant(v)
        except Exception as exc:          # the history itself could not be played
            res.violate("wire/harness", f"wire variant {v}: {type(exc).__name__}: {exc}", {"kind": "wire", "variant": list(v)},
                        kind="harness", found_input=False)
            continue
        n += 1
        res.evaluations += 1
        reached += bool(o["window"])
        for key, what in wire.judge(o):
            res.violate("wire/" + key, f"{v}: {what}", {"kind": "wire", "variant": list(v), "wire": o["wire"]})
    res.count("wire-reconnect-variants", n)
    res.extra["wire_reconnect"] = {"variants": n, "variants_where_a_later_wake_window_released_commands": reached}


def replay(ctx, case):
    c0 = case["case"] if "case" in case else case
    if c0.get("kind") == "wire":
        from harness.impl import wire
        o = wire.run_variant(tuple(c0["variant"]))
        j = wire.judge(o)
        return {"variant": c0["variant"], "wire": o["wire"], "judgement": j, "violates": bool(j)}
    if c0["cfg"].get("persist"):
        import shutil
        from harness.gen import scenarios_a
        c, root = scenarios_a.relocated(c0, "c07")
        try:
            return gwcheck.replay_case(ctx, c)
        finally:
            shutil.rmtree(root, ignore_errors=True)
    return gwcheck.replay_case(ctx, case)
