"""C06 - node ids are never handed out twice."""
import shutil

from harness import gwcheck
from harness.gen import scenarios_a

ID = "C06"
PROP_FILE = "C06.v"
SOFT_PINS = "core"
TRANSLATORS = ["unicode_tables", "tables"]
RULE = ("40% grammar-generated histories with periodic save ticks and stop/restart cycles sprinkled in, 60% directed ones "
        "(present-save-request-restart-request - in 40% of these the id request is handled WHILE the periodic save is in "
        "progress (op save_during, model = save tick then request) -, jumps by presenting 200/253/254/255/0, exhaustion near 254, requests from "
        "node ids other than 255 incl. smart-sleeping requesters, long runs of requests, mixed traffic) over 5 versions x "
        "threaded/asyncio x plain/MQTT; 80% with persistence (half JSON, half pickle; restarts only there). The monitor "
        "watches every sent or withheld id response over the whole history incl. restarts. "
        "non-trivial = distinct history with at least one id response")
RULE += ' MONITORS ONLY: harness/impl/slowsave.py - an id request answered while a scheduled save is still being written in its own thread, stop(), restart (real threads, 12 variants).'
ASSUMPTIONS = ["a clean stop and restart = stop(), a new gateway object with the same configuration, start_persistence() "
               "(threading.Timer replaced by an inert fake; asyncio flavour: load + one save inline)",
               "the text demands silence when no id can be allocated; it does not demand an answer whenever one could be "
               "(the library stops at max(known)+1 > 254 although lower ids may be free): counted, not judged"]
THEOREMS_DOC = {
    'C06_id_response_fresh': 'an id response carries print nid with 1<=nid<=254, nid unknown before, known after, above every known id; the node is appended at once',
    'C06_logic_id_request': 'through the dispatcher an accepted id request runs handle_id_request on the current state, then only routes the reply',
    'C06_keys_in_range': 'every reachable state has node ids in 0..255',
    'C06_keys_monotone': 'no step of any history removes a known node id',
    'C06_id_of_line_sound': 'the ghost id of a line is the payload of the id response handle_id_request builds',
    'C06_id_of_line_complete': 'no ghost id on an accepted id request means handle_id_request answers nothing and changes nothing',
    'C06_ids_never_twice': 'over all histories with saves and (persistent) restarts the ids handed out are pairwise distinct, strictly increasing, in 1..254',
    'C06_id_fresh_in_history': 'in every reachable state the next id handed out is in 1..254, unknown before, above all known ids, known afterwards',
    'C06_exhaustion_silent': 'a known id >= 254 makes handle_id_request return the unchanged state and no response',
    'C06_exhaustion_silent_logic': '... and the dispatcher then returns the unchanged state and no reply',
    'C06_restart_keeps_reservations': 'with persistence a clean stop/restart keeps the whole list of known/reserved ids'}
SCOPE = ["S:idresp", "tree:nodes"]
MONITORS = ["c06"]


def build_cases(ctx):
    n = ctx.budget(300, 6000)
    ng = (n * 2) // 5
    cases = scenarios_a.generic_cases(ctx, "c06", ng, mqtt_rate=0.15)
    for i, c in enumerate(cases):
        c["_persist"] = ctx.rng("c06p", i).random() < 0.8
        if c["_persist"]:
            c["ops"] = scenarios_a.sprinkle_persistence(ctx.rng("c06s", i), c["ops"])
    for i in range(n - ng):
        rng = ctx.rng("c06d", i)
        cfg = gwcheck.make_cfg(rng)
        persist = rng.random() < 0.8
        cfg["persist"] = persist
        if i % 15 == 4:          # a periodic save that fails in the pickle serialiser after an id was handed out
            cfg["ver"] = "2.2"
            cfg.pop("spell", None)
            cfg["persist"] = True
            cases.append({"id": f"c06d-{ctx.seed}-{ctx.scale}-{i}", "cfg": cfg, "_persist": True, "_fmt": "pickle",
                          "ops": scenarios_a.c06_failed_save(scenarios_a.Hist(rng, cfg))})
            continue
        cases.append({"id": f"c06d-{ctx.seed}-{ctx.scale}-{i}", "cfg": cfg, "ops": scenarios_a.c06_directed(rng, cfg),
                      "_persist": persist})
    return cases


def run(ctx, res):
    cases = build_cases(ctx)
    root = scenarios_a.assign_persist(cases, "c06", lambda i, c: ((c.pop("_fmt", None) or ["json", "pickle"][i % 2]) if c.pop("_persist") else None))
    from harness.impl import slowsave
    slowsave.run_all(res, ID, thorough=(ctx.tier == "thorough"))       # a scheduled save still being written (own thread) when stop() is called: real threads
    try:
        recs = gwcheck.run_cases(ctx, res, cases, MONITORS, SCOPE, "c06")
    finally:
        shutil.rmtree(root, ignore_errors=True)
    for r in recs:
        if r["stats"].get("c06:id-response", 0) >= 1:
            res.nontriv(r["case"]["id"])
        p = r["case"]["cfg"].get("persist")
        res.count("persistence:" + (p.rsplit(".", 1)[1] if p else "off"))
    res.extra["ops_handled_while_a_periodic_save_was_in_progress"] = sum(
        1 for r in recs for o in r["case"]["ops"] if tuple(o)[0] == "save_during")
    for r in recs[:2] + recs[-2:]:
        res.sample({"cfg": r["case"]["cfg"], "ops": r["case"]["ops"][:8], "n_ops": len(r["case"]["ops"])})


def replay(ctx, case):
    c0 = case["case"] if "case" in case else case
    if c0.get("kind") == "slow-save":
        from harness.impl import slowsave
        return slowsave.replay(c0, ID)
    c, root = scenarios_a.relocated(case["case"] if "case" in case else case, "c06")
    try:
        return gwcheck.replay_case(ctx, c)
    finally:
        shutil.rmtree(root, ignore_errors=True)
