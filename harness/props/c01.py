"""C01 - the message pump cannot be crashed or tricked by input."""
from harness import gwcheck
from harness.impl import gwrun

ID = "C01"
PROP_FILE = "C01.v"
SOFT_PINS = "core"
TRANSLATORS = ["unicode_tables", "tables"]
RULE = ("grammar-generated histories (10-40 ops: inbound lines of every handler kind for 1-4 nodes, malformed stream, "
        "set_child_value / update_fw calls, pumps) over 5 versions x threaded/asyncio x plain/MQTT transport, replayed on the "
        "real gateway and on the extracted model; non-trivial = distinct history in which at least one line was accepted "
        "and at least one was rejected.  Plus 8 two-thread scenarios (a controller call in one thread, the pump handling a "
        "queued line in another): every interleaving at source-line granularity up to 1 (quick) / 2 (thorough) preemptions")
RULE += ' MONITORS ONLY (no model): every 12th history runs with an event callback that answers value reports by calling set_child_value from INSIDE the callback (a pump that blocks on itself is interrupted by a watchdog alarm and reported).'
ASSUMPTIONS = ["a dying poll thread is represented by an exception escaping Tasks.run_job / transport.send",
               "float(), awesomeversion are oracles fed with the library's real verdicts"]
THEOREMS_DOC = {
    "C01_decode_only_valueerror": "decode is total into option (ValueError is the only failure)",
    "C01_rejected_is_noop": "a line that does not decode or validate leaves the whole state unchanged, no reply, no event",
    "C01_pump_total": "for all 5 configurations, oracles, histories of lines/pumps/controller calls, both flavours: logic never raises on any next or queued line",
    "C01_reachable_invariant": "the invariant (desired values validated, OTA words in range, node ids = keys) holds in every reachable state",
    "C01_liveness_probe": "a config request from a node that is not held back is answered with M/I",
}
SCOPE = ["R"]


def run(ctx, res):
    from harness.gen import scenarios
    from harness.gen.histories import VERSIONS
    cases = (scenarios.directed_cases(ctx, "c01x", 6, scenarios.sleep_history, scenarios.SLEEP_VERSIONS, length=(10, 16))
             + scenarios.corpus_cases("C08") + scenarios.corpus_cases("C10")
             + scenarios.directed_cases(ctx, "c01s", ctx.budget(120, 2500), scenarios.sleep_history, scenarios.SLEEP_VERSIONS)
             + scenarios.directed_cases(ctx, "c01o", ctx.budget(80, 1500), scenarios.ota_history, VERSIONS)
             + gwcheck.gen_cases(ctx, "c01", ctx.budget(200, 4000), mqtt_rate=0.25))
    run_ctl_races(ctx, res)
    for i, c in enumerate(cases):
        # every 12th history: the event callback answers value reports by calling set_child_value from inside the
        # callback (monitors only - the sequential model has no controller call in the middle of a handler)
        if i % 12 == 7 and c["cfg"].get("callback", True) and not c["cfg"].get("mqtt"):
            c["cfg"]["cb_reenters"] = True
    recs = gwcheck.run_cases(ctx, res, cases, ["c01"], SCOPE, "c01")
    for r in recs:
        st = r["stats"]
        if st.get("c01:line:accepted") and st.get("c01:line:rejected"):
            res.nontriv(r["case"]["id"])
    # Independent judge of "not valid for the configured protocol version": the extracted hand-written serial
    # API spec (Spec/SerialApi.v, proved equal to the modelled validation in C03) - NOT the implementation's
    # own validator, which a defect may have corrupted.  A line it rejects must have had no effect.
    if ctx.model is not None:
        from harness.props import c05
        items = [(i, gwrun.VERSIONS.index(r["case"]["cfg"]["ver"]), r["stats"].get("__notes__", {}).get("c01", []))
                 for i, r in enumerate(recs)]
        bad, n = c05.spec_check(ctx, [it for it in items if it[2]])
        res.count("spec-judged-effective-lines", n)
        for i, rej in bad.items():
            c = recs[i]["case"]
            line = rej[0][0]
            res.violate("invalid-line-has-effect/by-spec",
                        f"[{c['id']}] gateway version {c['cfg']['ver']}: line {line!r} is not valid for that version "
                        f"(serial API spec) but had an effect (reply, event or state change)",
                        {"cfg": c["cfg"], "ops": c["ops"], "monitors": ["c01"], "line": line})
    for r in recs[:3]:
        res.sample({"cfg": r["case"]["cfg"], "ops": r["case"]["ops"][:8], "n_ops": len(r["case"]["ops"])})


def _race_task(task):
    import logging
    logging.disable(logging.CRITICAL)
    from harness.impl import ctlrace, sched
    i, bound, limit = task
    sc = ctlrace.SCENARIOS[i]
    n, calls_ok, bad = 0, 0, None
    try:
        for choices, trace, o in ctlrace.explore(sc, bound, limit=limit):
            n += 1
            calls_ok += o["call"] is None
            if o["pump"] and bad is None:
                bad = (choices, o)
    except sched.HarnessError as exc:
        return i, n, calls_ok, None, f"HarnessError: {exc}"
    return i, n, calls_ok, bad, None


def run_ctl_races(ctx, res):
    """Controller call in one thread, the pump handling a line in another: every interleaving at source-line
    granularity up to the tier's preemption bound (harness/impl/ctlrace.py)."""
    from concurrent.futures import ProcessPoolExecutor
    from harness.impl import ctlrace
    bound = 1 if ctx.tier == "quick" else 2
    limit = None if ctx.tier == "quick" else 6000 * ctx.scale
    tasks = [(i, bound, limit) for i in range(len(ctlrace.SCENARIOS))]
    total = 0
    with ProcessPoolExecutor(min(8, len(tasks))) as ex:
        for i, n, calls_ok, bad, herr in ex.map(_race_task, tasks):
            name = ctlrace.SCENARIOS[i][0]
            total += n
            res.evaluations += n
            res.count("ctl-race:" + name, n)
            if n and calls_ok:
                res.nontriv(("ctl-race", name))
            if herr:
                res.violate("ctl-race/harness", f"{name}: {herr}", {"kind": "ctl-race", "scenario": i}, kind="harness",
                            found_input=False)
            if bad:
                choices, o = bad
                res.violate("pump-raises/concurrent-controller-call",
                            f"{name}: the poll thread raised {o['pump']} while the controller call "
                            f"{ctlrace.SCENARIOS[i][3]!r} ran concurrently (it returned normally: {o['call'] is None})",
                            {"kind": "ctl-race", "scenario": i, "name": name, "choices": choices})
    res.extra.setdefault("schedules_explored", {})["controller_call_vs_pump_line_level_bound_%d" % bound] = total


def replay(ctx, case):
    c0 = case["case"] if "case" in case else case
    if c0.get("kind") == "ctl-race":
        from harness.impl import ctlrace
        choices, trace, o = ctlrace.replay(ctlrace.SCENARIOS[c0["scenario"]], c0["choices"])
        return {"scenario": c0.get("name"), "observation": o, "violates": bool(o["pump"])}
    out = gwcheck.replay_case(ctx, case)
    c = case["case"] if "case" in case else case
    if ctx.model is not None:
        from harness.props import c05
        _outs, _viol, stats = gwcheck.impl_case(dict(c, monitors=["c01"]))
        bad, n = c05.spec_check(ctx, [(0, gwrun.VERSIONS.index(c["cfg"]["ver"]), stats.get("__notes__", {}).get("c01", []))])
        out["effective_lines_judged_by_the_spec"] = n
        out["effective_lines_the_spec_rejects"] = [b[0] for b in bad.get(0, [])]
        out["violates"] = bool(out["violates"] or bad)
    return out
