"""C13 - start-up survives damaged persistence files.

Tie of Props/C13.v to mysensors/persistence.py:
 (a) Gen/SaveTrace.v (load program, the two caught tuples, live MROs) and Gen/DamageClasses.v (measured decoder
     failure classes) are regenerated on every run; `damage classes <= caught tuples` is a Coq obligation;
 (b) for every generated state and format: the file written by the real save_sensors, truncated at EVERY length
     0..len-1 and zero-filled (plus missing / intact), x backup in {absent, intact, damaged the same ways at sampled
     offsets}: a fresh real gateway runs safe_load_sensors; exception, loaded network and the files left behind are
     compared with the extracted model (whose input is the class the real decoder raises on exactly these bytes);
 monitor: no exception; the loaded network is exactly main's if main is intact, else exactly the backup's if that is
 intact, else empty; on a sample the next save + load round-trips."""
import os
import shutil
from concurrent.futures import ProcessPoolExecutor

from harness import core
from harness.core import enc_str
from harness.impl import fsfault as F

ID = "C13"
PROP_FILE = "C13.v"
RUNNER = "Fs"
TRANSLATORS = ["savetrace", "damage_classes"]
RULE = ("cases = (format, generated network, damage of the main file: every truncation length 0..len-1 | zero-fill | "
        "missing | intact, backup: absent | intact | truncated at 0,1,len/2,len-1 and 3 random offsets | zero-filled). "
        "non-trivial = distinct case with a damaged or missing main file")
ASSUMPTIONS = [
    "on damaged bytes the real json / pickle decoders raise only the classes measured on this run "
    "(Gen/DamageClasses.v: every truncation and the zero-fill of real files) - measured, not proved (C code); it is the "
    "premise class_ok of the theorems",
    "damage = truncation at any byte or zero-fill of a file written by save_sensors (not arbitrary bit flips: a flipped "
    "byte can yield a different VALID file, which no loader can detect without a checksum)",
    "files that exist are readable (os.access R_OK true); no OSError during start-up",
]
TRUSTED = [
    "harness/translate/savetrace.py, harness/translate/damage_classes.py, harness/impl/fsfault.py",
]
THEOREMS_DOC = {
    "C13_safe_load_total": "forall format, main/backup/temp in {missing, good s, damaged with a measured class}: safe_load returns "
                           "normally and applied exactly [main's] | [backup's] | [] (never two updates)",
    "C13_after_load_consistent": "after safe_load the next save (any number of writes) completes and a start-up loads it",
    "C13_damage_classes_caught": "every measured decoder failure class is caught by both handlers (MRO-aware)",
    "C13_damage_detected": "no damaged file decoded without an exception",
}

FMTS = ("json", "pickle")
NEXT_DELTA = ["9;255;0;0;17;2.2", "9;3;0;0;6;nx", "9;3;1;0;0;1.5"]


def states(ctx):
    rng = ctx.rng("c13", "states")
    n = ctx.budget(4, 40)
    out = [(F.BASE_LINES, ["5;255;0;0;17;2.0", "5;1;0;0;6;backup state"]), ([], ["5;255;0;0;17;2.0"])]
    while len(out) < n:
        big = ctx.tier == "thorough" and rng.random() < 0.3
        out.append((F.gen_state(rng, None if big else rng.randint(1, 2)), F.gen_state(rng, 1)))
    return out[:n]


def damages(data, rng, full):
    """[(spec, bytes or None)]"""
    n = len(data)
    if full:
        offs = list(range(n))
    else:
        offs = sorted({0, 1, n // 2, n - 1} | {rng.randrange(n) for _ in range(3)})
        offs = [o for o in offs if 0 <= o < n]
    out = [({"kind": "trunc", "offset": o}, data[:o]) for o in offs]
    out.append(({"kind": "zero"}, bytes(n)))
    return out


def decode_class(p, blob):
    """Class the real decoder raises on blob (None = loads)."""
    F.write_file(p["Main"], blob)
    gw = F.new_gateway(p["Main"])
    try:
        gw.tasks.persistence._perform_file_action(p["Main"], "load")
    except Exception as exc:  # noqa
        return F.qualname(type(exc))
    finally:
        os.remove(p["Main"])
    return None


def one_load(p, mblob, bblob, with_again):
    for n in ("Main", "Bak", "Tmp"):
        if F.REAL["isfile"](p[n]):
            os.remove(p[n])
    if mblob is not None:
        F.write_file(p["Main"], mblob)
    if bblob is not None:
        F.write_file(p["Bak"], bblob)
    exc, proj, gw = F.safe_load(p["Main"])
    shape = ("1" if F.REAL["isfile"](p["Main"]) else "0") + ("1" if F.REAL["isfile"](p["Bak"]) else "0")
    ag = None
    if with_again and exc is None:
        F.populate(gw, NEXT_DELTA)
        want = F.projection(gw)
        try:
            gw.tasks.persistence.save_sensors()
            st = "done"
        except Exception as e:  # noqa
            st = "raised:" + F.qualname(type(e))
        e2, proj2, _ = F.safe_load(p["Main"])
        ag = [st, gw.tasks.persistence.need_save, e2 is None and proj2 == want]
    return exc, proj, shape, ag


def work(task):
    """One (format, state, backup variant): all main damages. Returns compact observations."""
    fmt, root, idx = task["fmt"], task["root"], task["idx"]
    d = os.path.join(root, "t%d" % idx)
    shutil.rmtree(d, ignore_errors=True)
    os.makedirs(d)
    try:
        p = F.paths_for(d, fmt)
        bblob = task["bak_blob"]
        bcls = None
        if bblob is not None and task["bak_spec"]["kind"] != "intact":
            bcls = decode_class(p, bblob)
        out = []
        n = len(task["main_variants"])
        sample = {0, 1, n // 2, n - 3, n - 2, n - 1}
        for j, (spec, mblob) in enumerate(task["main_variants"]):
            mcls = None
            if mblob is not None and spec["kind"] != "intact":
                mcls = decode_class(p, mblob)
            exc, proj, shape, ag = one_load(p, mblob, bblob, j in sample)
            got = [n for n, pr in (("main", task["main_proj"]), ("bak", task["bak_proj"]), ("empty", F.EMPTY)) if proj == pr]
            got = got or ["other"]
            out.append({"spec": spec, "mcls": mcls, "bcls": bcls, "exc": exc, "got": got, "shape": shape, "again": ag})
        return out
    finally:
        shutil.rmtree(d, ignore_errors=True)


def expected(spec, bak_spec, mcls, bcls):
    """The property: main's if main intact, else backup's if intact, else empty."""
    if spec["kind"] == "intact":
        return "main"
    if bak_spec["kind"] == "intact":
        return "bak"
    return "empty"


def class_tok(spec, cls, good):
    if spec["kind"] in ("missing", "absent"):
        return "m"
    if spec["kind"] == "intact":
        return good
    if cls is None:
        return good          # damaged file that decodes: the monitor reports it
    return "b" + enc_str(cls)


def run(ctx, res):
    root = str(F.scratch_root())
    try:
        _run(ctx, res, root)
    finally:
        F.cleanup_scratch()


def build_tasks(ctx, root):
    tasks = []
    for fmt in FMTS:
        for si, (mlines, blines) in enumerate(states(ctx)):
            prep = os.path.join(root, "prep")
            mdata, mproj = F.saved_bytes(prep, fmt, mlines)
            bdata, bproj = F.saved_bytes(prep, fmt, blines)
            rng = ctx.rng("c13", fmt, si)
            main_variants = [({"kind": "missing"}, None), ({"kind": "intact"}, mdata)] + damages(mdata, rng, True)
            bak_variants = [({"kind": "absent"}, None), ({"kind": "intact"}, bdata)] + damages(bdata, rng, False)
            for bspec, bblob in bak_variants:
                tasks.append({"fmt": fmt, "si": si, "root": root, "idx": len(tasks), "main_lines": mlines, "bak_lines": blines,
                              "main_proj": mproj, "bak_proj": bproj, "main_variants": main_variants,
                              "bak_spec": bspec, "bak_blob": bblob, "main_len": len(mdata)})
    return tasks


def check_obs(task, o):
    """Monitor for one observation -> list of (key, what)."""
    bad = []
    spec, bspec = o["spec"], task["bak_spec"]
    where = f"{task['fmt']} main={spec} (len {task['main_len']}) backup={bspec}"
    if o["exc"] is not None:
        bad.append((f"load/raises-{o['exc']}", f"safe_load_sensors raised {o['exc']}: {where}"))
        return bad
    want = expected(spec, bspec, o["mcls"], o["bcls"])
    if want not in o["got"]:
        kind = "merge-or-partial" if o["got"] == ["other"] else f"loads-{o['got'][0]}-instead-of-{want}"
        bad.append((f"load/{kind}", f"start-up loaded {o['got']} state, expected {want}: {where}"))
    if o["again"] is not None and (o["again"][0] != "done" or o["again"][1] or not o["again"][2]):
        bad.append(("load/next-save", f"after start-up the next save+load fails {o['again']}: {where}"))
    return bad


def case_of(task, o, blob):
    return {"fmt": task["fmt"], "main_lines": task["main_lines"], "bak_lines": task["bak_lines"], "main": o["spec"],
            "bak": task["bak_spec"], "main_file_len": task["main_len"],
            "main_bytes_hex": None if blob is None else blob.hex(),
            "bak_bytes_hex": None if task["bak_blob"] is None else task["bak_blob"].hex()}


def _run(ctx, res, root):
    tasks = build_tasks(ctx, root)
    with ProcessPoolExecutor(max_workers=min(16, os.cpu_count() or 4)) as ex:
        results = list(ex.map(work, tasks, chunksize=1))
    info = {}
    for fmt in FMTS:
        prep = os.path.join(root, "prep")
        os.makedirs(prep, exist_ok=True)
        p = F.paths_for(prep, fmt)
        info[fmt] = (decode_class(p, b"x") or "ValueError", decode_class(p, b"") or "ValueError")
    lines = {}
    nviol = 0
    for task, obs in zip(tasks, results):
        for (spec, blob), o in zip(task["main_variants"], obs):
            res.evaluations += 1
            res.count(f"main/{spec['kind']}")
            res.count(f"bak/{task['bak_spec']['kind']}")
            res.count(f"class/{o['mcls']}")
            if spec["kind"] != "intact":
                res.nontriv((task["fmt"], task["si"], str(spec), str(task["bak_spec"])))
            bad = check_obs(task, o)
            for key, what in bad:
                if nviol < 50:
                    res.violate(key, what, case_of(task, o, blob), kind="monitor", found_input=True)
                nviol += 1
            ep, ee = info[task["fmt"]]
            line = (f"load {task['fmt']} {class_tok(spec, o['mcls'], 'go')} {class_tok(task['bak_spec'], o['bcls'], 'gs')} m "
                    f"{enc_str(ep)} {enc_str(ee)}")
            o["line"] = line
            lines.setdefault(line, None)
            if res.evaluations % 2003 == 0:
                res.sample({"fmt": task["fmt"], "main": spec, "bak": task["bak_spec"], "class": o["mcls"], "loaded": o["got"],
                            "files_after": o["shape"]})
    res.extra["model_inputs_distinct"] = len(lines)
    if ctx.model is not None:
        keys = list(lines)
        for k, out in zip(keys, ctx.model.batch(keys)):
            lines[k] = out
        ndiff = 0
        for task, obs in zip(tasks, results):
            for (spec, blob), o in zip(task["main_variants"], obs):
                t = lines[o["line"]].split(" ")
                if len(t) != 6:
                    mv = {"bad": lines[o["line"]]}
                else:
                    loaded, m1, b1, st, ns, l3 = t
                    mv = {"loaded": {"ok:old": "main", "ok:sb": "bak", "ok:": "empty"}.get(loaded, loaded), "shape": m1 + b1,
                          "again": [st, ns == "1", l3 == "ok:next"]}
                iv = {"loaded": ("raise:" + o["exc"]) if o["exc"] else (mv.get("loaded") if mv.get("loaded") in o["got"] else o["got"][0]),
                      "shape": o["shape"], "again": o["again"] if o["again"] is not None else mv.get("again")}
                if mv != iv and ndiff < 20:
                    ndiff += 1
                    bad = check_obs(task, o)
                    res.violate("model/differs", f"model and implementation differ: {task['fmt']} main={spec} bak={task['bak_spec']} "
                                f"model={mv} impl={iv}", dict(case_of(task, o, blob), model=mv, impl=iv),
                                kind="correspondence", found_input=bool(bad))
        xin = keys[:40]
        n, ok, lg = core.coq_crosscheck([xin], [[lines[k] for k in xin]], "c13", shell="Fs")
        res.extra["extraction_crosschecks"] = n
        if not ok:
            res.violate("extraction/differs", "extracted runner and vm_compute disagree: " + lg[-300:], {"lines": xin[:3]},
                        kind="correspondence", found_input=False)
    res.exhaustive = True
    res.extra["exhaustive_subspaces"] = ["per generated file: every truncation length 0..len-1, zero-fill, missing, intact "
                                         "x backup {absent, intact, 5-8 damaged}"]
    res.extra["states_per_format"] = len(states(ctx))


def replay(ctx, case):
    case = case.get("case", case)
    root = str(F.scratch_root())
    try:
        if "main" not in case:
            return {"violates": False, "note": "not a concrete case"}
        d = os.path.join(root, "replay")
        os.makedirs(d, exist_ok=True)
        fmt = case["fmt"]
        p = F.paths_for(d, fmt)
        _, mproj = F.saved_bytes(os.path.join(root, "prep"), fmt, case["main_lines"])
        _, bproj = F.saved_bytes(os.path.join(root, "prep"), fmt, case["bak_lines"])
        mblob = None if case["main_bytes_hex"] is None else bytes.fromhex(case["main_bytes_hex"])
        bblob = None if case["bak_bytes_hex"] is None else bytes.fromhex(case["bak_bytes_hex"])
        task = {"fmt": fmt, "root": root, "idx": 0, "main_proj": mproj, "bak_proj": bproj, "bak_spec": case["bak"],
                "bak_blob": bblob, "main_variants": [(case["main"], mblob)], "main_len": case.get("main_file_len")}
        o = work(task)[0]
        bad = check_obs(task, o)
        return {"case": {k: case[k] for k in ("fmt", "main", "bak")}, "decoder_class_main": o["mcls"], "decoder_class_bak": o["bcls"],
                "exception": o["exc"], "loaded": o["got"], "files_after(main,bak)": o["shape"], "monitor": [w for _, w in bad],
                "violates": bool(bad)}
    finally:
        F.cleanup_scratch()
