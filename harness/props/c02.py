"""C02 - wire codec round trip: correspondence Model.Codec <-> mysensors.message, plus monitors."""
from harness import core
from harness.core import enc_str, dec_str
from harness.gen import text

ID = "C02"
PROP_FILE = "C02.v"
TRANSLATORS = ["unicode_tables"]
RULE = ("cases = decode lines (grammar-generated integer spellings x payloads, near misses, garbage), "
        "encode/copy messages (header grid incl. negatives, >255, 2^70, IntEnum members, False/True; Unicode payloads). "
        "non-trivial = distinct input that is accepted in a non-canonical spelling, or rejected with >=5 ';' "
        "(near miss), or an encode/copy case with non-empty payload or replaced fields")
ASSUMPTIONS = [
    "CPython int()/str(int)/str.rstrip/str.split behave as modelled in Base/PyInt.v, Base/PyStr.v (tables regenerated from the running interpreter; 4300-digit int limit not modelled)",
    "header fields are Python ints or IntEnum members (the model works on their integer values)",
]
THEOREMS_DOC = {
    "C02_int_roundtrip": "forall z:Z, int(str(z)) = z",
    "C02_decode_encode": "forall m, payload without ';' and trailing isspace -> decode (encode m) = m",
    "C02_encode_decode_canonical": "decode l = m -> encode m canonical, decodes to m, equals l when l canonical",
    "C02_canonical_shape": "canonical line = body ++ newline, body not ending in white space, six ';' fields",
    "C02_copy_spec": "copy m r = override m r for carriable payloads",
}

HEADER_GRID = [0, 1, 2, 3, 4, 5, 7, 22, 47, 100, 254, 255, 256, 65535, 65536, -1, -255, 2 ** 31, 2 ** 63, 2 ** 70, -(2 ** 70)]
FIELDS = ["node_id", "child_id", "type", "ack", "sub_type", "payload"]


def _py_wire_ok(p):
    return ";" not in p and "\n" not in p and "\r" not in p and p == p.rstrip()


def gen_cases(ctx):
    rng = ctx.rng("c02")
    n = ctx.budget(3000, 150000)
    cases = []
    # corpus first
    for line in ["1;2;3;0;7;hello\n", " 1_0;+2;-3; 0 ;007;hello w  ", "1;2;3;0;7;", "1;2;3;0;7", "1;2;3;0;7;a;b",
                 "1;255;3;0;6;\x1c", "1;255;3;0;\x1c6;x", "١;٢;٣;٠;٧;x ", "1;2;3;0;7;a\nb\n", "1;2;3;0;7;x\r\n",
                 "-0;+0;00;0_0;0;\x85", "1;2;3;0;7;  lead", "9007199254740993;2;3;0;7;x", "1;-9007199254740993;3;0;18014398509481985;", "9" * 30 + ";2;3;0;7;x", "", ";;;;;", "1;2;3;0;1.0;x"]:
        cases.append({"kind": "decode", "line": line})
    for _ in range(n):
        k = rng.random()
        if k < 0.45:
            hs = [text.int_spelling(rng, valid=True)[0] for _ in range(5)]
            p = text.payload(rng)
            tail = rng.choice(["", "\n", "\r\n", " ", "\n\n", "\t\n", "\x1f", " "])
            cases.append({"kind": "decode", "line": ";".join(hs + [p]) + tail})
        elif k < 0.6:
            hs = [text.int_spelling(rng, valid=True)[0] for _ in range(5)]
            hs[rng.randrange(5)] = text.int_spelling(rng, valid=False)[0]
            nf = rng.choice([5, 5, 5, 4, 6])
            cases.append({"kind": "decode", "line": ";".join(hs[:nf] + [text.payload(rng)])})
        elif k < 0.65:
            cases.append({"kind": "decode", "line": text.garbage(rng)})
        elif k < 0.85:
            hdr = [rng.choice(HEADER_GRID) if rng.random() < 0.7 else rng.randrange(-300, 70000) for _ in range(5)]
            if rng.random() < 0.15:          # some fields 0/1, passed to the constructor as False/True (bool is an int)
                for i in rng.sample(range(5), rng.choice([1, 2])):
                    hdr[i] = rng.choice([0, 1])
            cases.append({"kind": "encode", "hdr": hdr, "payload": text.payload(rng, wire_ok=rng.random() < 0.8 or None),
                          "enum": rng.random() < 0.2, "bools": rng.random() < 0.5})
        else:
            hdr = [rng.choice(HEADER_GRID) if rng.random() < 0.6 else rng.randrange(0, 256) for _ in range(5)]
            repl = {}
            for i, f in enumerate(FIELDS):
                if rng.random() < 0.3:
                    repl[f] = text.payload(rng, wire_ok=rng.random() < 0.7 or None) if f == "payload" else rng.choice(HEADER_GRID)
            cases.append({"kind": "copy", "hdr": hdr, "payload": text.payload(rng, wire_ok=rng.random() < 0.85 or None),
                          "repl": repl, "bools": rng.random() < 0.3})
    return cases


def _enumify(hdr):
    from mysensors import const_22 as c
    n, ch, t, a, s = hdr
    out = list(hdr)
    try:
        out[2] = c.MessageType(t)
        sub = {0: c.Presentation, 1: c.SetReq, 2: c.SetReq, 3: c.Internal, 4: c.Stream}[t]
        out[4] = sub(s)
    except (ValueError, KeyError):
        pass
    return out


def impl(case):
    """Run the implementation; returns a canonical observation."""
    from mysensors.message import Message
    kind = case["kind"]
    try:
        if kind == "decode":
            m = Message(case["line"])
            first = ["ok", m.node_id, m.child_id, m.type, m.ack, m.sub_type, m.payload]
            # an attempt with another delimiter in between (it fails for a ';' line) must not change what the
            # line decodes to afterwards
            try:
                Message().decode(case["line"], "/")
            except ValueError:
                pass
            try:
                m = Message(case["line"])
                again = ["ok", m.node_id, m.child_id, m.type, m.ack, m.sub_type, m.payload]
            except ValueError:
                again = None
            return first if again == first else ["err", "DecodeDependsOnEarlierCalls"]
        hdr = case["hdr"]
        if kind == "encode":
            h = _enumify(hdr) if case.get("enum") else hdr
            if case.get("bools"):
                h = [bool(x) if type(x) is int and x in (0, 1) else x for x in h]
            m = Message(node_id=h[0], child_id=h[1], type=h[2], ack=h[3], sub_type=h[4], payload=case["payload"])
            out = ["ok", m.encode()]
            p = case["payload"]
            if "/" not in p and _py_wire_ok(p):
                # the same codec with the caller's delimiter (the MQTT gateway encodes with "/")
                alt = m.encode("/")
                m2 = Message()
                m2.decode(alt, "/") if alt is not None else None
                out.append([alt, [m2.node_id, m2.child_id, m2.type, m2.ack, m2.sub_type, m2.payload]])
            return out
        if kind == "copy":
            gw = object()
            m = Message(node_id=hdr[0], child_id=hdr[1], type=hdr[2], ack=hdr[3], sub_type=hdr[4],
                        payload=case["payload"], gateway=gw)
            repl = case["repl"]
            if case.get("bools"):
                repl = {k: (bool(v) if type(v) is int and v in (0, 1) else v) for k, v in repl.items()}
            c = m.copy(**repl)
            keep = c.gateway is gw and all(getattr(m, f) == v for f, v in zip(FIELDS, hdr + [case["payload"]]))
            return ["ok", c.node_id, c.child_id, c.type, c.ack, c.sub_type, c.payload, keep]
    except Exception as exc:  # canonicalise by class
        return ["err", exc_name(exc)]
    raise AssertionError(kind)


def exc_name(exc):
    import binascii
    import struct
    import voluptuous as vol
    for cls, name in ((vol.Invalid, "VolInvalid"), (binascii.Error, "BinasciiError"), (struct.error, "StructError"),
                      (ValueError, "ValueError"), (KeyError, "KeyError"), (IndexError, "IndexError"),
                      (AttributeError, "AttributeError"), (TypeError, "TypeError"), (EOFError, "EOFError"),
                      (OSError, "OSError"), (RuntimeError, "RuntimeError")):
        if isinstance(exc, cls):
            return name
    return type(exc).__name__


def model_line(case):
    kind = case["kind"]
    if kind == "decode":
        return "decode " + enc_str(case["line"])
    hdr = " ".join(str(x) for x in case["hdr"])
    if kind == "encode":
        return f"encode {hdr} {enc_str(case['payload'])}"
    r = case["repl"]
    toks = [str(r[f]) if f in r else "--" for f in FIELDS[:5]]
    toks.append(enc_str(r["payload"]) if "payload" in r else "--")
    return f"copy {hdr} {enc_str(case['payload'])} " + " ".join(toks)


def model_obs(case, out):
    t = out.split(" ")
    if t[0] == "err":
        return ["err", t[1]]
    kind = case["kind"]
    if kind == "decode":
        return ["ok"] + [int(x) for x in t[1:6]] + [dec_str(t[6])]
    if kind == "encode":
        return ["ok", dec_str(t[0])]
    return ["ok"] + [int(x) for x in t[1:6]] + [dec_str(t[6]), True]


def monitor(case, obs):
    """The property evaluated directly on the implementation for one case. Returns None or text."""
    from mysensors.message import Message
    kind = case["kind"]
    if kind == "decode":
        if obs[0] == "err" and obs[1] == "DecodeDependsOnEarlierCalls":
            return f"line {case['line']!r} decodes, but not any more after decode(line, '/') was tried on it"
        if obs[0] == "err":
            return None if obs[1] == "ValueError" else f"decode raised {obs[1]} instead of ValueError"
        # independent reading of the header: CPython's int() on the six ';' fields of the right-stripped line
        fs0 = case["line"].rstrip().split(";")
        if len(fs0) == 6:
            try:
                want = [int(f) for f in fs0[:5]]
            except ValueError:
                want = None
            if want is not None and (want != obs[1:6] or obs[6] != fs0[5]):
                return f"line {case['line']!r} decodes to {obs[1:]}, its fields read {want + [fs0[5]]}"
        m = Message(case["line"])
        e = m.encode()
        if e is None:
            return "encode of an accepted message returned None"
        body = e[:-1]
        fs = body.split(";")
        if not e.endswith("\n") or body != body.rstrip() or len(fs) != 6 or any(str(int(f)) != f for f in fs[:5]):
            return f"re-encoded line {e!r} is not canonical"
        m2 = Message(e)
        if [m2.node_id, m2.child_id, m2.type, m2.ack, m2.sub_type, m2.payload] != obs[1:]:
            return f"canonical line {e!r} decodes to a different message"
        if m2.encode() != e:
            return "canonical line is not a fixed point of decode;encode"
        return None
    if kind == "encode":
        p = case["payload"]
        if obs[0] != "ok" or obs[1] is None:
            return f"encode of integer header failed: {obs}"
        if len(obs) > 2:
            alt, back = obs[2]
            want = "/".join(str(int(x)) for x in case["hdr"]) + "/" + p + "\n"
            if alt != want:
                return f"encode with delimiter '/' gives {alt!r}, expected {want!r}"
            if back != case["hdr"] + [p]:
                return f"decode(encode(m, '/'), '/') = {back} != {case['hdr'] + [p]}"
        if _py_wire_ok(p):
            try:
                m = Message(obs[1])
            except ValueError:
                return f"encode({case['hdr']}, {p!r}) = {obs[1]!r} does not decode"
            if [m.node_id, m.child_id, m.type, m.ack, m.sub_type, m.payload] != case["hdr"] + [p]:
                return f"decode(encode(m)) != m for {case['hdr']} {p!r}"
        return None
    if kind == "copy":
        if _py_wire_ok(case["payload"]):
            if obs[0] != "ok":
                return f"copy raised {obs[1]} for a carriable payload"
            exp = [case["repl"].get(f, v) for f, v in zip(FIELDS, case["hdr"] + [case["payload"]])]
            if obs[1:7] != exp:
                return f"copy result {obs[1:7]} != original with replacements {exp}"
            if not obs[7]:
                return "copy lost the gateway reference or modified the original"
        return None


def nontrivial(case, obs):
    kind = case["kind"]
    if kind == "decode":
        if obs[0] == "ok":
            canon = ";".join(str(x) for x in obs[1:6]) + ";" + obs[6] + "\n"
            return canon != case["line"]
        return case["line"].count(";") >= 5
    if kind == "encode":
        return bool(case["payload"])
    return bool(case["repl"])


ENC_RACES = [   # (warm-up header, header of thread A, header of thread B): same / different headers, another before
    ([9, 9, 1, 0, 2], [1, 2, 1, 0, 2], [1, 2, 1, 0, 2]),
    ([9, 9, 1, 0, 2], [1, 2, 1, 0, 2], [3, 4, 1, 1, 5]),
    ([1, 2, 1, 0, 2], [1, 2, 1, 0, 2], [9, 9, 1, 0, 2]),
]


def _enc(h, p):
    from mysensors.message import Message
    try:
        return Message(node_id=h[0], child_id=h[1], type=h[2], ack=h[3], sub_type=h[4], payload=p).encode()
    except Exception as exc:      # noqa: BLE001
        return "exc:" + type(exc).__name__


def run_encode_races(ctx, res):
    """Two threads encode (and decode) at the same time, every interleaving at source-line granularity of message.py up
    to one preemption: each result is what the call returns alone."""
    from harness.impl import sched
    from mysensors import message
    for w, a, b in ENC_RACES:
        alone = (_enc(a, "a"), _enc(b, "b"), _enc(a, "a"))

        def make():
            _enc(w, "w")
            out = {}
            return [lambda: out.__setitem__("a", _enc(a, "a")),
                    lambda: (out.__setitem__("b", _enc(b, "b")), out.__setitem__("a2", _enc(a, "a")))], \
                lambda: (out.get("a"), out.get("b"), out.get("a2"))
        try:
            for choices, trace, o in sched.explore(make, [message.__file__], 1):
                res.evaluations += 1
                res.count("encode-race-schedules")
                if o != alone:
                    res.violate("codec:concurrent-encode", f"two threads encoding {a} and {b} (after {w}): {o}, alone {alone}",
                                {"kind": "race", "w": w, "a": a, "b": b, "choices": choices})
                    break
        except sched.HarnessError as exc:
            res.violate("codec:race-harness", f"HarnessError {exc}", {"kind": "race"}, kind="harness", found_input=False)


def run(ctx, res):
    run_encode_races(ctx, res)
    cases = gen_cases(ctx)
    obs = [impl(c) for c in cases]
    if ctx.model is not None:
        outs = ctx.model.batch([model_line(c) for c in cases])
    else:
        outs = [None] * len(cases)
    xin, xout = [], []
    for c, o, mo in zip(cases, obs, outs):
        res.evaluations += 1
        res.count(c["kind"] + ":" + (o[0] if o[0] == "ok" else o[1]))
        if nontrivial(c, o):
            res.nontriv(core.case_hash(c))
        why = monitor(c, o)
        if why:
            res.violate("codec:" + c["kind"], why, c, kind="monitor")
        if mo is not None:
            m = model_obs(c, mo)
            if m != o[:2] if c["kind"] == "encode" else m != o:
                res.violate("corr:" + c["kind"], f"model {m!r} != implementation {o!r}", c, kind="correspondence",
                            found_input=False)
            if len(xin) < ctx.budget(150, 600):
                xin.append(model_line(c))
                xout.append(mo)
    for c, o in list(zip(cases, obs))[16:22]:
        res.sample({"case": c, "impl": o})
    if ctx.model is not None and not ctx.searching:
        n, ok, lg = core.coq_crosscheck([xin], [xout], "c02")
        res.extra["extraction_crosschecks"] = n
        if not ok:
            res.violate("xcheck", "extracted runner disagrees with vm_compute: " + lg[-300:], {"tag": "c02"},
                        kind="correspondence", found_input=False)


def replay(ctx, case):
    c = case["case"] if "case" in case else case
    if c.get("kind") == "race":
        r = core.Result(ID)
        run_encode_races(ctx, r)
        return {"violations": [v.what for v in r.violations][:3], "violates": bool(r.violations)}
    o = impl(c)
    out = {"case": c, "impl": o, "monitor": monitor(c, o)}
    if ctx.model is not None:
        out["model"] = model_obs(c, ctx.model.batch([model_line(c)])[0])
    out["violates"] = bool(out["monitor"])
    return out
