"""C03 - validation conformance: generated tables vs Message.validate vs the hand-written spec."""
import os
import sys
from concurrent.futures import ProcessPoolExecutor

from harness import core, oracles
from harness.core import enc_str

ID = "C03"
PROP_FILE = "C03.v"
TRANSLATORS = ["unicode_tables", "tables"]
RULE = ("cells = version x command -1..5 x sub-type -1..max+2 x node {-1,0,1,254,255,256} x child {-1,0,254,255,256} x "
        "ack {-1,0,1,2} (thorough: exhaustive, quick: every 7th cell) each with an accepting-looking and a rejecting payload, "
        "plus every (version, command, defined sub-type) cell crossed with a boundary payload corpus, plus "
        "ChildSensor.validate value maps. non-trivial = distinct (version, command, sub-type, header class, payload) whose "
        "header passes, i.e. the payload rule decided the outcome")
ASSUMPTIONS = [
    "voluptuous combinator semantics as modelled in Model/Rules.v (All threads the value, Any first success, In equality, Range `not v >= min`)",
    "float() is an oracle, and so is awesomeversion (inside is_version) on payloads that are NOT dotted numeric: the harness supplies the real verdict per payload, the theorem quantifies over all oracles; on dotted numeric payloads [0-9]+(\\.[0-9]+)* the model computes the verdict itself (exact awesomeversion comparison, Base/Version.v) and ignores the supplied table entry",
    "CPython int() as modelled in Base/PyInt.v",
    "the int() of a version section is unbounded in the model (CPython refuses more than 4300 digits: awesomeversion then raises ValueError, which is_version turns into Invalid)",
]
THEOREMS_DOC = {
    "C03_validate_conforms": "forall version, header in Z^5, payload, oracles: validate over GENERATED tables = hand-written serial API spec",
    "C03_subtypes_monotone": "defined sub-types only grow with the version",
    "C03_every_subtype_has_rule": "every defined sub-type has an explicit payload rule",
    "C03_child_schema_total": "every presentation type has a child schema (no KeyError)",
    "C03_tables_well_kinded": "no generated validator applies a combinator to a value kind it cannot take",
    "C03_validator_functions_unchanged": "AST fingerprints of the hand-modelled validator functions equal those the model was written against",
    "C03_node_presentation_version_numeric": "forall version table, otherwise valid node-presentation header (node/child 0..255, ack 0/1, sub-type 17/18), DOTTED NUMERIC payload p and ALL oracle tables: the message validates <-> p is numerically >= 1.4 (num_ge: section values left to right, missing section = 0, leading zeros irrelevant; stated without awesomeversion)",
    "C03_version_test_is_numeric": "the modelled awesomeversion test of is_version, not AwesomeVersion('1.4') > AwesomeVersion(p), equals num_ge (sections p) [1;4] for every string p",
    "C03_validate_conforms_numeric": "forall oracle tables, version, message: validate over GENERATED tables with the machine's verdicts = hand-written spec whose version class is the numeric rule on dotted numeric payloads and the oracle only elsewhere",
}
VERS = oracles.VERSIONS
MAXSUB = {  # spec maxima, only to size the grid
    0: [25, 35, 39, 39, 39], 1: [39, 46, 56, 56, 56], 2: [39, 46, 56, 56, 56], 3: [14, 17, 28, 28, 33], 4: [5] * 5}

CORPUS = ["", "0", "1", "2", "-1", "100", "101", "254", "255", "256", " 50 ", "5_0", "٥٠", "1.0", "1e2", "0x10",
          "abc", "M", "I", "m", "Off", "HeatOn", "CoolOn", "AutoChangeOver", "off", "Min", "Normal", "Max", "Auto",
          "stable", "sunny", "ffffff", "FFFFFF", "fffff", "fffffg", "ffffffff", "fffffff", "ff ff ", "ｆｆffff",
          "1,2,3", "1,2", "1,2,3,4", "a,b,c", " 1 , 2 , 3 ", "nan,inf,-inf", "1e400,1,1", "1.4", "1.3", "1.4.0",
          "2.2", "2.0.0-beta", "1.10", "v2.1", "latest", "100.0", "100.00000000000001", "100.000000000000001",
          "-0.0", "-1e-400", "1e400", "nan", "inf", "-inf", "infinity", "1_0.5", " 99.9\n", "0.5", "-1.0",
          "1.0000000000000002", "-1.0000000000000002", "1e-1", "\x1c5", "5\x1f", "+7", "007", "٣", "1 0", "½",
          "0" * 40 + "7", "9" * 25,
          # strings int(x, 16) / float() / int() parse but that are not what the rule means
          "0xa1a1", "0Xa1a1", "+1a1a1", "-1a1a1", " 1a1a1", "\t1a1a1", "a1_1a1", "0xa1a1a1", "+1a1a1a1", "a1a1_1a1",
          " ffffff", "ffffff ", "ffffff\n", "fffff\x00", "１２３４５６", "0b1010", "1_000", "1e1", "0.5e1", "٠", "1,2,3\n",
          "+1,-2,3e1", "1,2,", ",,", "1;2", "Auto ", " Auto", "auto", "AUTO", "HeatOn\n", "0 ", " 1", "01", "+1", "1.", "True",
          "100 ", "１００", "1_0_0", "0100", "-0", "254.0", "0xfe", "2.2 ", "1.4\n", "1,4", "1.4.0.0", "١.٤", "1.04", "01.4", "1.3.9", "1.4.1", "2", "1", "0.9", "1.10", "1.40"]


def grid(ctx):
    cases = []
    stride = 1 if ctx.tier == "thorough" else 7
    k = 0
    for vi in range(5):
        for t in range(-1, 6):
            mx = MAXSUB.get(t, [0] * 5)[vi]
            for s in range(-1, mx + 3):
                for n in (-1, 0, 1, 254, 255, 256):
                    for c in (-1, 0, 254, 255, 256):
                        for a in (-1, 0, 1, 2):
                            k += 1
                            if k % stride:
                                continue
                            for p in ("1", "zz;"):
                                cases.append({"kind": "validate", "v": vi, "hdr": [n, c, t, a, s], "payload": p})
    return cases


def corpus_cells(ctx):
    cases = []
    rng = ctx.rng("c03corpus")
    for vi in range(5):
        for t in range(0, 5):
            for s in range(0, MAXSUB[t][vi] + 1):
                child = 255 if t in (3, 4) else 1
                pl = CORPUS if (ctx.tier == "thorough" or ctx.scale > 1) else (
                    CORPUS if t in (1, 3) or s in (17, 18) else rng.sample(CORPUS, 6))
                for p in pl:
                    cases.append({"kind": "validate", "v": vi, "hdr": [1, child, t, 0, s], "payload": p})
    return cases


def numeric_version_cells(ctx):
    """Node presentations (sub-type 17/18) with generated DOTTED NUMERIC payloads: 1-4 sections, values around the
    1.4 boundary, leading zeros, long sections.  On these the model does not consult the oracle table: it computes
    awesomeversion's verdict itself (Base/Version.v), so every case is a test of the exact model against the library."""
    rng = ctx.rng("c03numver")
    cases = []

    def sec():
        v = rng.choice([0, 0, 1, 1, 2, 3, 4, 4, 5, 9, 10, 13, 14, 39, 40, 41, 100, rng.randrange(0, 10 ** rng.randrange(1, 30))])
        return "0" * rng.choice([0, 0, 0, 1, 2]) + str(v)
    for _ in range(ctx.budget(600, 6000)):
        p = ".".join(sec() for _ in range(rng.choice([1, 2, 2, 2, 3, 3, 4, 6])))
        cases.append({"kind": "validate", "v": rng.randrange(5), "hdr": [rng.choice([0, 1, 254, 255]), 255, 0, rng.choice([0, 1]),
                                                                         rng.choice([17, 18])], "payload": p})
    return cases


def child_cases(ctx):
    rng = ctx.rng("c03child")
    cases = []
    n = ctx.budget(400, 6000)
    for _ in range(n):
        vi = rng.randrange(5)
        ctype = rng.choice([rng.randrange(0, MAXSUB[0][vi] + 1), rng.randrange(-1, 45)])
        vals = {}
        for _ in range(rng.choice([0, 1, 1, 2, 3])):
            vals[rng.randrange(0, MAXSUB[1][vi] + 3)] = rng.choice(CORPUS)
        cases.append({"kind": "child", "v": vi, "ctype": ctype, "values": sorted(vals.items())})
    return cases


def impl_one(case):
    import voluptuous as vol
    from mysensors.message import Message
    from mysensors.sensor import ChildSensor
    from harness.props.c02 import exc_name
    try:
        if case["kind"] == "validate":
            n, c, t, a, s = case["hdr"]
            m = Message(node_id=n, child_id=c, type=t, ack=a, sub_type=s, payload=case["payload"])
            try:
                m.validate(VERS[case["v"]])
                return "1"
            except vol.Invalid:
                return "0"
        ch = ChildSensor(1, case["ctype"])
        # what the child has STORED is not what is being judged: the explicit `values` argument is (also when it is
        # empty); the stored map is only the default
        ch.values = {2: "not-a-bit", 9999: "x"} if len(case["values"]) % 2 == 0 else {}
        try:
            ch.validate(VERS[case["v"]], dict(case["values"]))
            if not case["values"]:
                ch.values = {}
                ch.validate(VERS[case["v"]])          # the default path, on an empty stored map
            return "ok 1"
        except vol.Invalid:
            return "ok 0"
        except KeyError:
            return "keyerror"
    except Exception as exc:
        return "exc " + exc_name(exc)


def impl_chunk(chunk):
    import logging
    logging.disable(logging.CRITICAL)
    return [impl_one(c) for c in chunk]


def model_lines(case):
    if case["kind"] == "validate":
        p = case["payload"]
        orc = oracles.for_payloads([p])
        args = f"{case['v']} {' '.join(map(str, case['hdr']))} {enc_str(p)} | {orc}"
        return ["validate " + args, "spec " + args]
    ps = [v for _, v in case["values"]]
    kv = " ".join(f"{k} {enc_str(v)}" for k, v in case["values"])
    return [" ".join(x for x in [f"childval {case['v']} {case['ctype']}", kv, "|", oracles.for_payloads(ps)] if x)]


def lines_chunk(chunk):
    import logging
    logging.disable(logging.CRITICAL)
    return [model_lines(c) for c in chunk]


def chunks(lst, n):
    k = max(1, (len(lst) + n - 1) // n)
    return [lst[i:i + k] for i in range(0, len(lst), k)]


_DUMP = r"""
import json, sys, importlib, logging
logging.disable(logging.CRITICAL)
mods = sys.argv[1:]
for m in mods[:-1]:
    importlib.import_module(m)            # other versions loaded first (or none)
c = importlib.import_module(mods[-1])
def names(d):
    return sorted(getattr(k, "name", str(k)) for k in d)
out = {"VALID_MESSAGE_TYPES": {getattr(k, "name", str(k)): names(v) for k, v in c.VALID_MESSAGE_TYPES.items()},
       "VALID_PAYLOADS": {getattr(k, "name", str(k)): names(v) for k, v in c.VALID_PAYLOADS.items()},
       "VALID_TYPES": {getattr(k, "name", str(k)): names(v) for k, v in c.VALID_TYPES.items()},
       "VALID_SETREQ": names(c.VALID_SETREQ), "VALID_INTERNAL": names(getattr(c, "VALID_INTERNAL", {})),
       "VALID_PRESENTATION": names(getattr(c, "VALID_PRESENTATION", {})), "VALID_STREAM": names(getattr(c, "VALID_STREAM", {})),
       "Presentation": names(c.Presentation), "SetReq": names(c.SetReq), "Internal": names(c.Internal)}
print(json.dumps(out, sort_keys=True))
"""


def tables_do_not_depend_on_loaded_versions(res):
    """A validation verdict is a function of (version, message): the tables of a version must be the same whether
    that version's constants are the only ones loaded or every other version was loaded before / after (a gateway
    validates node values against OLDER versions' tables as a matter of course).  One fresh interpreter per
    configuration."""
    import json
    import subprocess
    mods = ["mysensors.const_14", "mysensors.const_15", "mysensors.const_20", "mysensors.const_21", "mysensors.const_22"]
    env = dict(os.environ, PYTHONPATH=str(core.REPO))

    def dump(order):
        p = subprocess.run([sys.executable, "-c", _DUMP] + order, env=env, stdout=subprocess.PIPE, stderr=subprocess.PIPE,
                           text=True, timeout=120)
        return json.loads(p.stdout) if p.returncode == 0 and p.stdout.strip() else {"error": p.stderr[-300:]}
    for i, m in enumerate(mods):
        alone = dump([m])
        for label, order in (("after every other version was loaded", [x for x in mods if x != m] + [m]),
                             ("before the newer versions were loaded", None)):
            res.evaluations += 1
            if order is None:
                # load m, then the newer ones, then look at m again
                code_order = [m] + mods[i + 1:] + [m]
                other = dump(code_order)
            else:
                other = dump(order)
            res.count("tables:isolation-check")
            if other != alone:
                diff = [k for k in sorted(set(alone) | set(other)) if alone.get(k) != other.get(k)]
                detail = ""
                for k in diff[:2]:
                    a, b = alone.get(k), other.get(k)
                    if isinstance(a, dict) and isinstance(b, dict):
                        kk = [x for x in sorted(set(a) | set(b)) if a.get(x) != b.get(x)][:2]
                        detail += f" {k}[{kk}]: {[a.get(x) for x in kk]} vs {[b.get(x) for x in kk]};"
                    else:
                        extra = sorted(set(b or []) - set(a or []))[:6] if isinstance(a, list) and isinstance(b, list) else b
                        detail += f" {k}: extra {extra};"
                res.violate("tables-depend-on-loaded-versions",
                            f"{m}: tables differ when loaded alone vs {label}:{detail[:500]}",
                            {"kind": "isolation", "module": m, "order": order or code_order, "differs": diff})


def version_rule(c, o):
    """Independent of the is_version oracle: in a node presentation (sub-type ARDUINO_NODE / ARDUINO_REPEATER_NODE, 17/18)
    with an otherwise valid header, a payload of ASCII-decimal sections d(.d)* is accepted exactly when it is
    NUMERICALLY >= 1.4 (sections left to right, missing = 0) - '1.4.0', '1.04', '2' are, '1.3.9', '0.9' are not."""
    import re
    n, ch, t, a, s = c["hdr"]
    p = c["payload"]
    if t != 0 or s not in (17, 18) or not (0 <= n <= 255 and 0 <= ch <= 255 and a in (0, 1)) or o not in ("0", "1"):
        return None
    if not (p.isascii() and re.fullmatch(r"[0-9]+(\.[0-9]+)*", p)) or len(p) > 200:
        return None
    secs = [int(x) for x in p.split(".")]
    want = "1" if secs + [0] * (2 - len(secs)) >= [1, 4] else "0"
    if o != want:
        return (f"version {VERS[c['v']]}: node presentation {';'.join(map(str, c['hdr']))};{p!r} is "
                f"{'accepted' if o == '1' else 'rejected'}, but {p} is {'' if want == '1' else 'not '}a version >= 1.4")
    return None


RACE_PAIRS = [
    # two threads validate at the same time (poll thread: an inbound line under the gateway's version; application
    # thread: a command under another version, e.g. a node's own) - each verdict must be the one it gets alone
    (("2.1", "1;255;3;0;32;500"), ("2.3.2", "1;1;1;0;2;1")),
    (("1.4", "1;1;1;0;40;ff00aa"), ("1.5", "1;1;1;0;40;ff00aa")),
    (("2.2", "1;255;3;0;33;1"), ("2.0", "1;255;3;0;22;5")),
    (("1.5", "1;1;1;0;47;text"), ("2.0", "1;1;1;0;47;text")),
]


def _verdict(ver, line):
    import voluptuous as vol
    from mysensors.message import Message
    try:
        Message(line).validate(ver)
        return "1"
    except vol.Invalid:
        return "0"
    except Exception as exc:      # noqa: BLE001
        return "exc:" + type(exc).__name__


def _race_task(i):
    import logging
    logging.disable(logging.CRITICAL)
    from harness.impl import sched
    from mysensors import const, message
    from mysensors.const import get_const
    for v in ("1.4", "1.5", "2.0", "2.1", "2.2"):
        get_const(v)                       # module caches filled: every run executes the same lines
    (va, la), (vb, lb) = RACE_PAIRS[i]
    alone = (_verdict(va, la), _verdict(vb, lb))

    def make():
        out = {}
        return [lambda: out.__setitem__("a", _verdict(va, la)), lambda: out.__setitem__("b", _verdict(vb, lb))], \
            lambda: (out.get("a"), out.get("b"))
    n, bad = 0, None
    try:
        for choices, trace, o in sched.explore(make, [const.__file__, message.__file__], 1):
            n += 1
            if o != alone and bad is None:
                bad = (choices, o)
    except sched.HarnessError as exc:
        return i, n, alone, None, str(exc)
    return i, n, alone, bad, None


def run_validate_races(ctx, res):
    jobs = min(4, len(RACE_PAIRS))
    with ProcessPoolExecutor(jobs) as ex:
        for i, n, alone, bad, herr in ex.map(_race_task, range(len(RACE_PAIRS))):
            res.evaluations += n
            res.count("validate-race-schedules", n)
            if herr:
                res.violate("validate-race/harness", f"pair {RACE_PAIRS[i]}: HarnessError {herr}", {"kind": "race", "pair": i},
                            kind="harness", found_input=False)
            if bad:
                choices, o = bad
                res.violate("verdict-depends-on-concurrent-validation",
                            f"validating {RACE_PAIRS[i][0]} and {RACE_PAIRS[i][1]} in two threads gives {o}, alone {alone}",
                            {"kind": "race", "pair": i, "choices": choices})


def verdict_independent_of_gateway_state(res):
    """Validity is a property of the line and the version, not of what the gateway is doing: invalid twins of a
    firmware block request (child id not 255, ack 2, node id 256) are refused - no reply, no session change - also
    while a firmware session of that node is under way (and answered before / after it exactly as the valid one)."""
    import mysensors
    from harness.gen.histories import hexw
    for ver in VERS:
        for stage in ("idle", "scheduled", "fetching"):
            sent = []

            class T:
                can_log = False
                protocol = None

                def send(self, m):
                    if m:
                        sent.append(m)
            gw = mysensors.BaseAsyncGateway(T(), protocol_version=ver)
            gw.logic("1;255;0;0;17;" + ver)
            if stage != "idle":
                gw.tasks.ota.make_update([1], 1, 1, bytes(range(40)))
            if stage == "fetching":
                gw.logic("1;255;4;0;0;" + hexw(1, 1, 8, 0, 0x0102))
                gw.logic("1;255;4;0;2;" + hexw(1, 1, 0))
            for bad in ("1;0;4;0;2;", "1;254;4;0;2;", "1;255;4;2;2;", "1;255;4;-1;2;", "256;255;4;0;2;", "1;255;4;0;6;"):
                line = bad + hexw(1, 1, 1)
                res.evaluations += 1
                res.count("logic-state-independence")
                stores = (dict(gw.tasks.ota.requested), dict(gw.tasks.ota.unstarted), dict(gw.tasks.ota.started))
                del sent[:]
                try:
                    reply = gw.logic(line)
                except Exception as exc:      # noqa: BLE001
                    reply = "raised " + type(exc).__name__
                after = (dict(gw.tasks.ota.requested), dict(gw.tasks.ota.unstarted), dict(gw.tasks.ota.started))
                if reply is not None or sent or after != stores:
                    res.violate("invalid-line-accepted-in-a-gateway-state",
                                f"version {ver}, firmware session {stage}: the invalid line {line!r} had an effect "
                                f"(reply {reply!r}, sent {sent[:1]}, session stores changed {after != stores})",
                                {"kind": "logic-state", "ver": ver, "stage": stage, "line": line})


def run(ctx, res):
    tables_do_not_depend_on_loaded_versions(res)
    verdict_independent_of_gateway_state(res)
    run_validate_races(ctx, res)
    cases = corpus_cells(ctx) + grid(ctx) + numeric_version_cells(ctx) + child_cases(ctx)
    jobs = min(16, os.cpu_count() or 4)
    with ProcessPoolExecutor(jobs) as ex:
        obs = [o for part in ex.map(impl_chunk, chunks(cases, jobs * 4)) for o in part]
        mlines = [l for part in ex.map(lines_chunk, chunks(cases, jobs * 4)) for l in part]
    outs = None
    if ctx.model is not None:
        flat = [l for ls in mlines for l in ls]
        parts = chunks(flat, jobs)
        from concurrent.futures import ThreadPoolExecutor
        with ThreadPoolExecutor(jobs) as tex:
            flat_out = [o for part in tex.map(ctx.model.batch, parts) for o in part]
        outs, k = [], 0
        for ls in mlines:
            outs.append(flat_out[k:k + len(ls)])
            k += len(ls)
    xin, xout = [], []
    for i, (c, o) in enumerate(zip(cases, obs)):
        res.evaluations += 1
        res.count(f"{c['kind']}:{o}")
        if o.startswith("exc"):
            res.violate("validate-raises", f"validation raised {o} (not voluptuous.Invalid) for {c}", c)
            continue
        if c["kind"] == "validate":
            why = version_rule(c, o)
            if why:
                res.violate("node-presentation-version/numeric-rule", why, c)
        if outs is None:
            continue
        mo = outs[i]
        if c["kind"] == "validate":
            n, ch, t, a, s = c["hdr"]
            if 0 <= n <= 255 and a in (0, 1) and 0 <= t <= 4 and 0 <= s <= MAXSUB[t][c["v"]]:
                res.nontriv((c["v"], t, s, ch, c["payload"]))
            model, spec = mo
            if spec != o:
                res.violate(f"conformance:v{VERS[c['v']]}:t{t}:s{s}",
                            f"implementation {'accepts' if o == '1' else 'rejects'} but the serial API spec "
                            f"{'accepts' if spec == '1' else 'rejects'}: version {VERS[c['v']]} "
                            f"line {';'.join(map(str, c['hdr']))};{c['payload']!r}", c)
            if model != o:
                res.violate("corr:validate", f"model(generated tables)={model} implementation={o} for {c}", c,
                            kind="correspondence", found_input=False)
        else:
            if mo[0] != o:
                res.violate("corr:childval", f"model={mo[0]} implementation={o} for {c}", c,
                            kind="correspondence", found_input=False)
            if o == "ok 0" and not c["values"] and 0 <= c["ctype"] <= MAXSUB[0][c["v"]]:
                res.violate("child-empty-value-map-rejected",
                            f"ChildSensor.validate(version {VERS[c['v']]}, values={{}}) rejects the EMPTY value map of a child of "
                            f"type {c['ctype']} (whatever the child has stored is not what was asked)", c)
            if o == "keyerror" and 0 <= c["ctype"] <= MAXSUB[0][c["v"]]:
                res.violate("child-schema-keyerror", f"ChildSensor.validate raised KeyError for defined type {c}", c)
            if c["values"]:
                res.nontriv(("child", c["v"], c["ctype"], str(c["values"])))
        if len(xin) < 120 and i % 97 == 0:
            xin.extend(mlines[i])
            xout.extend(outs[i])
    for c, o in list(zip(cases, obs))[1000:1004] + list(zip(cases, obs))[-2:]:
        res.sample({"case": c, "impl": o})
    res.extra["exhaustive_subspaces"] = (["header grid (thorough tier)"] if ctx.tier == "thorough" else []) + [
        "every (version, command, defined sub-type) cell x boundary payload corpus for set/internal/node-presentation cells"]
    if ctx.model is not None and not ctx.searching:
        n, ok, lg = core.coq_crosscheck([xin], [xout], "c03")
        res.extra["extraction_crosschecks"] = n
        if not ok:
            res.violate("xcheck", "extracted runner disagrees with vm_compute: " + lg[-300:], {"tag": "c03"},
                        kind="correspondence", found_input=False)


def replay(ctx, case):
    c = case["case"] if "case" in case else case
    if c.get("kind") == "logic-state":
        r = core.Result(ID)
        verdict_independent_of_gateway_state(r)
        return {"violations": [v.what for v in r.violations][:3], "violates": bool(r.violations)}
    if c.get("kind") == "race":
        i, n, alone, bad, herr = _race_task(c["pair"])
        return {"pair": RACE_PAIRS[c["pair"]], "alone": alone, "concurrent": bad and bad[1], "violates": bool(bad)}
    if c.get("kind") == "isolation":
        r = core.Result(ID)
        tables_do_not_depend_on_loaded_versions(r)
        return {"violations": [v.what for v in r.violations][:4], "violates": bool(r.violations)}
    o = impl_one(c)
    if c.get("kind") == "validate" and version_rule(c, o):
        return {"case": c, "impl": o, "rule": version_rule(c, o), "violates": True}
    out = {"case": c, "impl": o}
    if ctx.model is not None:
        out["model_spec"] = ctx.model.batch(model_lines(c))
        out["violates"] = (c["kind"] == "validate" and out["model_spec"][1] != o) or o.startswith("exc")
    else:
        out["violates"] = o.startswith("exc")
    return out
