"""C17 - MQTT topics and commands map one-to-one.

Correspondence Model.Mqtt <-> mysensors.gateway_mqtt (real MQTTGateway / AsyncMQTTGateway with
recording callbacks) plus monitors that evaluate the property on the implementation alone:
  recv  : prefix x topic x payload x qos -> line handed to Gateway.logic / dropped / exception
  pub   : out_prefix x command x publish-callback behaviour -> publish call; then fed back through recv
  hsub  : handle_subscription on arbitrary topic lists with raising subscribe callbacks
  hist  : restored state (real Persistence file) + connect + history of MQTT deliveries
          (presentations, id requests, noise) with raising subscribe callbacks -> subscribe calls
"""
import asyncio
import itertools
import json
import os
import shutil

from harness import core
from harness.core import enc_str, dec_str

ID = "C17"
PROP_FILE = "C17.v"
RUNNER = "Mqtt"
TRANSLATORS = ["unicode_tables", "mqtt_consts"]
RULE = ("recv: every prefix over {a,1,-,/} up to length 6 (quick 4) x 22 topic shapes built from the prefix "
        "(exact, level short/long, repeated tail, foreign/shortened/extended prefix, empty, no slash, empty levels...) "
        "x qos 0..2, header grid and payload corpus rotated, plus the full cross product header x payload x qos on "
        "the prefixes up to length 2 and a list of realistic/odd prefixes; non-trivial = accepted, or rejected although the topic contains the prefix "
        "and at least five '/'. pub: prefixes x commands (header grid x carriable payloads, non-canonical spellings, "
        "unparsable, None/empty) x publish callback behaviour, published triple fed back through recv with "
        "in_prefix = out_prefix; non-trivial = published and received. hist: generated restored state written "
        "and re-read with the real Persistence, connect, then deliveries (node/child presentations incl. repeats, "
        "unknown nodes, child 255, id requests, set/req/internal/invalid noise) with subscribe callbacks raising on "
        "chosen calls; non-trivial = at least one child subscription after connect or from the restored state")
ASSUMPTIONS = [
    "callbacks raise only subclasses of Exception (KeyboardInterrupt/SystemExit are not modelled)",
    "the MQTT client hands topic and payload as str and qos as int",
    "the network state is abstracted to node ids with their child ids (insertion ordered); Sensor.sensor_id / ChildSensor.id equal their dict keys",
    "histories reach _handle_presentation only through Gateway.logic after Message.validate (the harness classifies lines with the real validator)",
    "CPython str.split/join/slicing/int() as modelled in Base/PyStr.v, Base/PyInt.v, Model/Mqtt.v (norm_idx, item_pos)",
]
TRUSTED = [
    "harness/translate/mqtt_consts.py renders literals, slice bounds, f-string templates, message type numbers and except classes of gateway_mqtt.py into Gen/MqttConsts.v",
]
THEOREMS_DOC = {
    "C17_publish_shape": "parse_message_to_mqtt: decodable line -> (/n/c/t/a/s, payload, ack); otherwise ValueError only",
    "C17_mqtt_roundtrip": "forall prefix, forall decodable line with ack in {0,1}: publish then receive = canonical line without newline; qos>0 <-> ack=1",
    "C17_mqtt_roundtrip_canonical": "forall prefix, forall m with carriable payload and ack in {0,1}: publish(encode m) then receive = encode m without newline",
    "C17_mqtt_roundtrip_any_qos": "forall prefix, line, delivered payload and qos: received line has ack = (qos>0) and the delivered payload",
    "C17_mqtt_accept_iff": "forall prefix/topic/payload/qos: accepted <-> topic = prefix ++ five '/'-free levels each preceded by '/'",
    "C17_mqtt_accept_value": "accepted topic -> l1;l2;l3;(qos>0);l5;payload",
    "C17_from_mqtt_never_raises": "parse_mqtt_to_message / recv never raise",
    "C17_subscriptions_cover": "persistence on: after connect on any restored state and any history, wildcards + set/req/stream topics of every child are subscribed, for every subscribe callback behaviour",
    "C17_subscriptions_cover_no_persistence": "persistence off: the same for every child not already known when connect ran",
    "C17_init_topics_without_persistence": "persistence off: init_topics subscribes exactly the two wildcards",
    "C17_presented_child_is_known": "a child presented to a known node is in the network afterwards",
    "C17_callbacks_cannot_stop_pump_send": "send returns normally for every message and publish callback behaviour",
    "C17_callbacks_cannot_stop_pump_subscribe": "handle_subscription returns normally and attempts every topic (topics with >= 2 levels)",
    "C17_callbacks_cannot_stop_pump_start": "connect and every history return normally for every subscribe callback behaviour",
}

# ------------------------------------------------------------------ exceptions


class OtherError(Exception):
    pass


EXN_CHARS = {"V": ValueError, "K": KeyError, "I": IndexError, "A": AttributeError, "T": TypeError,
             "O": OSError, "E": EOFError, "R": RuntimeError, "X": OtherError}


def exc_name(exc):
    import binascii
    import struct
    import voluptuous as vol
    for cls, name in ((vol.Invalid, "VolInvalid"), (binascii.Error, "BinasciiError"), (struct.error, "StructError"),
                      (ValueError, "ValueError"), (KeyError, "KeyError"), (IndexError, "IndexError"),
                      (AttributeError, "AttributeError"), (TypeError, "TypeError"), (EOFError, "EOFError"),
                      (OSError, "OSError"), (RuntimeError, "RuntimeError"), (OtherError, "OtherError")):
        if isinstance(exc, cls):
            return name
    return type(exc).__name__


# ------------------------------------------------------------------ implementation side

_LOOP = None


def loop():
    global _LOOP
    if _LOOP is None:
        _LOOP = asyncio.new_event_loop()
    return _LOOP


class Rig:
    """A real gateway with recording callbacks."""

    def __init__(self, flavour, in_prefix, out_prefix, pub_spec=".", sub_spec="", retain=True, **kw):
        from mysensors.gateway_mqtt import AsyncMQTTGateway, MQTTGateway
        self.flavour = flavour
        self.pubs = []
        self.subs = []
        self.sub_recv_ok = True
        self.pub_spec = pub_spec
        self.sub_spec = sub_spec
        cls = MQTTGateway if flavour == "sync" else AsyncMQTTGateway
        self.gw = cls(self._pub, self._sub, in_prefix=in_prefix, out_prefix=out_prefix, retain=retain, **kw)
        self.tr = self.gw.tasks.transport

    def _pub(self, topic, payload, qos, retain):
        self.pubs.append([topic, payload, qos, retain])
        exc = EXN_CHARS.get(self.pub_spec)
        if exc:
            if len(self.pubs) % 2:         # client libraries raise with and WITHOUT arguments (TimeoutError())
                raise exc()
            raise exc("publish callback failure injected by the harness")

    def _sub(self, topic, callback, qos):
        k = len(self.subs)
        self.subs.append([topic, qos])
        if callback != self.tr.recv:
            self.sub_recv_ok = False
        exc = EXN_CHARS.get(self.sub_spec[k:k + 1])
        if exc:
            if k % 2:
                raise exc()
            raise exc("subscribe callback failure injected by the harness")

    def pump(self):
        """What SyncTasks._poll_queue does, without the thread."""
        if self.flavour == "sync":
            n = 0
            while self.gw.tasks.queue:
                self.tr.send(self.gw.tasks.run_job())
                n += 1
                if n > 10000:
                    raise RuntimeError("pump does not drain")

    def connect(self):
        if self.flavour == "sync":
            self.tr.connect()
        else:
            loop().run_until_complete(self.tr.connect())

    def net(self):
        return [[nid, list(s.children.keys())] for nid, s in self.gw.sensors.items()]


def impl_recv_many(flavour, pfx, triples):
    """recv for many (topic, payload, qos) on one gateway; the line handed to Gateway.logic."""
    rig = Rig(flavour, pfx, pfx)
    lines = []
    rig.gw.logic = lambda data: lines.append(data)
    out = []
    for topic, payload, qos in triples:
        del lines[:]
        try:
            rig.tr.recv(topic, payload, qos)
            rig.pump()
        except Exception as exc:  # canonicalise by class
            out.append(["err", exc_name(exc)])
            rig.gw.tasks.queue.clear()
            continue
        if len(lines) > 1:
            out.append(["many", list(lines)])
        elif lines:
            out.append(["ok", lines[0]])
        else:
            out.append(["none"])
    return out


def impl_pub(case):
    """send(command) with a (possibly raising) publish callback, then feed the publish back."""
    pfx = case["pfx"]
    rig = Rig(case["flavour"], pfx, pfx, pub_spec=case["spec"], retain=case["retain"])
    lines = []
    rig.gw.logic = lambda data: lines.append(data)
    try:
        rig.tr.send(case["msg"])
    except Exception as exc:
        return {"send": ["err", exc_name(exc)], "back": None}
    if not rig.pubs:
        return {"send": ["none"], "back": None}
    if len(rig.pubs) > 1:
        return {"send": ["many", rig.pubs], "back": None}
    topic, payload, qos, retain = rig.pubs[0]
    obs = {"send": ["pub", topic, payload, qos, retain]}
    try:
        rig.tr.recv(topic, payload, qos)
        rig.pump()
        obs["back"] = ["ok", lines[0]] if len(lines) == 1 else (["none"] if not lines else ["many", list(lines)])
    except Exception as exc:
        obs["back"] = ["err", exc_name(exc)]
    return obs


def impl_hsub(case):
    rig = Rig(case["flavour"], case["pfx"], case["pfx"], sub_spec=case["spec"])
    topics = case["topics"]
    try:
        rig.tr.handle_subscription(topics if case.get("aslist", True) else topics[0])
    except Exception as exc:
        return ["err", exc_name(exc)]
    return ["ok", rig.subs]


PRES_NODE, PRES_CHILD, IDREQ, NOISE = "PN", "PC", "ID", "NZ"


def op_delivery(op):
    """op -> (topic tail, payload, qos, the line parse_mqtt_to_message is expected to build)"""
    k = op[0]
    if k == PRES_NODE:
        n, st, ver = op[1:]
        lv = [n, 255, 0, 0, st]
        payload = ver
    elif k == PRES_CHILD:
        n, c, st, ack, desc = op[1:]
        lv = [n, c, 0, ack, st]
        payload = desc
    elif k == IDREQ:
        lv = [255, 255, 3, 0, 3]
        payload = ""
    else:
        lv, payload = op[1], op[2]
    qos = 1 if lv[3] == 1 else 0
    line = ";".join([str(x) for x in lv[:3]] + [str(qos), str(lv[4]), payload])
    return "/" + "/".join(str(x) for x in lv), payload, qos, line


def validated(gw, line):
    """Does the line pass Message() + validate, i.e. reach its handler?"""
    import voluptuous as vol
    from mysensors.message import Message
    try:
        m = Message(line)
        m.validate(gw.protocol_version)
    except (ValueError, vol.Invalid):
        return None
    return m


def scratch():
    d = core.BUILD / "scratch" / str(os.getpid())
    d.mkdir(parents=True, exist_ok=True)
    return d


def impl_hist(case):
    """Restored state -> connect -> deliveries. Returns observation dict."""
    core.debug_logging(core.case_hash(case)[-1] in "0123")     # a quarter of the histories under DEBUG logging
    try:
        return _impl_hist(case)
    finally:
        core.debug_logging(False)


def _impl_hist(case):
    pfx = case["pfx"]
    kw = {"protocol_version": case["ver"]}
    obs = {"steps": [], "escaped": None}
    pers = case["pers"]
    fname = None
    if case["restored"]:
        # write a persistence file with the real Persistence of another gateway
        fname = str(scratch() / ("c17_%s.%s" % (core.case_hash(case), case["fmt"])))
        a = Rig(case["flavour"], pfx, pfx, persistence=True, persistence_file=fname, **kw)
        for n, cs in case["restored"]:
            a.gw.add_sensor(n)
            for c in cs:
                a.gw.sensors[n].add_child_sensor(c, 6, "restored")
        a.gw.tasks.persistence.save_sensors()
    if pers:
        rig = Rig(case["flavour"], pfx, pfx, sub_spec=case["spec"], persistence=True,
                  persistence_file=fname or str(scratch() / "c17_none.json"), **kw)
        if fname:
            rig.gw.tasks.persistence.safe_load_sensors()
    else:
        rig = Rig(case["flavour"], pfx, pfx, sub_spec=case["spec"], **kw)
        for n, cs in case["restored"]:  # state present before connect without persistence (restart / user code)
            rig.gw.add_sensor(n)
            for c in cs:
                rig.gw.sensors[n].add_child_sensor(c, 6, "present before connect")
    # a second MQTT gateway of the same version with other prefixes, created later in the same process and never
    # used: the first one's subscriptions and publishes must not go through it
    decoy = Rig(case["flavour"], "decoy-" + pfx, "decoy-" + pfx, **kw)
    obs["net0"] = rig.net()
    try:
        rig.connect()
    except Exception as exc:
        obs["escaped"] = ["connect", exc_name(exc)]
        obs["net"] = rig.net()
        obs["subs"] = rig.subs
        return obs
    obs["init"] = list(rig.subs)
    done = len(rig.subs)
    for i, op in enumerate(case["ops"]):
        tail, payload, qos, line = op_delivery(op)
        before = rig.net()
        m = validated(rig.gw, line)
        try:
            rig.tr.recv(pfx + tail, payload, qos)
            rig.pump()
        except Exception as exc:
            obs["escaped"] = [i, exc_name(exc)]
            break
        after = rig.net()
        new_nodes = [n for n, _ in after if n not in [b for b, _ in before]]
        step = {"subs": rig.subs[done:], "new_nodes": new_nodes}
        done = len(rig.subs)
        if m is not None and m.type == 0:
            step["model"] = ["P", m.node_id, m.child_id]
        elif op[0] == IDREQ:
            step["model"] = ["N"] + new_nodes if len(new_nodes) == 1 else None
        else:
            step["model"] = None
            step["changed"] = after != before
        obs["steps"].append(step)
    obs["net"] = rig.net()
    obs["subs"] = list(rig.subs)
    obs["sub_recv_ok"] = rig.sub_recv_ok
    obs["decoy"] = [t for t, _ in decoy.subs][:4] + [p[0] for p in decoy.pubs][:4]
    # the client connects a second time (broker came back / the application calls start() again): whatever the
    # first connect subscribed must be asked for again (a broker that lost the session has none of it)
    if obs["escaped"] is None:
        try:
            rig.connect()
            obs["init2"] = [t for t, _ in rig.subs[len(obs["subs"]):]]
        except Exception as exc:
            obs["escaped"] = ["second connect", exc_name(exc)]
    if fname:
        for p in (fname, fname + ".bak"):
            if os.path.exists(p):
                os.remove(p)
    return obs


# ------------------------------------------------------------------ monitors (property on the implementation only)

def expect_recv(pfx, topic, payload, qos):
    """The property: accepted iff topic = prefix + '/' + five levels."""
    head = pfx + "/"
    if topic[:len(head)] == head and topic[len(head):].count("/") == 4:
        lv = topic[len(head):].split("/")
        lv[3] = "1" if qos > 0 else "0"
        return ["ok", ";".join(lv + [payload])]
    return ["none"]


def monitor_recv(pfx, topic, payload, qos, obs):
    exp = expect_recv(pfx, topic, payload, qos)
    if obs[0] == "err":
        return "recv/raises", f"recv raised {obs[1]} for prefix {pfx!r} topic {topic!r}"
    if obs != exp:
        if exp[0] == "ok" and obs[0] == "none":
            return "recv/valid-topic-rejected", f"prefix {pfx!r}: topic {topic!r} is prefix + five levels but was dropped"
        if exp[0] == "none":
            return "recv/foreign-topic-accepted", f"prefix {pfx!r}: topic {topic!r} is not prefix + five levels but gave {obs[1]!r}"
        return "recv/wrong-line", f"prefix {pfx!r} topic {topic!r} qos {qos}: logic got {obs!r}, expected {exp!r}"
    return None


def wire_ok(p):
    return ";" not in p and p == p.rstrip()


def monitor_pub(case, obs):
    from mysensors.message import Message
    msg = case["msg"]
    s = obs["send"]
    if s[0] == "err":
        return "send/raises", f"send({msg!r}) raised {s[1]} (publish callback behaviour {case['spec']!r})"
    try:
        m = Message(msg) if msg else None
    except ValueError:
        m = None
    if m is None:
        if s[0] != "none":
            return "send/publishes-unparsable", f"send({msg!r}) published {s!r}"
        return None
    if s[0] != "pub":
        return "send/no-publish", f"send({msg!r}) did not publish exactly once: {s!r}"
    hdr = [m.node_id, m.child_id, m.type, m.ack, m.sub_type]
    topic = case["pfx"] + "/" + "/".join(str(h) for h in hdr)
    if s[1] != topic or s[2] != m.payload or s[4] != case["retain"]:
        return "send/wrong-publish", f"send({msg!r}) published {s!r}, expected topic {topic!r} payload {m.payload!r}"
    if m.ack in (0, 1):
        if (s[3] > 0) != (m.ack == 1):
            return "send/qos-ack", f"send({msg!r}): qos {s[3]} but ack {m.ack}"
        # a canonical command must come back as itself without the newline; any other
        # accepted spelling as its canonical form
        line = msg[:-1] if case.get("canonical") else ";".join(str(h) for h in hdr) + ";" + m.payload
        b = obs["back"]
        if b != ["ok", line]:
            return "roundtrip/differs", (f"prefix {case['pfx']!r}: published {s[1:4]!r} came back as {b!r}, "
                                         f"expected {line!r}")
    return None


def required_topics(pfx, net, skip=()):
    req = {pfx + "/+/+/0/+/+", pfx + "/+/+/3/+/+"}
    for n, cs in net:
        for c in cs:
            if (n, c) in skip:
                continue
            req |= {f"{pfx}/{n}/{c}/1/+/+", f"{pfx}/{n}/{c}/2/+/+", f"{pfx}/{n}/+/4/+/+"}
    return req


def monitor_hist(case, obs):
    if obs["escaped"]:
        return "subscribe/raises", f"exception {obs['escaped'][1]} escaped at step {obs['escaped'][0]} (subscribe callback behaviour {case['spec']!r})"
    skip = set()
    if not case["pers"]:
        skip = {(n, c) for n, cs in obs["net0"] for c in cs}
    have = {t for t, _ in obs["subs"]}
    missing = sorted(required_topics(case["pfx"], obs["net"], skip) - have)
    if missing:
        return "subscribe/missing", f"not subscribed: {missing[:4]} (network {obs['net']}, persistence {case['pers']})"
    if obs.get("decoy"):
        return "subscribe/through-another-gateway", f"topics {obs['decoy']} went through the callbacks of ANOTHER gateway object of the process"
    if not obs.get("sub_recv_ok", True):
        return "subscribe/callback", "subscribe callback did not receive transport.recv"
    if "init2" in obs:
        lost = sorted({t for t, _ in obs.get("init", [])} - set(obs["init2"]))
        if lost:
            return "subscribe/second-connect", f"a second connect does not subscribe {lost[:4]} again (first connect did)"
    return None


# ------------------------------------------------------------------ model side

def model_recv_line(pfx, topic, payload, qos):
    return f"frommqtt {enc_str(pfx)} {enc_str(topic)} {enc_str(payload)} {qos}"


def model_recv_obs(out):
    t = out.split(" ")
    if t[0] == "ok":
        return ["ok", dec_str(t[1])]
    if t[0] == "none":
        return ["none"]
    return ["err", t[1]]


def model_pub_lines(case, obs):
    msg = case["msg"]
    lines = [f"send {enc_str(case['pfx'])} {1 if case['retain'] else 0} {'--' if msg is None else enc_str(msg)} {case['spec']}"]
    s = obs["send"]
    if s[0] == "pub":
        lines.append(model_recv_line(case["pfx"], s[1], s[2], s[3]))
    return lines


def model_pub_obs(outs):
    t = outs[0].split(" ")
    if t[0] == "pub":
        o = {"send": ["pub", dec_str(t[1]), dec_str(t[2]), int(t[3]), t[4] == "1"]}
    elif t[0] == "none":
        o = {"send": ["none"]}
    else:
        o = {"send": ["err", t[1]]}
    o["back"] = model_recv_obs(outs[1]) if len(outs) > 1 else None
    return o


def dec_subs(out):
    t = out.split(" ")
    if t[0] == "err":
        return ["err", t[1]]
    return ["ok", [[dec_str(t[i]), int(t[i + 1])] for i in range(1, len(t) - 1, 2)]]


def model_hsub_line(case):
    return f"hsub {enc_str(case['pfx'])} 0 r{case['spec']} " + " ".join(enc_str(t) for t in case["topics"])


def model_hist_lines(case, obs):
    lines = [f"net {n} " + " ".join(str(c) for c in cs) for n, cs in obs["net0"]]
    lines = [l.rstrip() for l in lines]
    lines.append(f"init {enc_str(case['pfx'])} {1 if case['pers'] else 0} r{case['spec']}")
    for st in obs["steps"]:
        if st["model"]:
            lines.append("op " + " ".join(str(x) for x in st["model"]))
    lines.append("state")
    return lines


def compare_hist(case, obs, outs):
    """Returns None or text."""
    k = len(obs["net0"])
    if any(o != "ok" for o in outs[:k]):
        return "model rejected the restored state"
    init = dec_subs(outs[k])
    if obs["escaped"] and obs["escaped"][0] == "connect":
        return None if init[0] == "err" and init[1] == obs["escaped"][1] else f"connect raised {obs['escaped'][1]}, model {init}"
    if init != ["ok", obs["init"]]:
        return f"init_topics: model {init} != implementation {obs['init']}"
    j = k + 1
    for i, st in enumerate(obs["steps"]):
        if st["model"] is None:
            if st["subs"] or st.get("changed") or st["new_nodes"]:
                return f"step {i} ({case['ops'][i]}) is outside the model but changed the network or subscribed {st['subs']}"
            continue
        if st["model"][0] == "N":
            if outs[j] != "ok" or st["subs"]:
                return f"step {i}: id request subscribed {st['subs']}"
        else:
            m = dec_subs(outs[j])
            if m != ["ok", st["subs"]]:
                return f"step {i} ({case['ops'][i]}): model {m} != implementation {st['subs']}"
        j += 1
    if obs["escaped"]:
        return f"implementation raised {obs['escaped']} but the model never raises"
    net = "net" + "".join(" %d:%s" % (n, ",".join(str(c) for c in cs)) for n, cs in obs["net"])
    if outs[j] != net:
        return f"final network: model {outs[j]!r} != implementation {net!r}"
    return None


# ------------------------------------------------------------------ generators

ALPHA = "a1-/"
HEADERS = [("1", "2", "1", "0", "2"), ("0", "0", "0", "0", "0"), ("255", "255", "3", "1", "6"), ("254", "254", "4", "0", "0"),
           ("12", "0", "2", "1", "47"), ("7", "3", "1", "0", "2"), ("a", "b", "c", "d", "e"), ("", "", "", "", ""),
           ("01", "+2", " 3", "1_0", "x"), ("1", "1", "1", "1", "1"), ("+", "+", "0", "+", "+"), ("-", "a1", "1", "-", "a")]
RECV_PAYLOADS = ["", "on", "12.5", "a;b", " lead", "trail ", "x/y", "é☃", "0", "a\nb", "#", "1;2;3;4;5;6"]
ODD_PREFIXES = ["attic(2)/mys-out", "gw[1]-out", "what?/out", "a.b", "a+b*", "^in$", "c:\\gw", "{x}|y",   # regex metacharacters
                "mygateway1-in", "mysensors/in", "1/2/1/0/2", "0/0/0/0/0", "a/1/2/1/0/2", "+", "#", "in/+/x", "é/☃",
                "a b", "/", "//", "a/", "/a", "1", "12/255", ";", "a;b", "sensors-out/1/2/3/4/5/6/7/8"]


def prefixes(maxlen):
    out = []
    for k in range(maxlen + 1):
        out.extend("".join(p) for p in itertools.product(ALPHA, repeat=k))
    return out


def topic_shapes(pfx, h):
    """Topics built from a prefix and five levels."""
    hs = "/".join(h)
    return [
        pfx + "/" + hs,                       # exact
        pfx + "/" + "/".join(h[1:]),          # one level short
        pfx + "/" + hs + "/9",                # one level long
        pfx + "/x/" + hs,                     # extra level after the prefix
        pfx + "/" + hs + "/" + hs,            # repeated tail
        pfx + "/" + hs + "/x/" + hs,          # repeated tail behind another level
        "zz/" + hs,                           # foreign prefix
        pfx[:-1] + "/" + hs,                  # shortened prefix
        "x" + pfx + "/" + hs,                 # extended prefix (front)
        pfx + "x/" + hs,                      # extended prefix (back)
        "x/" + pfx + "/" + hs,                # prefix one level deeper
        "",                                   # empty
        "x",                                  # no slash
        pfx,                                  # the prefix alone
        pfx.replace("/", ""),                 # prefix without slashes
        "/" + hs,                             # header only (valid for the empty prefix)
        hs,                                   # header without leading slash
        pfx + hs,                             # slash between prefix and header missing
        pfx + "/////",                        # five empty levels
        pfx + "/" + hs + "/",                 # trailing slash
        pfx + "//" + hs,                      # empty level after the prefix
        hs + "/" + pfx + "/" + hs,            # levels in front of the prefix
    ]


def gen_recv(ctx):
    """dict prefix -> list of (topic, payload, qos)"""
    plist = prefixes(4 if ctx.tier == "quick" else 6)
    if ctx.searching and ctx.tier == "quick":
        plist = prefixes(5)
    # hand-seeded corpus first: the D16 witnesses
    plan = {"1/2/1/0/2": [("1/2/1/0/2/1/2/1/0/2", "p", 0)], "a": [("a/1/2/1/0/2/x/1/2/1/0/2", "", 0)], "": [("x", "", 0)]}
    k = 0
    for pi, pfx in enumerate(plist):
        tr = plan.setdefault(pfx, [])
        for si in range(22):
            for qos in (0, 1, 2):
                h = HEADERS[k % len(HEADERS)]
                p = RECV_PAYLOADS[(k // 7) % len(RECV_PAYLOADS)]
                k += 5
                tr.append((topic_shapes(pfx, h)[si], p, qos))
        plan[pfx] = tr
    # full cross product on the short and the odd prefixes
    small = prefixes(2) + ODD_PREFIXES
    hs = HEADERS if ctx.tier == "thorough" else HEADERS[:5]
    ps = RECV_PAYLOADS if ctx.tier == "thorough" else RECV_PAYLOADS[:4]
    for pfx in small:
        tr = plan.setdefault(pfx, [])
        for h in hs:
            shapes = topic_shapes(pfx, h)
            for t in shapes:
                for p in ps:
                    for qos in (0, 1, 2):
                        tr.append((t, p, qos))
    return plan


PUB_PAYLOADS = ["", "1", "on", "23.5", "hello world", "a/b", "+/#", " lead", "é☃\U0001f600", "in\nner", "x" * 40, "1/2/1/0/2"]
PUB_HEADERS = [(1, 2, 1, 0, 2), (0, 0, 0, 0, 0), (255, 255, 3, 0, 6), (254, 254, 4, 1, 0), (12, 0, 2, 1, 47), (7, 3, 1, 1, 2),
               (1, 255, 3, 0, 4), (300, -1, 9, 1, 70000), (2 ** 40, 5, 1, 0, 1)]
PUB_ODD = [  # (message, canonical?)
    (" 1_0;+2;1;0;2;x \n", False), ("1;2;1;0;2;x", False), ("1;2;1;1;2;x\r\n", False), ("١;2;1;1;2;x\n", False),
    ("1;2;1;0;2;a;b\n", False), ("1;2;1;0;2\n", False), ("a;b;c;d;e;f\n", False), ("1;2;1;0;;x\n", False),
    ("1.0;2;1;0;2;x\n", False), (";;;;;\n", False), ("\n", False), (" ", False), ("", False), (None, False),
    ("1;2;1;2;3;x\n", False), ("1;2;1;-1;3;x\n", False), ("1;2;1;0;2;x;\n", False), ("1;2;1;0;2;trail \n", False),
]


def gen_pub(ctx):
    rng = ctx.rng("c17-pub")
    plist = prefixes(2 if ctx.tier == "quick" else 3) + ODD_PREFIXES
    cases = []
    k = 0
    for pfx in plist:
        for hi, h in enumerate(PUB_HEADERS):
            for pi, p in enumerate(PUB_PAYLOADS):
                if ctx.tier == "quick" and ctx.scale == 1 and (hi + pi + k) % 3:
                    continue
                k += 1
                cases.append({"kind": "pub", "flavour": "sync" if k % 2 else "async", "pfx": pfx,
                              "msg": ";".join(str(x) for x in h) + ";" + p + "\n", "canonical": True,
                              "spec": ".RKVOXTAI"[k % 9] if k % 4 == 0 else ".", "retain": k % 5 != 0})
        for msg, _ in PUB_ODD:
            k += 1
            cases.append({"kind": "pub", "flavour": "sync" if k % 2 else "async", "pfx": pfx, "msg": msg,
                          "spec": ".V"[k % 2] if k % 6 < 2 else ".", "retain": True})
    # random commands
    from harness.gen import text
    for _ in range(ctx.budget(600, 20000)):
        k += 1
        pfx = rng.choice(plist)
        r = rng.random()
        if r < 0.6:
            h = [rng.randrange(0, 256), rng.randrange(0, 256), rng.randrange(0, 5), rng.randrange(0, 2), rng.randrange(0, 60)]
            msg = ";".join(str(x) for x in h) + ";" + text.payload(rng, wire_ok=True) + "\n"
            canonical = True
        elif r < 0.8:
            hs = [text.int_spelling(rng, valid=True)[0] for _ in range(5)]
            msg = ";".join(hs + [text.payload(rng)]) + rng.choice(["", "\n", " \n"])
            canonical = False
        elif r < 0.95:
            hs = [text.int_spelling(rng, valid=True)[0] for _ in range(5)]
            hs[rng.randrange(5)] = text.int_spelling(rng, valid=False)[0]
            msg = ";".join(hs[:rng.choice([5, 5, 4])] + [text.payload(rng)]) + "\n"
            canonical = False
        else:
            msg = text.garbage(rng)
            canonical = False
        d = {"kind": "pub", "flavour": rng.choice(["sync", "async"]), "pfx": pfx, "msg": msg,
             "spec": rng.choice("......RKVOX"), "retain": rng.random() < 0.8}
        if canonical:
            d["canonical"] = True
        cases.append(d)
    return cases


def gen_hsub(ctx):
    rng = ctx.rng("c17-hsub")
    cases = []
    pool = ["/+/+/0/+/+", "/1/2/1/+/+", "/1/+/4/+/+", "/1/2/1/2/+", "/1/2/1/ 1 /+", "/1/2/1/-1/+", "/1/2/1/٢/x", "x", "", "/",
            "a/b", "/1/2/1/1_0/5", "/1/2/1/1.5/5", "#", "/x/9/"]
    for _ in range(ctx.budget(300, 6000)):
        pfx = rng.choice(["", "a", "in/1", "/", "1/2/1/0/2", "7/"])
        n = rng.choice([1, 1, 2, 3, 5])
        topics = [rng.choice(pool) for _ in range(n)]
        spec = "".join(rng.choice("....RKVOXI") for _ in range(n))
        cases.append({"kind": "hsub", "flavour": rng.choice(["sync", "async"]), "pfx": pfx, "topics": topics,
                      "spec": spec, "aslist": not (n == 1 and rng.random() < 0.3)})
    return cases


NODE_POOL = [0, 1, 2, 7, 100, 254, 255]
CHILD_POOL = [0, 1, 2, 5, 254]
VERSIONS = ["1.4", "1.5", "2.0", "2.2"]


def gen_hist_case(rng, i):
    nodes = rng.sample(NODE_POOL, rng.choice([1, 2, 3]))
    restored = []
    if rng.random() < 0.6:
        for n in rng.sample(NODE_POOL, rng.choice([1, 2])):
            restored.append([n, rng.sample(CHILD_POOL, rng.choice([0, 1, 2, 3]))])
    ops = []
    for _ in range(rng.choice([1, 2, 4, 6, 9, 14])):
        r = rng.random()
        n = rng.choice(nodes + [x for x, _ in restored]) if rng.random() < 0.9 else rng.choice(NODE_POOL)
        if r < 0.2:
            ops.append([PRES_NODE, n, rng.choice([17, 18]), rng.choice(["2.2.0", "1.4", ""])])
        elif r < 0.7:
            c = rng.choice(CHILD_POOL) if rng.random() < 0.93 else 255
            st = rng.choice([0, 1, 3, 6, 6, 6, 999]) if c != 255 else 17
            ops.append([PRES_CHILD, n, c, st, rng.choice([0, 0, 0, 1]), rng.choice(["", "temp", "a b", "x/y"])])
        elif r < 0.78:
            ops.append([IDREQ])
        else:
            c = rng.choice(CHILD_POOL)
            lv, p = rng.choice([([n, c, 1, 0, 2], "1"), ([n, c, 2, 0, 2], ""), ([n, 255, 3, 0, 0], "55"),
                                ([n, c, 1, 0, 999], "1"), ([n, 255, 3, 0, 11], "sketch"), ([n, c, 9, 0, 0], ""),
                                ([n, "x", 1, 0, 2], "1"), ([n, 255, 3, 0, 22], ""), ([n, c, 0, 2, 6], "bad ack")])
            ops.append([NOISE, lv, p])
    nsub = 2 + 3 * len(ops) + 7 * sum(1 + len(cs) for _, cs in restored)
    spec = "".join(rng.choice("." * 12 + "RKVOXTAIE") for _ in range(nsub)) if rng.random() < 0.5 else ""
    return {"kind": "hist", "flavour": "sync" if i % 2 else "async", "pfx": rng.choice(["", "in", "mysensors/in-1", "1/2/1/0/2", "/", "a/"]),
            "ver": rng.choice(VERSIONS), "pers": rng.random() < 0.65, "fmt": rng.choice(["json", "pickle"]),
            "restored": restored, "ops": ops, "spec": spec}


HIST_CORPUS = [
    {"kind": "hist", "flavour": "sync", "pfx": "in", "ver": "2.2", "pers": True, "fmt": "json", "restored": [[7, [0, 3]]],
     "ops": [[PRES_NODE, 1, 17, "2.2.0"], [PRES_CHILD, 1, 4, 6, 0, "t"], [PRES_CHILD, 1, 4, 6, 0, "again"],
             [PRES_CHILD, 9, 1, 6, 0, "unknown node"], [IDREQ], [PRES_CHILD, 8, 0, 3, 1, ""]], "spec": "...O"},
    {"kind": "hist", "flavour": "async", "pfx": "p", "ver": "1.4", "pers": False, "fmt": "json", "restored": [[7, [0]]],
     "ops": [[PRES_CHILD, 7, 1, 6, 0, ""], [PRES_CHILD, 7, 0, 6, 0, ""]], "spec": ""},
    {"kind": "hist", "flavour": "sync", "pfx": "", "ver": "2.0", "pers": True, "fmt": "pickle", "restored": [[0, [254]], [255, []]],
     "ops": [[PRES_CHILD, 255, 0, 6, 0, ""], [PRES_CHILD, 0, 255, 17, 0, "2.0"]], "spec": "RRRRRRRRRRRR"},
]


# ------------------------------------------------------------------ run

def chunked(lines, n):
    size = max(1, (len(lines) + n - 1) // n)
    return [lines[i:i + size] for i in range(0, len(lines), size)]


def model_stateless(ctx, lines):
    if ctx.model is None:
        return None
    chunks = chunked(lines, 16)
    outs = ctx.model.sessions(chunks)
    return [o for part in outs for o in part]


def run_recv(ctx, res, xin, xout):
    plan = gen_recv(ctx)
    cases, obs = [], []
    for i, (pfx, triples) in enumerate(plan.items()):
        for flavour in (("sync", "async") if len(pfx) <= 3 or pfx in ODD_PREFIXES else (("sync",) if i % 2 else ("async",))):
            o = impl_recv_many(flavour, pfx, triples)
            for (t, p, q), ob in zip(triples, o):
                cases.append((flavour, pfx, t, p, q))
                obs.append(ob)
    lines = [model_recv_line(pfx, t, p, q) for _, pfx, t, p, q in cases]
    outs = model_stateless(ctx, lines)
    res.extra["recv_prefixes"] = len(plan)
    for i, ((flavour, pfx, t, p, q), ob) in enumerate(zip(cases, obs)):
        res.evaluations += 1
        res.count("recv:" + ob[0])
        if ob[0] == "ok" or (pfx in t and t.count("/") >= 5):
            res.nontriv(("r", pfx, t, q))
        case = {"kind": "recv", "flavour": flavour, "pfx": pfx, "topic": t, "payload": p, "qos": q}
        why = monitor_recv(pfx, t, p, q, ob)
        if why:
            res.violate(why[0], why[1], case, kind="monitor")
        if outs is not None:
            mo = model_recv_obs(outs[i])
            if mo != ob:
                res.violate("corr:recv", f"model {mo!r} != implementation {ob!r} for prefix {pfx!r} topic {t!r}", case,
                            kind="correspondence", found_input=False)
            if i % 997 == 0 and len(xin) < 120:
                xin.append(lines[i])
                xout.append(outs[i])
        if i % 40009 == 11:
            res.sample({"case": case, "impl": ob})


def run_pub(ctx, res, xin, xout):
    cases = gen_pub(ctx)
    obs = [impl_pub(c) for c in cases]
    lines, spans = [], []
    for c, o in zip(cases, obs):
        ls = model_pub_lines(c, o)
        spans.append((len(lines), len(ls)))
        lines.extend(ls)
    outs = model_stateless(ctx, lines)
    for i, (c, o) in enumerate(zip(cases, obs)):
        res.evaluations += 1
        res.count("pub:" + o["send"][0] + ("/raising-callback" if c["spec"] != "." else ""))
        if o["send"][0] == "pub" and o["back"] and o["back"][0] == "ok":
            res.nontriv(("p", c["pfx"], c["msg"]))
        why = monitor_pub(c, o)
        if why:
            res.violate(why[0], why[1], c, kind="monitor")
        if outs is not None:
            a, n = spans[i]
            mo = model_pub_obs(outs[a:a + n])
            if mo != o:
                res.violate("corr:pub", f"model {mo!r} != implementation {o!r}", c, kind="correspondence", found_input=False)
            if i % 97 == 0 and len(xin) < 220:
                xin.extend(lines[a:a + n])
                xout.extend(outs[a:a + n])
        if i % 1511 == 3:
            res.sample({"case": c, "impl": o})


def run_hsub(ctx, res, xin, xout):
    cases = gen_hsub(ctx)
    obs = [impl_hsub(c) for c in cases]
    lines = [model_hsub_line(c) for c in cases]
    outs = model_stateless(ctx, lines)
    for i, (c, o) in enumerate(zip(cases, obs)):
        res.evaluations += 1
        res.count("hsub:" + (o[0] if o[0] == "ok" else o[1]))
        if o[0] == "ok" and any(ch != "." for ch in c["spec"]):
            res.nontriv(("h", c["pfx"], tuple(c["topics"]), c["spec"]))
        if o[0] == "err" and all("/" in (c["pfx"] + t) for t in c["topics"]):
            res.violate("subscribe/raises", f"handle_subscription raised {o[1]} (callback behaviour {c['spec']!r})", c, kind="monitor")
        if o[0] == "ok" and [t for t, _ in o[1]] != [c["pfx"] + t for t in c["topics"]]:
            res.violate("subscribe/skipped", f"handle_subscription did not attempt every topic: {o[1]}", c, kind="monitor")
        if outs is not None:
            mo = dec_subs(outs[i])
            if mo != o:
                res.violate("corr:hsub", f"model {mo!r} != implementation {o!r}", c, kind="correspondence", found_input=False)
            if i % 37 == 0 and len(xin) < 260:
                xin.append(lines[i])
                xout.append(outs[i])


def run_hist(ctx, res, xs):
    rng = ctx.rng("c17-hist")
    cases = list(HIST_CORPUS) + [gen_hist_case(rng, i) for i in range(ctx.budget(700, 12000))]
    obs = [impl_hist(c) for c in cases]
    sessions = [model_hist_lines(c, o) for c, o in zip(cases, obs)]
    outs = ctx.model.sessions(sessions) if ctx.model is not None else None
    for i, (c, o) in enumerate(zip(cases, obs)):
        res.evaluations += 1
        nchild = sum(len(cs) for _, cs in o.get("net", []))
        res.count("hist:" + ("escaped" if o["escaped"] else "children=%s" % min(nchild, 4)) + ("/pers" if c["pers"] else "/nopers"))
        for st in o["steps"]:
            res.count("hist-op:" + ("outside-model" if st["model"] is None else st["model"][0] + ("+sub" if st["subs"] else "")))
        if len(o.get("subs", [])) > 2:
            res.nontriv(("s", core.case_hash(c)))
        why = monitor_hist(c, o)
        if why:
            res.violate(why[0], why[1], c, kind="monitor")
        if outs is not None:
            diff = compare_hist(c, o, outs[i])
            if diff:
                res.violate("corr:hist", diff, c, kind="correspondence", found_input=False)
            if i % 53 == 0 and len(xs) < 12:
                xs.append((sessions[i], outs[i]))
        if i in (0, 5):
            res.sample({"case": c, "impl": {k: o.get(k) for k in ("net0", "init", "net", "escaped")}})


def run(ctx, res):
    xin, xout, xs = [], [], []
    try:
        run_recv(ctx, res, xin, xout)
        run_pub(ctx, res, xin, xout)
        run_hsub(ctx, res, xin, xout)
        run_hist(ctx, res, xs)
    finally:
        shutil.rmtree(core.BUILD / "scratch" / str(os.getpid()), ignore_errors=True)
    res.extra["exhaustive_subspaces"] = [
        "prefixes over {a,1,-,/} up to length %d x 22 topic shapes x qos 0..2"
        % (4 if ctx.tier == "quick" and not ctx.searching else (5 if ctx.tier == "quick" else 6)),
        "prefixes up to length 2 and %d odd prefixes x header grid x 22 topic shapes x payload corpus x qos 0..2" % len(ODD_PREFIXES)]
    if ctx.model is not None and not ctx.searching:
        ins = [xin] + [["reset"] + s for s, _ in xs]
        outs = [xout] + [["ok"] + o for _, o in xs]
        n, ok, lg = core.coq_crosscheck(ins, outs, "c17", shell="Mqtt")
        res.extra["extraction_crosschecks"] = n
        if not ok:
            res.violate("xcheck", "extracted runner disagrees with vm_compute: " + lg[-300:], {"tag": "c17"},
                        kind="correspondence", found_input=False)


def replay(ctx, case):
    c = case["case"] if "case" in case else case
    kind = c["kind"]
    out = {"case": c}
    if kind == "recv":
        o = impl_recv_many(c["flavour"], c["pfx"], [(c["topic"], c["payload"], c["qos"])])[0]
        why = monitor_recv(c["pfx"], c["topic"], c["payload"], c["qos"], o)
        out.update(impl=o, expected=expect_recv(c["pfx"], c["topic"], c["payload"], c["qos"]))
        if ctx.model is not None:
            out["model"] = model_recv_obs(ctx.model.batch([model_recv_line(c["pfx"], c["topic"], c["payload"], c["qos"])])[0])
    elif kind == "pub":
        o = impl_pub(c)
        why = monitor_pub(c, o)
        out["impl"] = o
        if ctx.model is not None:
            out["model"] = model_pub_obs(ctx.model.batch(model_pub_lines(c, o)))
    elif kind == "hsub":
        o = impl_hsub(c)
        why = None
        if o[0] == "err" and all("/" in (c["pfx"] + t) for t in c["topics"]):
            why = ("subscribe/raises", f"handle_subscription raised {o[1]}")
        elif o[0] == "ok" and [t for t, _ in o[1]] != [c["pfx"] + t for t in c["topics"]]:
            why = ("subscribe/skipped", "not every topic attempted")
        out["impl"] = o
        if ctx.model is not None:
            out["model"] = dec_subs(ctx.model.batch([model_hsub_line(c)])[0])
    elif kind == "hist":
        try:
            o = impl_hist(c)
        finally:
            shutil.rmtree(core.BUILD / "scratch" / str(os.getpid()), ignore_errors=True)
        why = monitor_hist(c, o)
        out["impl"] = o
        if ctx.model is not None:
            outs = ctx.model.batch(["reset"] + model_hist_lines(c, o))[1:]
            out["model"] = outs
            out["model_diff"] = compare_hist(c, o, outs)
    else:
        raise AssertionError(kind)
    out["monitor"] = list(why) if why else None
    out["violates"] = bool(why)
    return out
