"""C09 - OTA serves exactly the firmware it advertised.

Correspondence Model.Hex / Model.Ota / Model.IntelHex / Model.OtaServe <-> mysensors.ota
(+ handler.handle_stream, task.update_fw through the real Gateway.logic), plus monitors that
evaluate the property directly on the implementation (independent reassembly, independent CRC).
"""
import os
import shutil

from harness import core
from harness.core import enc_str, dec_str

ID = "C09"
PROP_FILE = "C09.v"
RUNNER = "Ota"
TRANSLATORS = ["ota_consts"]
RULE = ("cases: prepare (image lengths: every small length, all 16-/128-byte boundaries +-1 up to 32768, random "
        "contents), crc (arbitrary data), hex2int/int2hex (valid, every error class), ihex (files written by the "
        "harness' own encoder, hand-built record lists with gaps/02/04/03/05 records, mutated files), session (real "
        "BaseSyncGateway: present 1-3 nodes, update_fw/make_update, config and block requests in permuted/repeated/"
        "interleaved order, malformed requests). non-trivial = prepare/crc: distinct (length, content) with length>0; "
        "hex2int/int2hex: distinct input (accepted, or rejected by a named error class); ihex: distinct text; "
        "session: at least one node received its config response and all blocks 0..B-1 and the reassembly check ran; "
        "republish sessions: image A under (t,v), none/some/all blocks fetched, a DIFFERENT image B under the same (t,v) "
        "(make_update or .hex file; same and/or other node), new config request + complete download, then a restart + "
        "second complete download")
ASSUMPTIONS = [
    "binascii.hexlify/unhexlify, struct '<nH', Python slices and int() behave as modelled in Model/Hex.v, Model/Ota.v "
    "(checked by correspondence only)",
    "crcmod's predefined 'modbus' CRC is the bit-serial CRC of Model/Ota.v (checked by correspondence, by the catalogue "
    "check value and by an independent Python CRC in the monitor)",
    "intelhex.IntelHex.fromfile(format='hex') + tobinstr() behave as Model/IntelHex.v on decoded text (record types "
    "00..05, checksum, overlap, EOF record, holes 0xFF); validated by correspondence only; file existence/readability "
    "and UTF-8 decoding of the file are outside the model",
    "firmware type/version are passed to update_fw/make_update as int or str; node ids as ints",
    "int(len/16) in prepare_fw is exact (float division) below 2^53 bytes; the 16-bit block count premise "
    "(blocks <= 65535, i.e. images below 1 MiB) is explicit in the theorems about the config response",
    "the gating of OTA sessions (which store a node is in) is modelled as far as respond_fw/_get_fw need it; "
    "Sensor.reboot and the presentation request for unknown nodes are outside C09",
]
TRUSTED = [
    "harness/translate/ota_consts.py (AST of ota.py -> Gen/OtaConsts.v: FIRMWARE_BLOCK_SIZE, page literal, pad byte)",
    "harness/props/c09.py: FakeTransport, the harness' Intel-HEX writer, the independent CRC-16/MODBUS and reassembly",
]
THEOREMS_DOC = {
    "C09_constants": "block size, page size and pad byte of the model = the literals in ota.py now",
    "C09_prepare_shape": "forall img: data = img ++ 0xFF^k, 1<=k<=128 (k=128 iff len%128=0), len%128=0, len=16*blocks, crc=crc16(data)",
    "C09_prepare_bytes": "padding keeps a byte string a byte string",
    "C09_blocks_concat": "blocks 0..B-1 in order concatenate to the data (len = 16*B)",
    "C09_prepared_blocks": "len(data) = 16 * blocks as nat for every prepared image",
    "C09_block_length": "every block with 16*i+16 <= len has length 16",
    "C09_block_beyond": "an index at or beyond the end yields the empty block",
    "C09_reassemble_any_order": "any request order with repetitions covering 0..B-1 reassembles the data",
    "C09_response_payload": "block response payload = hex(le16 t ++ le16 v ++ le16 i) ++ hex(block i) for 16-bit t, v, i",
    "C09_response_echo": "parsing the response gives back exactly (t, v, i) and the block",
    "C09_config_payload": "config response payload = hex(le16 t ++ le16 v ++ le16 blocks ++ le16 crc)",
    "C09_config_payload_overflow": "blocks > 65535 (image >= 1 MiB - 127 bytes): the config payload raises struct.error (boundary, outside 1..32768)",
    "C09_config_echo": "unpacking the config payload gives (t, v, blocks, crc)",
    "C09_unhexlify_hexlify": "forall byte strings b: unhexlify(hexlify(b)) = b",
    "C09_hexlify_unhexlify": "unhexlify s = b -> b is a byte string and hexlify b = lower(s)",
    "C09_unpack_pack": "forall words in range: unpack(pack(ws)) = ws",
    "C09_pack_unpack": "forall byte strings of length 2n: pack(unpack(b)) = b, all words in range",
    "C09_pack_total": "pack succeeds iff all words are in 0..65535, else struct.error",
    "C09_fw_hex_int_roundtrip": "fw_hex_to_int(fw_int_to_hex(ws), len ws) = ws",
    "C09_fw_hex_to_int_errors": "fw_hex_to_int raises only ValueError, binascii.Error, struct.error",
    "C09_crc_range": "the CRC of a byte string fits 16 bits",
    "C09_answers_history_independent": "after any history of stream requests a block answer is None or a function of (firmware dict, request)",
    "C09_requests_keep_firmware": "stream requests never modify the firmware dict",
    "C09_block_request_never_raises": "respond_fw never raises, whatever the payload",
    "C09_config_advertises": "a config response advertises the firmware stored under the id the node is scheduled for",
    "C09_serve_blocks": "any sequence of (node, index) block requests by active nodes is answered one by one with header + block",
    "C09_end_to_end": "make_update(img); config request; any history; block request i -> advertised (B, CRC) of prepare(img) and block i of it",
    "C09_republish_serves_new": "after make_update stored img under (t,v) - whatever image/sessions/history the state held - every later block answer for (t,v), after any further requests, is a block of the NEW prepared image or no answer",
    "C09_make_update_rejects": "non-integer or non-16-bit type/version: make_update changes nothing",
    "C09_invariant": "invariant (firmwares prepared from byte strings with blocks<=65535, ids 16-bit) holds initially, is kept, and implies respond_fw_config cannot raise",
    "C09_ihex_roundtrip": "ihex_load(ihex_encode(img)) = img for every byte string < 4 GiB, record length 1..255, either letter case",
}

VERSIONS = ["1.4", "1.5", "2.0", "2.1", "2.2"]
WORD_GRID = [0, 1, 255, 256, 65535]
MAXLEN = 32768


# ---------------------------------------------------------------- independent reference code (monitor side)

def crc16_modbus(data):
    """CRC-16/MODBUS, bit-serial; independent of crcmod and of the Coq model."""
    crc = 0xFFFF
    for b in data:
        crc ^= b
        for _ in range(8):
            crc = (crc >> 1) ^ 0xA001 if crc & 1 else crc >> 1
    return crc


def spec_blocks(n):
    """Number of 16-byte blocks the property allows for an image of n bytes (pad to next page, full page if aligned)."""
    return (n + 128 - n % 128) // 16


def le16s(b):
    return [b[i] | (b[i + 1] << 8) for i in range(0, len(b), 2)]


def words_hex(ws, upper=False):
    s = "".join("%02x%02x" % (w & 255, (w >> 8) & 255) for w in ws)
    return s.upper() if upper else s


def ihex_line(addr, typ, data, upper=True, bad_sum=0):
    body = [len(data) & 255, (addr >> 8) & 255, addr & 255, typ & 255] + list(data)
    body.append((-(sum(body)) + bad_sum) & 255)
    s = "".join("%02X" % x for x in body)
    return ":" + (s if upper else s.lower())


def ihex_write(img, reclen=16, upper=True, eol="\n"):
    """The harness' own Intel-HEX writer (not intelhex's): contiguous image at address 0."""
    lines = []
    upper16 = 0
    for off in range(0, len(img), reclen):
        if off >> 16 != upper16:
            upper16 = off >> 16
            lines.append(ihex_line(0, 4, [upper16 >> 8, upper16 & 255], upper))
        lines.append(ihex_line(off & 0xFFFF, 0, img[off:off + reclen], upper))
    lines.append(ihex_line(0, 1, [], upper))
    return "".join(l + eol for l in lines)


def exc_name(exc):
    import binascii
    import struct
    for cls, name in ((binascii.Error, "BinasciiError"), (struct.error, "StructError"), (ValueError, "ValueError"),
                      (KeyError, "KeyError"), (IndexError, "IndexError"), (AttributeError, "AttributeError"),
                      (TypeError, "TypeError"), (OSError, "OSError")):
        if isinstance(exc, cls):
            return name
    return type(exc).__name__


# ---------------------------------------------------------------- generators

def boundary_lengths():
    s = set()
    for k in range(1, MAXLEN // 16 + 1):
        for d in (-1, 0, 1):
            n = k * 16 + d
            if 1 <= n <= MAXLEN:
                s.add(n)
    return sorted(s)


def page_boundary_lengths():
    return sorted({k * 128 + d for k in range(1, MAXLEN // 128 + 1) for d in (-1, 0, 1) if 1 <= k * 128 + d <= MAXLEN})


def rand_bytes(rng, n):
    k = rng.random()
    if k < 0.08:
        return bytes([0xFF]) * n
    if k < 0.14:
        return bytes(n)
    if k < 0.2:
        return bytes((i * 7 + 3) & 255 for i in range(n))
    return rng.randbytes(n)


def gen_lengths(ctx, rng):
    if ctx.tier == "quick":
        small = list(range(0, 401))
        pb = page_boundary_lengths()
        bl = boundary_lengths()
        extra = rng.sample(pb, min(len(pb), 50 * ctx.scale)) + \
            rng.sample(bl, min(len(bl), 50 * ctx.scale)) + [MAXLEN, MAXLEN - 1, MAXLEN - 127, MAXLEN - 128]
    else:
        small = list(range(0, 2201))
        bl = boundary_lengths()
        extra = page_boundary_lengths() + rng.sample(bl, min(len(bl), 1500 * min(ctx.scale, 4))) + [MAXLEN]
    return small + extra


def rand_word(rng):
    return rng.choice(WORD_GRID) if rng.random() < 0.5 else rng.randrange(0, 65536)


HEX_BAD_ASCII = ["g", "G", " ", "_", "+", "-", "x", "\t", "\n", "\x00", ".", ":", "@", "`", "/"]
HEX_NON_ASCII = ["\xe9", "١", "Ａ", "٠", "\U0001d7d8", "\x80", "\xff", " ", "\ud800"]


def gen_hex2int(rng):
    words = rng.choice([0, 1, 2, 3, 3, 3, 4, 5, 5, 5, 6])
    k = rng.random()
    raw = rng.randbytes(2 * words)
    s = raw.hex()
    if rng.random() < 0.4:
        s = "".join(c.upper() if rng.random() < 0.5 else c for c in s)
    why = "valid"
    if k < 0.35:
        pass
    elif k < 0.5:
        n = max(0, words + rng.choice([-2, -1, 1, 2, 7]))
        s = rng.randbytes(2 * n).hex()
        why = "valid" if n == words else "length"
    elif k < 0.62:
        s = s + rng.choice("0123456789abcdefABCDEF") if rng.random() < 0.6 or not s else s[:-1]
        why = "odd"
    elif k < 0.8:
        pos = rng.randrange(len(s) + 1)
        bad = rng.choice(HEX_BAD_ASCII)
        s = s[:pos] + bad + (s[pos + 1:] if rng.random() < 0.6 else s[pos:])
        why = "nonhex"
    elif k < 0.95:
        pos = rng.randrange(len(s) + 1)
        bad = rng.choice(HEX_NON_ASCII)
        s = s[:pos] + bad + (s[pos + 1:] if rng.random() < 0.6 else s[pos:])
        if rng.random() < 0.3:
            s += rng.choice(HEX_BAD_ASCII)
        why = "nonascii"
    else:
        s = "".join(rng.choice("0123456789abcdef gG\xe9") for _ in range(rng.randrange(0, 14)))
        why = "garbage"
    return {"kind": "hex2int", "s": s, "words": words, "why": why}


def gen_int2hex(rng):
    n = rng.choice([0, 1, 2, 3, 3, 4, 4, 5])
    ws = [rand_word(rng) for _ in range(n)]
    if rng.random() < 0.3 and n:
        ws[rng.randrange(n)] = rng.choice([-1, 65536, 65537, -65536, 2 ** 31, 2 ** 70, -(2 ** 70), 70000])
    return {"kind": "int2hex", "ws": ws}


def gen_ihex(rng, ctx):
    """An .hex text plus what the harness knows about it."""
    k = rng.random()
    upper = rng.random() < 0.7
    eol = rng.choice(["\n", "\n", "\r\n", "\r"])
    if k < 0.4:
        n = rng.choice([0, 1, 2, 15, 16, 17, 31, 32, 33, 127, 128, 129, 255, 256, 257]) if rng.random() < 0.5 \
            else rng.randrange(1, 3000)
        if rng.random() < 0.04:
            n = rng.choice([65535, 65536, 65537, 65536 + 300])
        img = rand_bytes(rng, n)
        reclen = rng.choice([16, 16, 32, 1, 2, 7, 255, 254, 100, 64])
        if n > 20000:
            reclen = rng.choice([16, 32, 255])
        return {"kind": "ihex", "origin": "enc", "img": img.hex(), "reclen": reclen, "upper": upper,
                "text": ihex_write(img, reclen, upper, eol)}
    if k < 0.7:
        # hand-built record list: segments at various addresses, extended records, start records
        recs, mem, ok = [], {}, True
        offset = 0
        started = False
        for _ in range(rng.randrange(1, 7)):
            t = rng.random()
            if t < 0.6:
                addr = rng.choice([0, 1, 16, 100, 0x100, 0x7F0, 0xFFF0, rng.randrange(0, 0x900)])
                data = list(rng.randbytes(rng.choice([0, 1, 2, 16, 16, 33])))
                recs.append((addr, 0, data))
                for i, b in enumerate(data):
                    a = addr + offset + i
                    if a in mem:
                        ok = False
                    elif ok:
                        mem[a] = b
            elif t < 0.72:
                seg = rng.choice([0, 1, 0x10, 0x100, rng.randrange(0, 0x200)])
                recs.append((0, 2, [seg >> 8, seg & 255]))
                offset = seg * 16
            elif t < 0.8:
                up = rng.choice([0, 0, 1])
                recs.append((0, 4, [up >> 8, up & 255]))
                offset = up << 16
            elif t < 0.9:
                typ = rng.choice([3, 5])
                recs.append((0, typ, list(rng.randbytes(4))))
                if started:
                    ok = False
                started = True
            else:
                # malformed extended / start / eof records
                recs.append(rng.choice([(0, 2, [0]), (1, 2, [0, 1]), (0, 4, [0, 0, 0]), (2, 4, [0, 1]), (0, 3, [1, 2]),
                                        (4, 5, [0, 0, 0, 0]), (0, 1, [0])]))
                ok = False
            if not ok:
                break
        expected = None
        if ok:
            expected = bytes(mem.get(a, 0xFF) for a in range(min(mem), max(mem) + 1)).hex() if mem else ""
        if mem and max(mem) - min(mem) > 200000:
            return gen_ihex(rng, ctx)
        eof = rng.random() < 0.85
        lines = [ihex_line(a, t, d, upper) for a, t, d in recs]
        if eof:
            lines.append(ihex_line(0, 1, [], upper))
            if rng.random() < 0.2:
                lines.append(rng.choice(["garbage after eof", ihex_line(0, 0, [1, 2, 3], upper), ":00"]))
        text = eol.join(lines) + (eol if rng.random() < 0.8 else "")
        if rng.random() < 0.15:
            text = eol + text.replace(eol, eol + eol, 1)
        return {"kind": "ihex", "origin": "recs", "expected": expected, "text": text}
    # mutated encoder output
    img = rand_bytes(rng, rng.randrange(1, 80))
    text = ihex_write(img, rng.choice([16, 8, 32]), upper, eol)
    lines = text.split(eol)
    i = rng.randrange(max(1, len(lines) - 1))
    m = rng.randrange(12)
    ln = lines[i]
    if m == 0:
        ln = ihex_line(0, 0, list(img[:4]), upper, bad_sum=rng.randrange(1, 256))
    elif m == 1:
        ln = ln[1:]
    elif m == 2:
        ln = ln[:-1]
    elif m == 3:
        ln = ln[:3] + rng.choice(["G", " ", "\xe9", "١", " ", "\x0c"]) + ln[4:]
    elif m == 4:
        ln = ln + "00"
    elif m == 5:
        ln = ":%02X" % ((int(ln[1:3], 16) + 1) & 255) + ln[3:]
    elif m == 6:
        ln = ihex_line(0, rng.choice([6, 7, 255]), [1], upper)
    elif m == 7:
        ln = " " + ln
    elif m == 8:
        ln = ln + rng.choice([" ", "\t", "\x0b"])
    elif m == 9:
        ln = rng.choice(["", ":", ":0", ":00", ":0000", ":000000", ":00000001", "﻿" + ln])
    elif m == 10:
        ln = ln.swapcase()
    else:
        ln = ln + eol + ln
    lines[i] = ln
    return {"kind": "ihex", "origin": "mut", "text": eol.join(lines)}


def valid_cfg_payload(rng, t=None, v=None):
    ws = [rand_word(rng) if t is None else t, rand_word(rng) if v is None else v, rand_word(rng), rand_word(rng),
          rand_word(rng)]
    return words_hex(ws, upper=rng.random() < 0.2)


def bad_payload(rng, words):
    """A malformed stream payload that still travels on the wire (no ';', no trailing white space)."""
    k = rng.randrange(6)
    s = rng.randbytes(2 * words).hex()
    if k == 0:
        return s[:-1]
    if k == 1:
        return s[:-4] if words > 1 else s + "00"
    if k == 2:
        return s + "0000"
    if k == 3:
        p = rng.randrange(len(s))
        return s[:p] + rng.choice(["g", "z", "_", "\xe9", "١", "-"]) + s[p + 1:]
    if k == 4:
        return ""
    return rng.choice(["zz", "0", "0100", "hello", "١٢", "0x0102030405"])


def crc_twin(rng, img):
    """Another image of the same length whose padded data has the same CRC-16/MODBUS (two bytes are solved for)."""
    n = len(img)
    if n < 6 or n > 3000:
        return None
    import crcmod.predefined
    f = crcmod.predefined.mkCrcFun("modbus")
    tail = bytes(padded(bytes(img))[n:])
    target = f(bytes(img) + tail)
    b = bytearray(img)
    i = rng.randrange(0, n)
    b[i] ^= rng.randrange(1, 256)
    j = rng.choice([x for x in range(0, n - 1) if x not in (i - 1, i)])
    for x in range(65536):
        b[j], b[j + 1] = x >> 8, x & 255
        if f(bytes(b) + tail) == target:
            return bytes(b) if bytes(b) != bytes(img) else None
    return None


def gen_session(rng, ctx, big=False):
    version = rng.choice(VERSIONS)
    pool = [1, 2, 3, 7, 42, 100, 253, 254]
    nodes = rng.sample(pool, rng.choice([1, 2]) if big else rng.choice([1, 1, 2, 2, 3]))
    stranger = rng.choice([x for x in pool if x not in nodes])
    ops = []
    fws = {}      # (t, v) -> image bytes, as the generator believes
    sched = {}    # node -> (t, v) scheduled and config answered?
    n_updates = 1 if big else rng.choice([1, 1, 1, 2, 3])
    for u in range(n_updates):
        if big:
            n = rng.choice([2048, 4095, 4096, 4097, 8191, 8192, 16383, 16384, 16385, 30000, MAXLEN - 1, MAXLEN])
        else:
            n = rng.randrange(1, 401) if rng.random() < 0.75 else rng.choice(
                [127, 128, 129, 255, 256, 257, 511, 512, 513, 1023, 1024, 1025, 2047, 2048])
        img = rand_bytes(rng, n)
        if u > 0 and fws and rng.random() < 0.5:
            # a DIFFERENT image with the same length, block count and CRC-16 as one that is already stored
            # (under another type/version): the CRC advertises an image, it does not identify one
            tw = crc_twin(rng, rng.choice([fws[k] for k in sorted(fws)]))
            if tw is not None:
                img, n = tw, len(tw)
        t, v = rand_word(rng), rand_word(rng)
        targ, varg = t, v
        if rng.random() < 0.2:
            targ = rng.choice([str(t), " %d " % t, "+%d" % t, "0%d" % t if t else "00"])
        if rng.random() < 0.2:
            varg = rng.choice([str(v), "%d\n" % v, "".join(chr(0x660 + int(c)) for c in str(v))])
        bad = rng.random() < 0.15
        if bad:
            which = rng.random() < 0.5
            badval = rng.choice([65536, -1, 70000, "abc", "", "1.5", "65536", "-1", 2 ** 40])
            if which:
                targ = badval
            else:
                varg = badval
        some = rng.sample(nodes, rng.randrange(1, len(nodes) + 1))
        nids = list(some)
        if rng.random() < 0.2:
            nids.insert(rng.randrange(len(nids) + 1), stranger)
        single = len(nids) == 1 and rng.random() < 0.5
        via = "file" if (rng.random() < 0.3 and n <= 6000) else "bin"
        noimg = u > 0 and rng.random() < 0.25 and fws
        op = {"op": "update", "nids": nids[0] if single else nids, "t": targ, "v": varg}
        if noimg:
            t, v = rng.choice(sorted(fws))
            op["t"], op["v"] = t, v
            bad = False
            op["img"] = None
        else:
            op["img"] = img.hex()
            op["via"] = via
            if via == "file":
                op["reclen"] = rng.choice([16, 32, 255, 7])
                op["upper"] = rng.random() < 0.7
        ops.append(op)
        if bad:
            continue
        if not noimg:
            fws[(t, v)] = img
        img = fws[(t, v)]
        B = spec_blocks(len(img))
        # requests of the scheduled nodes, interleaved
        streams = []
        for nd in nids:
            if nd == stranger:
                streams.append([{"op": "blk", "node": nd, "payload": words_hex([t, v, 0])}])
                continue
            s = []
            if rng.random() < 0.1:
                s.append({"op": "blk", "node": nd, "payload": words_hex([t, v, 0])})       # before config: gated
            if rng.random() < 0.15:
                s.append({"op": "cfg", "node": nd, "payload": bad_payload(rng, 5)})
            s.append({"op": "cfg", "node": nd, "payload": valid_cfg_payload(rng, *(rng.choice([(t, v), (None, None)])))})
            if rng.random() < 0.2:
                s.append({"op": "cfg", "node": nd, "payload": valid_cfg_payload(rng)})       # repeated before fetching
            idx = list(range(B))
            mode = rng.random()
            if mode < 0.35:
                pass
            elif mode < 0.55:
                idx.reverse()                                                               # the real bootloader goes downward
            else:
                rng.shuffle(idx)
            if rng.random() < 0.5:
                for _ in range(rng.randrange(1, 6)):
                    idx.insert(rng.randrange(len(idx) + 1), rng.randrange(B))               # repetitions
            if rng.random() < 0.3:
                idx.insert(rng.randrange(len(idx) + 1), rng.choice([B, B + 1, B + 7, 65535]))  # beyond the end
            if rng.random() < 0.12 and len(idx) > 3:
                idx = idx[:rng.randrange(1, len(idx))]                                      # incomplete fetch
            for i in idx:
                s.append({"op": "blk", "node": nd, "payload": words_hex([t, v, i], upper=rng.random() < 0.05)})
            for _ in range(rng.choice([0, 0, 1, 2])):
                s.insert(rng.randrange(1, len(s) + 1), {"op": "blk", "node": nd, "payload": bad_payload(rng, 3)})
            if rng.random() < 0.15 and len(fws) > 1:
                t2, v2 = rng.choice(sorted(fws))
                s.insert(rng.randrange(2, len(s) + 1), {"op": "blk", "node": nd,
                                                        "payload": words_hex([t2, v2, rng.randrange(spec_blocks(len(fws[(t2, v2)])))])})
            if rng.random() < 0.1:
                s.insert(rng.randrange(2, len(s) + 1), {"op": "blk", "node": nd,
                                                        "payload": words_hex([(t + 1) & 65535, v, 0])})  # not loaded
            if rng.random() < 0.1:
                s.append({"op": "cfg", "node": nd, "payload": valid_cfg_payload(rng)})       # while fetching
            streams.append(s)
        # interleave the per-node streams (keeping each node's own order)
        while any(streams):
            live = [s for s in streams if s]
            s = rng.choice(live)
            burst = rng.choice([1, 1, 2, 5, 20])
            for _ in range(min(burst, len(s))):
                ops.append(s.pop(0))
    return {"kind": "session", "version": version, "nodes": nodes, "ops": ops}


def fetch_stream(rng, nd, t, v, nblocks, mode):
    """Requests of one node: config request, then block requests. mode: none | cfg | partial | complete."""
    s = []
    if mode == "none":
        return s
    s.append({"op": "cfg", "node": nd, "payload": valid_cfg_payload(rng, *(rng.choice([(t, v), (None, None)])))})
    if mode == "cfg":
        return s
    idx = list(range(nblocks))
    k = rng.random()
    if k < 0.3:
        pass
    elif k < 0.55:
        idx.reverse()
    else:
        rng.shuffle(idx)
    if mode == "partial":
        idx = idx[:rng.randrange(1, max(2, len(idx)))]
    if rng.random() < 0.5:
        for _ in range(rng.randrange(1, 5)):
            idx.insert(rng.randrange(len(idx) + 1), rng.choice(idx))
    for i in idx:
        s.append({"op": "blk", "node": nd, "payload": words_hex([t, v, i])})
    return s


def interleave(rng, streams, ops):
    streams = [s for s in streams if s]
    while streams:
        s = rng.choice(streams)
        for _ in range(min(rng.choice([1, 1, 2, 5, 20]), len(s))):
            ops.append(s.pop(0))
        streams = [x for x in streams if x]


def different_image(rng, img):
    """Another image for the same (type, version): rebuilt firmware without a version bump."""
    k = rng.randrange(7)
    n = len(img)
    if k == 0:                                   # one byte changed
        p = rng.randrange(n)
        return img[:p] + bytes([img[p] ^ rng.randrange(1, 256)]) + img[p + 1:]
    if k == 1:                                   # same length, new content
        out = rand_bytes(rng, n)
    elif k == 2:                                 # longer, same prefix
        out = img + rand_bytes(rng, rng.choice([1, 15, 16, 17, 128, 129, rng.randrange(1, 400)]))
    elif k == 3:                                 # shorter prefix
        out = img[:rng.randrange(1, n)] if n > 1 else img + b"\x01"
    elif k == 4:                                 # longer, new content
        out = rand_bytes(rng, n + rng.randrange(1, 300))
    elif k == 5:                                 # shorter, new content
        out = rand_bytes(rng, rng.randrange(1, n + 1))
    else:                                        # only the last block differs
        out = img[:-1] + bytes([img[-1] ^ 0x55])
    if out == img:
        out = img + b"\x00"
    return out


def gen_session_republish(rng, ctx):
    """Publish image A as (t, v), let nodes fetch none/some/all of it, publish a DIFFERENT image B under the same
    (t, v) (make_update or update_fw with a .hex file), new config request, complete download; then a restart."""
    version = rng.choice(VERSIONS)
    pool = [1, 2, 3, 7, 42, 100, 253, 254]
    nodes = rng.sample(pool, rng.choice([1, 2, 2, 3]))
    t, v = rand_word(rng), rand_word(rng)
    n = rng.randrange(1, 500) if rng.random() < 0.7 else rng.choice([16, 112, 127, 128, 129, 255, 256, 257, 640, 1024])
    img = rand_bytes(rng, n)
    ops = []

    def publish(image, nids):
        via = rng.choice(["bin", "bin", "file"])
        targ = rng.choice([t, t, t, str(t), " %d " % t])
        op = {"op": "update", "nids": nids[0] if len(nids) == 1 and rng.random() < 0.4 else list(nids), "t": targ, "v": v}
        if image is None:
            op["img"] = None
        else:
            op["img"] = image.hex()
            op["via"] = via
            if via == "file":
                op["reclen"] = rng.choice([16, 32, 255, 7])
                op["upper"] = rng.random() < 0.7
        ops.append(op)

    # phase A
    sa = rng.sample(nodes, rng.randrange(1, len(nodes) + 1))
    publish(img, sa)
    pre = rng.choice(["none", "cfg", "partial", "partial", "complete", "complete"])
    interleave(rng, [fetch_stream(rng, nd, t, v, spec_blocks(len(img)),
                                  pre if k == 0 else rng.choice(["none", "cfg", "partial", "complete"]))
                     for k, nd in enumerate(sa)], ops)
    # phase B: a different image under the same id, to the same node(s) and/or other ones
    rounds = rng.choice([1, 1, 2])
    for _ in range(rounds):
        img = different_image(rng, img)
        who = rng.random()
        if who < 0.35:
            sb = list(sa)
        elif who < 0.6 and len(nodes) > len(sa):
            sb = [x for x in nodes if x not in sa]
        else:
            sb = rng.sample(nodes, rng.randrange(1, len(nodes) + 1))
        publish(img, sb)
        streams = [fetch_stream(rng, nd, t, v, spec_blocks(len(img)), "complete") for nd in sb]
        for nd in sa:
            if nd not in sb and rng.random() < 0.5:      # still in its old session: served from the current dict
                streams.append([{"op": "blk", "node": nd, "payload": words_hex([t, v, rng.randrange(spec_blocks(len(img)))])}
                                for _ in range(rng.randrange(1, 4))])
        interleave(rng, streams, ops)
        sa = sb
    # phase C: restart of the session and a full second download
    if rng.random() < 0.7:
        sc = rng.sample(nodes, rng.randrange(1, len(nodes) + 1))
        publish(rng.choice([None, None, img]), sc)
        interleave(rng, [fetch_stream(rng, nd, t, v, spec_blocks(len(img)), "complete") for nd in sc], ops)
    return {"kind": "session", "version": version, "nodes": nodes, "ops": ops, "republish": True}


def corpus():
    """Hand-seeded cases (run first)."""
    cs = []
    for s, w in [("", 0), ("", 1), ("0", 1), ("zz", 1), ("0g", 1), ("AbCd", 2), ("abcd", 1), ("ab ", 1), (" ab", 1), ("a\xe9", 1),
                 ("\xe9", 1), ("١٢", 1), ("0Ā", 1), ("zzĀ", 1), ("1_0", 1), ("+1", 1), ("0x", 1),
                 ("010002000300", 3), ("0100020003", 3), ("01000200030004", 3), ("FFFF", 1), ("ffff0000", 2),
                 ("01000100000000000000", 5), ("\x0000", 1), ("00\n", 1)]:
        cs.append({"kind": "hex2int", "s": s, "words": w, "why": "corpus"})
    for ws in [[], [0], [65535], [65536], [-1], [1, 2, 3], [1, 2, 65536], [2 ** 70], [258, 772], [0, 0, 0, 0], [1, 2, 2056, 19255]]:
        cs.append({"kind": "int2hex", "ws": ws})
    cs.append({"kind": "crc", "data": b"123456789".hex()})
    cs.append({"kind": "crc", "data": ""})
    for n in [0, 1, 15, 16, 17, 127, 128, 129, 255, 256, 257]:
        cs.append({"kind": "prepare", "img": bytes((i * 5 + 1) & 255 for i in range(n)).hex()})
    for i in [-3, -1, 0, 1, 7, 8, 9, 4095, 65535]:
        cs.append({"kind": "block", "i": i, "data": bytes(range(130)).hex()})
    cs.append({"kind": "ihex", "origin": "recs", "expected": "11ffaabbcc",
               "text": ":020000040001F9\n:03000200AABBCCCA\r:0100000011EE\r\n:00000001FF"})
    cs.append({"kind": "ihex", "origin": "recs", "expected": "", "text": ":00000001FF\n"})
    cs.append({"kind": "ihex", "origin": "recs", "expected": "", "text": ""})
    cs.append({"kind": "ihex", "origin": "mut", "text": ":0100000011EE\n:0100000022DD\n:00000001FF\n"})   # overlap
    cs.append({"kind": "ihex", "origin": "mut", "text": ":0100000011EF\n:00000001FF\n"})                   # checksum
    cs.append({"kind": "ihex", "origin": "recs", "expected": "11", "text": ":0100000011ee\n"})            # no EOF, lower case
    cs.append({"kind": "ihex", "origin": "mut", "text": "﻿:00000001FF\n"})
    cs.append({"kind": "session", "version": "2.2", "nodes": [1], "ops": [
        {"op": "update", "nids": [1], "t": 1, "v": " 2 ", "img": "010203", "via": "bin"},
        {"op": "cfg", "node": 1, "payload": "01000100000000000000"},
        {"op": "blk", "node": 1, "payload": "010002000000"},
        {"op": "blk", "node": 1, "payload": "zz"}, {"op": "blk", "node": 1, "payload": "0100"},
        {"op": "cfg", "node": 1, "payload": "00"},
    ] + [{"op": "blk", "node": 1, "payload": words_hex([1, 2, i])} for i in (7, 6, 5, 4, 3, 2, 1, 0, 8)]})
    cs.append({"kind": "session", "version": "1.4", "nodes": [1, 2], "ops": [
        {"op": "update", "nids": [1, 2, 9], "t": 65536, "v": 1, "img": "00", "via": "bin"},
        {"op": "cfg", "node": 1, "payload": "01000100000000000000"},
        {"op": "update", "nids": 2, "t": "65535", "v": 0, "img": "ff" * 128, "via": "file", "reclen": 16, "upper": True},
        {"op": "cfg", "node": 2, "payload": "ffff0000000000000000"},
        {"op": "cfg", "node": 1, "payload": "ffff0000000000000000"},
    ] + [{"op": "blk", "node": 2, "payload": words_hex([65535, 0, i])} for i in range(16)]})
    a, b = bytes(range(1, 41)), bytes(range(101, 190))
    cs.append({"kind": "session", "version": "2.1", "nodes": [1, 2], "republish": True, "ops": [
        {"op": "update", "nids": [1], "t": 7, "v": 3, "img": a.hex(), "via": "bin"},
        {"op": "cfg", "node": 1, "payload": "07000300000000000000"},
        {"op": "blk", "node": 1, "payload": words_hex([7, 3, 0])}, {"op": "blk", "node": 1, "payload": words_hex([7, 3, 2])},
        {"op": "update", "nids": [1, 2], "t": 7, "v": 3, "img": b.hex(), "via": "file", "reclen": 16, "upper": True},
        {"op": "cfg", "node": 2, "payload": "07000300000000000000"}, {"op": "cfg", "node": 1, "payload": "07000300000000000000"},
    ] + [{"op": "blk", "node": nd, "payload": words_hex([7, 3, i])} for i in range(8) for nd in (1, 2)] + [
        {"op": "update", "nids": 1, "t": 7, "v": 3, "img": None},
        {"op": "cfg", "node": 1, "payload": "07000300000000000000"},
    ] + [{"op": "blk", "node": 1, "payload": words_hex([7, 3, i])} for i in reversed(range(8))]})
    return cs


def gen_cases(ctx):
    rng = ctx.rng("c09")
    cases = corpus()
    for n in gen_lengths(ctx, rng):
        cases.append({"kind": "prepare", "img": rand_bytes(rng, n).hex()})
    for _ in range(ctx.budget(60, 400)):
        n = rng.choice([1, 2, 3, 9, 16, 100, 1000]) if rng.random() < 0.5 else rng.randrange(0, 3000)
        cases.append({"kind": "crc", "data": rand_bytes(rng, n).hex()})
    for _ in range(ctx.budget(2000, 40000)):
        cases.append(gen_hex2int(rng))
    for _ in range(ctx.budget(800, 12000)):
        cases.append(gen_int2hex(rng))
    for _ in range(ctx.budget(40, 400)):
        n = rng.choice([0, 1, 16, 100, 128, 130])
        cases.append({"kind": "block", "i": rng.choice([-9, -1, 0, 1, 2, 7, 8, 9, 100, 65535, rng.randrange(0, 12)]),
                      "data": rng.randbytes(n).hex()})
    for _ in range(ctx.budget(350, 5000)):
        cases.append(gen_ihex(rng, ctx))
    for _ in range(ctx.budget(100, 2200)):
        cases.append(gen_session(rng, ctx))
    for _ in range(ctx.budget(80, 1200)):
        cases.append(gen_session_republish(rng, ctx))
    for _ in range(ctx.budget(5, 60)):
        cases.append(gen_session(rng, ctx, big=True))
    return cases


# ---------------------------------------------------------------- implementation side

class FakeTransport:
    def __init__(self):
        self.sent = []

    def send(self, message):
        self.sent.append(message)

    def connect(self):
        return None

    def disconnect(self):
        return None


def scratch_dir():
    d = core.BUILD / "scratch" / str(os.getpid())
    d.mkdir(parents=True, exist_ok=True)
    return d


def write_text(name, text):
    p = scratch_dir() / name
    with open(p, "w", encoding="utf-8", newline="", errors="surrogatepass") as f:
        f.write(text)
    return str(p)


def project(o):
    return {"fw": sorted([k[0], k[1], f["blocks"], f["crc"], len(f["data"])] for k, f in o.firmware.items()),
            "req": sorted([n, k[0], k[1]] for n, k in o.requested.items()),
            "uns": sorted([n, k[0], k[1]] for n, k in o.unstarted.items()),
            "sta": sorted([n, k[0], k[1]] for n, k in o.started.items())}


def impl(case):
    from mysensors import ota
    kind = case["kind"]
    try:
        if kind == "hex2int":
            return ["ok", list(ota.fw_hex_to_int(case["s"], case["words"]))]
        if kind == "int2hex":
            return ["ok", ota.fw_int_to_hex(*case["ws"])]
        if kind == "crc":
            return ["ok", ota.compute_crc(bytes.fromhex(case["data"]))]
        if kind == "prepare":
            f = ota.prepare_fw(bytes.fromhex(case["img"]))
            return ["ok", f["blocks"], f["crc"], bytes(f["data"]).hex()]
        if kind == "block":
            d = bytes.fromhex(case["data"])
            i = case["i"]
            return ["ok", d[i * ota.FIRMWARE_BLOCK_SIZE: i * ota.FIRMWARE_BLOCK_SIZE + ota.FIRMWARE_BLOCK_SIZE].hex()]
        if kind == "ihex":
            path = write_text("fw.hex", case["text"])
            r = ota.load_fw(path)
            return ["none"] if r is None else ["ok", bytes(r).hex()]
    except Exception as exc:  # canonicalise by class
        return ["err", exc_name(exc)]
    if kind == "session":
        return impl_session(case)
    raise AssertionError(kind)


def impl_session(case):
    import asyncio
    import mysensors
    # the asyncio flavour has its own update_fw (image loaded in an executor): every other session uses it
    is_async = core.case_hash([case["version"], case["nodes"], len(case["ops"])])[-1] in "02468ace"
    cls = mysensors.BaseAsyncGateway if is_async else mysensors.BaseSyncGateway
    gw = cls(FakeTransport(), protocol_version=case["version"])

    def update_fw(*a):
        if is_async:
            asyncio.run(gw.update_fw(*a))
        else:
            gw.update_fw(*a)
    for n in case["nodes"]:
        gw.logic(f"{n};255;0;0;17;{case['version']}\n")
    if case["version"] >= "2.0" and core.case_hash([case["nodes"], case["version"]])[-1] in "0123456":
        # the nodes are smart sleeping (a child, then the wake-up announcement of that version): firmware responses
        # are the one kind of traffic that is NOT withheld for a sleeping node
        for n in case["nodes"]:
            gw.logic(f"{n};1;0;0;6;\n")
            gw.logic(f"{n};255;3;0;{32 if case['version'] == '2.2' else 22};500\n")
    obs = []
    for k, op in enumerate(case["ops"]):
        try:
            if op["op"] == "update":
                if op.get("img") is None:
                    update_fw(op["nids"], op["t"], op["v"])
                elif op.get("via") == "file":
                    path = write_text("s%d.hex" % k, ihex_write(bytes.fromhex(op["img"]), op["reclen"], op["upper"]))
                    update_fw(op["nids"], op["t"], op["v"], path)
                else:
                    gw.tasks.ota.make_update(op["nids"], op["t"], op["v"], bytes.fromhex(op["img"]))
                obs.append(["state", project(gw.tasks.ota)])
            else:
                sub = 0 if op["op"] == "cfg" else 2
                r = gw.logic(f"{op['node']};255;4;0;{sub};{op['payload']}\n")
                obs.append(["none"] if r is None else ["resp", r])
        except Exception as exc:
            obs.append(["err", exc_name(exc)])
    return obs


# ---------------------------------------------------------------- model side

def enc_arg(a):
    return enc_str(a) if isinstance(a, str) else str(a)


def model_lines(case):
    kind = case["kind"]
    if kind == "hex2int":
        return [f"hex2int {enc_str(case['s'])} {case['words']}"]
    if kind == "int2hex":
        return [" ".join(["int2hex"] + [str(w) for w in case["ws"]])]
    if kind == "crc":
        return ["crc h" + case["data"]]
    if kind == "prepare":
        return ["prepare h" + case["img"]]
    if kind == "block":
        return [f"block {case['i']} h{case['data']}"]
    if kind == "ihex":
        lines = ["ihexload " + enc_str(case["text"])]
        if case["origin"] == "enc":
            lines.append(f"ihexenc {1 if case['upper'] else 0} {case['reclen']} h{case['img']}")
        return lines
    lines = ["present " + " ".join(str(n) for n in case["nodes"])]
    for op in case["ops"]:
        if op["op"] == "update":
            nids = op["nids"] if isinstance(op["nids"], list) else [op["nids"]]
            b, f = "--", "--"
            if op.get("img") is not None:
                if op.get("via") == "file":
                    f = enc_str(ihex_write(bytes.fromhex(op["img"]), op["reclen"], op["upper"]))
                else:
                    b = "h" + op["img"]
            lines.append(f"update {enc_arg(op['t'])} {enc_arg(op['v'])} {b} {f} " + " ".join(str(n) for n in nids))
        else:
            lines.append(f"{'cfgreq' if op['op'] == 'cfg' else 'blkreq'} {op['node']} {enc_str(op['payload'])}")
    return lines


def parse_state(line):
    out = {}
    for part in line.split(" "):
        k, _, v = part.partition("=")
        out[k] = sorted([int(x) for x in e.split(".")] for e in v.split(",")) if v else []
    return out


def model_obs(case, outs):
    kind = case["kind"]
    o = outs[0].split(" ")
    if o[0] == "BAD" or (kind == "session" and "BAD" in outs):
        raise RuntimeError(f"model shell rejected a command of case {short(case)}")
    if kind in ("hex2int", "int2hex"):
        if o[0] == "err":
            return ["err", o[1]]
        return ["ok", core.dec_cps(o[1])] if kind == "hex2int" else ["ok", dec_str(o[1])]
    if kind == "crc":
        return ["ok", int(o[0])]
    if kind == "prepare":
        return ["ok", int(o[0]), int(o[1]), o[2][1:]]
    if kind == "block":
        return ["ok", o[0][1:]]
    if kind == "ihex":
        return ["none"] if o[0] == "none" else ["ok", o[1][1:]]
    obs = []
    for op, line in zip(case["ops"], outs[1:]):
        if op["op"] == "update":
            obs.append(["state", parse_state(line)])
        else:
            t = line.split(" ")
            if t[0] == "resp":
                sub = 1 if op["op"] == "cfg" else 3
                obs.append(["resp", f"{op['node']};255;4;0;{sub};{dec_str(t[1])}\n"])
            elif t[0] == "none":
                obs.append(["none"])
            else:
                obs.append(["err", t[1] if len(t) > 1 else line])
    return obs


# ---------------------------------------------------------------- monitors (property on the implementation)

def allowed_blocks(n):
    """Block counts the property allows for an image of n bytes: 0xFF padding of 0..128 bytes up to a page multiple."""
    return {b for b in (((n + 127) // 128) * 8, (n // 128 + 1) * 8) if b * 16 >= n}


def padded(img, blocks=None):
    if blocks is None:
        blocks = max(allowed_blocks(len(img)))
    return img + b"\xff" * (16 * blocks - len(img))


def parse_reply(r, node, sub):
    """Header check + payload bytes of a stream reply line; returns (bytes, None) or (None, why)."""
    if not r.endswith("\n"):
        return None, "reply does not end in a newline"
    f = r[:-1].split(";")
    if len(f) != 6 or f[:5] != [str(node), "255", "4", "0", str(sub)]:
        return None, f"reply header {f[:5]} is not {node};255;4;0;{sub}"
    try:
        return bytes.fromhex(f[5]), None
    except ValueError:
        return None, f"reply payload {f[5][:40]!r} is not hex"


def req_words(payload, words):
    """What a well-formed request payload says; None if it is malformed."""
    try:
        b = bytes.fromhex(payload)
    except ValueError:
        return None
    if len(b) != 2 * words or not payload.isascii() or len(payload) != 4 * words:
        return None
    return le16s(b)


def monitor_session(case, obs, stats=None):
    """Independent reading of the property on one session of the real gateway.
    Returns (why or None, complete_reassemblies)."""
    fws = {}        # (t, v) -> image the controller loaded
    state = {}      # node -> "scheduled" | "configured"
    sched = {}      # node -> (t, v)
    advert = {}     # node -> (t, v, B, C) from the config response
    got = {}        # node -> {index: block}
    complete = 0
    replaced = set()   # ids whose image was replaced by a different one during this session
    stats = stats if stats is not None else {}
    stats["after_replace"] = 0
    known = set(case["nodes"])

    def finish(nd):
        nonlocal complete
        if nd not in advert:
            return None
        t, v, B, C = advert[nd]
        blocks = got.get(nd, {})
        if B == 0 or any(i not in blocks for i in range(B)):
            return None
        data = b"".join(blocks[i] for i in range(B))
        img = fws[(t, v)]
        if len(data) != 16 * B or len(data) % 128:
            return f"node {nd}: reassembled length {len(data)} is not 16*{B} / not a multiple of 128"
        if data[:len(img)] != img:
            return f"node {nd}: reassembled data does not start with the image"
        pad = data[len(img):]
        if not 0 <= len(pad) <= 128 or pad != b"\xff" * len(pad):
            return f"node {nd}: padding after the image is {len(pad)} bytes / not all 0xFF"
        if crc16_modbus(data) != C:
            return f"node {nd}: advertised CRC {C:#06x} != CRC-16/MODBUS of the served data {crc16_modbus(data):#06x}"
        complete += 1
        if (t, v) in replaced:
            stats["after_replace"] += 1
        return None

    for op, o in zip(case["ops"], obs):
        if o[0] == "err":
            return f"{op['op']} raised {o[1]}", complete
        if op["op"] == "update":
            try:
                t, v = int(op["t"]), int(op["v"])
            except ValueError:
                continue
            if not (0 <= t <= 65535 and 0 <= v <= 65535):
                if [t, v] in [x[:2] for x in o[1]["fw"]]:
                    return f"firmware with out-of-range id ({t}, {v}) was stored", complete
                continue
            if op.get("img") is not None:
                if (t, v) in fws and fws[(t, v)] != bytes.fromhex(op["img"]):
                    replaced.add((t, v))
                    for nd in list(advert):          # image replaced: running sessions are void
                        if advert[nd][:2] == (t, v):
                            advert.pop(nd)
                            got.pop(nd, None)
                fws[(t, v)] = bytes.fromhex(op["img"])
            if (t, v) not in fws:
                continue
            nids = op["nids"] if isinstance(op["nids"], list) else [op["nids"]]
            for nd in nids:
                if nd in known:
                    why = finish(nd)
                    if why:
                        return why, complete
                    state[nd] = "scheduled"
                    sched[nd] = (t, v)
                    advert.pop(nd, None)
                    got.pop(nd, None)
            continue
        nd = op["node"]
        if op["op"] == "cfg":
            ws = req_words(op["payload"], 5)
            if ws is None:
                if o[0] != "none":
                    return f"malformed config request {op['payload'][:30]!r} was answered", complete
                continue
            if o[0] == "none":
                if state.get(nd) in ("scheduled", "configured"):
                    return f"node {nd}: scheduled for {sched[nd]} but its config request got no answer", complete
                continue
            b, why = parse_reply(o[1], nd, 1)
            if why:
                return why, complete
            if len(b) != 8:
                return f"config response payload has {len(b)} bytes, not 8", complete
            t, v, B, C = le16s(b)
            if nd not in sched or (t, v) != sched[nd]:
                return f"node {nd}: config response advertises ({t}, {v}), scheduled is {sched.get(nd)}", complete
            img = fws[(t, v)]
            if B not in allowed_blocks(len(img)):
                return f"node {nd}: advertised {B} blocks for an image of {len(img)} bytes", complete
            if C != crc16_modbus(padded(img, B)):
                return f"node {nd}: advertised CRC {C:#06x} is not the CRC of image + padding", complete
            advert[nd] = (t, v, B, C)
            got[nd] = {}
            if state.get(nd) == "scheduled":
                state[nd] = "configured"
            continue
        ws = req_words(op["payload"], 3)
        if ws is None:
            if o[0] != "none":
                return f"malformed block request {op['payload'][:30]!r} was answered", complete
            continue
        t, v, i = ws
        was = state.get(nd)
        if was == "configured":
            state[nd] = "fetching"      # any well-formed block request may move the node to the started store
        if o[0] == "none":
            if was in ("configured", "fetching") and (t, v) in fws:
                return f"node {nd}: block request ({t}, {v}, {i}) of a loaded firmware got no answer after the config response", complete
            continue
        if (t, v) not in fws:
            return f"node {nd}: block request for firmware ({t}, {v}) that was never loaded was answered", complete
        b, why = parse_reply(o[1], nd, 3)
        if why:
            return why, complete
        if len(b) < 6 or le16s(b[:6]) != [t, v, i]:
            return f"node {nd}: block response echoes {le16s(b[:6]) if len(b) >= 6 else b.hex()}, request was {[t, v, i]}", complete
        blk = b[6:]
        img = fws[(t, v)]
        if nd in advert and advert[nd][:2] == (t, v):
            wants = [padded(img, advert[nd][2])[i * 16:i * 16 + 16]]
        else:
            wants = [padded(img, b)[i * 16:i * 16 + 16] for b in sorted(allowed_blocks(len(img)))]
        if blk not in wants:
            return f"node {nd}: block {i} of firmware ({t}, {v}) is {blk.hex()}, image + padding has {wants[-1].hex()}", complete
        if nd in advert and advert[nd][:2] == (t, v):
            if i in got[nd] and got[nd][i] != blk:
                return f"node {nd}: block {i} answered differently on repetition", complete
            if i < advert[nd][2] and len(blk) != 16:
                return f"node {nd}: block {i} < B has {len(blk)} bytes", complete
            got[nd][i] = blk
    for nd in list(advert):
        why = finish(nd)
        if why:
            return why, complete
    return None, complete


def monitor(case, obs):
    """Returns None or a text saying how the property fails on the implementation for this case."""
    kind = case["kind"]
    if kind == "session":
        return monitor_session(case, obs)[0]
    if kind == "prepare":
        img = bytes.fromhex(case["img"])
        if obs[0] != "ok":
            return f"prepare_fw raised {obs[1]}"
        blocks, crc, data = obs[1], obs[2], bytes.fromhex(obs[3])
        if data[:len(img)] != img:
            return "prepared data does not start with the image"
        pad = data[len(img):]
        if not 0 <= len(pad) <= 128 or pad != b"\xff" * len(pad):
            return f"padding is {len(pad)} bytes / not all 0xFF"
        if len(data) % 128 or len(data) != 16 * blocks or type(blocks) is not int:
            return f"data length {len(data)} vs blocks {blocks!r}: not 16*B or not a multiple of 128"
        if len(data) <= 4224 or len(data) % 1024 == 0:
            if crc != crc16_modbus(data):
                return f"crc {crc} != independent CRC-16/MODBUS {crc16_modbus(data)}"
        cat = b"".join(data[i * 16:i * 16 + 16] for i in range(blocks))
        if cat != data:
            return "blocks 0..B-1 do not concatenate to the data"
        return None
    if kind == "crc":
        d = bytes.fromhex(case["data"])
        if obs != ["ok", crc16_modbus(d)]:
            return f"compute_crc gives {obs}, independent CRC-16/MODBUS {crc16_modbus(d)}"
        return None
    if kind == "hex2int":
        from mysensors import ota
        if obs[0] == "err":
            return None if obs[1] in ("ValueError", "BinasciiError", "StructError") else \
                f"fw_hex_to_int raised {obs[1]} (not caught by the request handlers)"
        ws = obs[1]
        if len(ws) != case["words"] or any(not 0 <= w <= 65535 for w in ws):
            return f"fw_hex_to_int returned {ws}"
        if ota.fw_int_to_hex(*ws) != case["s"].lower():
            return "fw_int_to_hex(fw_hex_to_int(s)) != s.lower()"
        return None
    if kind == "int2hex":
        from mysensors import ota
        ok = all(0 <= w <= 65535 for w in case["ws"])
        if not ok:
            return None if obs == ["err", "StructError"] else f"out-of-range words gave {obs}"
        if obs[0] != "ok":
            return f"fw_int_to_hex raised {obs[1]} for words in range"
        if obs[1] != words_hex(case["ws"]):
            return f"fw_int_to_hex gives {obs[1]}, little-endian hex is {words_hex(case['ws'])}"
        if list(ota.fw_hex_to_int(obs[1], len(case["ws"]))) != case["ws"]:
            return "fw_hex_to_int(fw_int_to_hex(ws)) != ws"
        return None
    if kind == "ihex":
        if obs[0] == "err":
            return f"load_fw raised {obs[1]}"
        if case["origin"] == "enc":
            return None if obs == ["ok", case["img"]] else \
                f"file encoding {len(case['img']) // 2} bytes loads to {obs[0]} {str(obs[1:])[:60]}"
        if case["origin"] == "recs":
            want = ["none"] if case["expected"] is None else ["ok", case["expected"]]
            return None if obs == want else f"record list encodes {want}, load_fw gives {str(obs)[:80]}"
        return None
    return None


def nontrivial(case, obs):
    kind = case["kind"]
    if kind in ("prepare", "crc"):
        return len(case.get("img", case.get("data"))) > 0
    if kind == "session":
        return monitor_session(case, obs)[1] > 0
    return True


def dist_key(case, obs):
    kind = case["kind"]
    if kind == "hex2int":
        return f"hex2int:{case['why']}:{obs[0] if obs[0] == 'ok' else obs[1]}"
    if kind == "int2hex":
        return f"int2hex:{obs[0] if obs[0] == 'ok' else obs[1]}"
    if kind == "ihex":
        return f"ihex:{case['origin']}:{obs[0]}"
    if kind == "prepare":
        n = len(case["img"]) // 2
        return "prepare:" + ("len%128=0" if n % 128 == 0 else "len%16=0" if n % 16 == 0 else "len%128=127" if n % 128 == 127
                             else "len%16=15" if n % 16 == 15 else "len%16=1" if n % 16 == 1 else "other")
    return kind


# ---------------------------------------------------------------- run / replay

def short(case):
    c = dict(case)
    for k in ("img", "data", "text"):
        if isinstance(c.get(k), str) and len(c[k]) > 80:
            c[k] = c[k][:80] + "...(%d chars)" % len(case[k])
    if "ops" in c:
        c["ops"] = [dict(o, img=(o["img"][:40] + "...") if isinstance(o.get("img"), str) and len(o["img"]) > 40 else o.get("img"))
                    if o["op"] == "update" else o for o in c["ops"][:12]] + (["...(%d ops)" % len(case["ops"])] if len(case["ops"]) > 12 else [])
    return c


def run(ctx, res):
    cases = gen_cases(ctx)
    try:
        obs = [impl(c) for c in cases]
    finally:
        shutil.rmtree(core.BUILD / "scratch" / str(os.getpid()), ignore_errors=True)
    mouts = [None] * len(cases)
    if ctx.model is not None:
        # heavy cases spread over the processes: order by weight
        all_lines = [model_lines(c) for c in cases]
        order = sorted(range(len(cases)), key=lambda i: -sum(len(l) for l in all_lines[i]))
        outs = ctx.model.sessions([all_lines[i] for i in order])
        del all_lines
        for i, o in zip(order, outs):
            mouts[i] = o
    xin, xout = [], []
    sessions_complete = 0
    after_replace = 0
    stream_ops = 0
    for c, o, mo in zip(cases, obs, mouts):
        res.evaluations += 1
        res.count(dist_key(c, o))
        if c["kind"] == "session":
            st = {}
            why, comp = monitor_session(c, o, st)
            sessions_complete += comp
            after_replace += st["after_replace"]
            if c.get("republish"):
                res.count("session:republish")
            stream_ops += len(c["ops"])
            if comp:
                res.nontriv(core.case_hash(c))
        else:
            why = monitor(c, o)
            if nontrivial(c, o):
                res.nontriv(core.case_hash(c))
        if why:
            res.violate("ota:" + c["kind"], why, c, kind="monitor")
        if mo is not None:
            m = model_obs(c, mo)
            if m != o:
                diff = ""
                if c["kind"] == "session":
                    k = next((i for i, (a, b) in enumerate(zip(m, o)) if a != b), None)
                    diff = f" at op {k} {c['ops'][k] if k is not None else ''}: model {str(m[k])[:200]} != implementation {str(o[k])[:200]}" \
                        if k is not None else " (lengths differ)"
                else:
                    diff = f": model {str(m)[:200]} != implementation {str(o)[:200]}"
                res.violate("corr:" + c["kind"], "correspondence" + diff, c, kind="correspondence", found_input=False)
            if c["kind"] == "ihex" and c["origin"] == "enc" and len(mo) > 1:
                if dec_str(mo[1]) != ihex_write(bytes.fromhex(c["img"]), c["reclen"], c["upper"]):
                    res.violate("corr:ihexenc", "model Intel-HEX encoder differs from the harness writer", c,
                                kind="correspondence", found_input=False)
            ml = model_lines(c)
            if len(xin) < ctx.budget(120, 400) and sum(len(l) for l in ml) < 400 and all(l.isascii() for l in ml) \
                    and c["kind"] != "session":
                xin.extend(ml)
                xout.extend(mo)
    res.extra["complete_reassemblies"] = sessions_complete
    res.extra["complete_reassemblies_after_republish"] = after_replace
    res.extra["stream_ops"] = stream_ops
    picks = {}
    for c, o in zip(cases, obs):
        picks.setdefault(c["kind"], []).append((c, o))
    for kind, lst in picks.items():
        c, o = lst[min(len(lst) - 1, 30)]
        res.sample({"case": short(c), "impl": str(o)[:300]}, cap=8)
    if ctx.model is not None and not ctx.searching and xin:
        n, ok, lg = core.coq_crosscheck([xin], [xout], "c09", shell="Ota")
        res.extra["extraction_crosschecks"] = n
        if not ok:
            res.violate("xcheck", "extracted runner disagrees with vm_compute: " + lg[-300:], {"tag": "c09"},
                        kind="correspondence", found_input=False)


def replay(ctx, case):
    c = case["case"] if "case" in case else case
    try:
        o = impl(c)
    finally:
        shutil.rmtree(core.BUILD / "scratch" / str(os.getpid()), ignore_errors=True)
    out = {"case": short(c), "impl": str(o)[:2000], "monitor": monitor(c, o)}
    if ctx.model is not None:
        m = model_obs(c, ctx.model.sessions([model_lines(c)])[0])
        out["model_agrees"] = (m == o)
        if m != o:
            out["model"] = str(m)[:2000]
    out["violates"] = bool(out["monitor"])
    return out
