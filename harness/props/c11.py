"""C11 - persistence round trip is exact in both formats."""
import shutil

from harness import gwcheck
from harness.gen import scenarios_a
from harness.impl import gwrun

ID = "C11"
PROP_FILE = "C11.v"
TRANSLATORS = ["unicode_tables", "tables", "persist_ast"]
RULE = ("every history is run twice on the real gateway, with persistence file p.json and p.pickle, and ends with a clean "
        "stop + start that does a REAL save and load: a third grammar-generated histories, two thirds directed rich states "
        "(0-4 nodes incl. ids 0/255, id-assigned nodes without type, children without values, up to 6 values per child, "
        "Unicode incl. astral planes and control characters, empty descriptions, sleeping nodes with pending desired "
        "values and withheld replies, reboot flags after update_fw). The monitor compares a TYPED snapshot (int vs str "
        "keys and values distinguished) before and after each round trip and demands empty transient state afterwards; "
        "run() compares the two formats op by op. non-trivial = distinct history whose saved state had at least one node "
        "(2 evaluations per history: one per format)")
ASSUMPTIONS = ["a clean stop and restart = stop(), a new gateway object with the same configuration, start_persistence() "
               "(threading.Timer replaced by an inert fake; asyncio flavour: load + one save inline)",
               "the file system behaves (no faults here: C12/C13)"]
THEOREMS_DOC = {
    'json_roundtrip': "forall ver_ok t, wf_tree t -> json_load (enc_json t) = Ok (state_dict (load_tree t)): the real decoder applied to the real encoder's output gives EXACTLY the dict of Sensor objects (every instance attribute in __dict__ order, int keys) denoting load_tree t", 'state_dict_faithful': 'read_state (state_dict s) = Some s: the denotation of a state as Python objects is injective',
    'json_roundtrip_unconditioned_refuted': 'without wf_tree the JSON round trip is false (witness: node id -1)',
    'json_negative_id_comes_back_as_string': "a node keyed -1 comes back under the STRING key '-1' ('-1'.isdigit() is False)", 'json_negative_value_type_poisons_dict': "one negative value type leaves ALL keys of that values dict strings (even '3')", 'attributes_outside_setter_ranges_are_reset': "battery 500 comes back 0 in both formats; a protocol version rejected by is_version comes back '1.4'", 'pickle_roundtrip': 'forall ver_ok n, attr_ok n -> setstate (getstate (node_attrs n)) = the persisted attributes with new_state={}, queue=deque(), reboot=False, WHATEVER they were before (they are in the pickled state), and it reads back as load_node (proj_node n)',
    'pickle_roundtrip_unconditioned_refuted': 'without attr_ok (battery 0..100, accepted version) the pickle round trip is false (witness: battery 500)',
    'formats_agree': 'forall s, wf_tree (proj s) -> JSON save+load and pickle save+load both read back as load_tree (proj s) - the same state - and every loaded node has empty transient state',
    'hook_objects_complete': 'objs_tree t lists exactly the objects of the document enc_json t, each with its role',
    'hook_no_misfire': 'wf_tree t -> on every object of enc_json t exactly the intended branch of dict_to_object fires (Sensor / ChildSensor / int keys; including EMPTY children and values dicts, where all(k.isdigit()) is vacuously true)',
    'hook_no_misfire_unconditioned_refuted': "outside wf_tree a values dict with a negative key takes the 'plain dict' branch", 'hook_corners': "{} takes the int-key branch; {'7': x} comes back {7: x}; any dict with 'sensor_id' becomes a Sensor, with id/type/values a ChildSensor (extra members dropped); {'²': 1} raises ValueError (isdigit but not int()); ARABIC-INDIC '1' and '1' collide", 'decoder_trusts_the_document': "the JSON decoder does not reset transient attributes ('reboot' in a document is restored), raises AttributeError on 'is_smart_sleep_node', and '_battery_level' bypasses the setter: only the ENCODER keeps these out of the file", 'reachable_wf': 'forall orc clock cf ops, cfg_ok cf -> Forall op_ok ops -> wf_tree (orc_version orc) (proj (g_sensors (run ... (gw_init cf) ops)))',
    'reachable_sens_ok': "the stronger invariant: key = id, ids 0..255, child key = child id, values are strings, battery 0..100, version accepted or '1.4'", 'reachable_roundtrip': 'in every reachable state both formats restore load_tree (proj s) exactly and no transient state comes back',
    'restart_keeps_wf': 'wf_tree t -> wf_tree (proj (load_tree t)): what a restart installs is again well formed',
    'model_matches_source': 'the 15 generated AST facts of persistence.py / sensor.py / validation.py equal the shapes the model transcribes (src_* lemmas, reflexivity)'}
SCOPE = ["tree", "extra"]
MONITORS = ["c11"]


def build_cases(ctx):
    n = ctx.budget(300, 6000) // 2           # histories; each is run in both formats
    ng = n // 3
    base = scenarios_a.generic_cases(ctx, "c11", ng, mqtt_rate=0.1)
    for i, c in enumerate(base):
        rng = ctx.rng("c11s", i)
        c["ops"] = scenarios_a.sprinkle_persistence(rng, c["ops"], 0.03, 0.02) + [("restart",)]
    for i in range(n - ng):
        rng = ctx.rng("c11d", i)
        cfg = gwcheck.make_cfg(rng, mqtt_rate=0.1)
        cfg["persist"] = True
        base.append({"id": f"c11d-{ctx.seed}-{ctx.scale}-{i}", "cfg": cfg, "ops": scenarios_a.c11_directed(rng, cfg)})
    cases = []
    for c in base:
        for fmt in ("json", "pickle"):
            cases.append({"id": f"{c['id']}-{fmt}", "cfg": dict(c["cfg"]), "ops": c["ops"], "_fmt": fmt})
    return cases


def cross_diff(a, b):
    """first (op index, component) in which the JSON and the pickle run differ."""
    for k, (x, y) in enumerate(zip(a, b)):
        if x != y:
            cx, cy = gwrun.split_components(x), gwrun.split_components(y)
            for comp in ("tree", "extra", "S", "CB", "R", "dirty"):
                if cx.get(comp) != cy.get(comp):
                    return k, comp
            return k, "raw"
    return None


def run(ctx, res):
    cases = build_cases(ctx)
    root = scenarios_a.assign_persist(cases, "c11", lambda i, c: c.pop("_fmt"))
    try:
        recs = gwcheck.run_cases(ctx, res, cases, MONITORS, SCOPE, "c11")
    finally:
        shutil.rmtree(root, ignore_errors=True)
    for rj, rp in zip(recs[0::2], recs[1::2]):
        res.count("pair:json-vs-pickle")
        d = cross_diff(rj["impl"], rp["impl"])
        if d:
            k, comp = d
            c = rj["case"]
            res.violate(f"formats-differ/{comp}",
                        f"[{c['id']}] op {k} {c['ops'][k]!r}: {comp} differs between the JSON and the pickle run",
                        {"kind": "format-pair", "cfg": c["cfg"], "ops": c["ops"][:k + 1], "monitors": MONITORS})
    for r in recs:
        st = r["stats"]
        if st.get("c11:state:nodes=1-2", 0) + st.get("c11:state:nodes=3+", 0) >= 1:
            res.nontriv(r["case"]["id"].rsplit("-", 1)[0])
    for r in recs[:2] + recs[-2:]:
        res.sample({"cfg": r["case"]["cfg"], "ops": r["case"]["ops"][:8], "n_ops": len(r["case"]["ops"])})
    # file-format model (Model/Persist.v, runner tag "Persist") against the real encoder/decoder/pickle hooks
    from harness.impl import persist_tie
    persist_tie.run(ctx, res)


def other_format(path):
    return path[:-5] + ".pickle" if path.endswith(".json") else path.rsplit(".", 1)[0] + ".json"


def replay(ctx, case):
    c0 = case["case"] if "case" in case else case
    if isinstance(c0, dict) and c0.get("tie") == "persist":
        from harness.impl import persist_tie
        return persist_tie.replay(ctx, c0)
    c0 = case["case"] if "case" in case else case
    c, root = scenarios_a.relocated(c0, "c11")
    try:
        out = gwcheck.replay_case(ctx, c)
        if c0.get("kind") == "format-pair":
            shutil.rmtree(root, ignore_errors=True)
            root.mkdir(parents=True, exist_ok=True)
            a, _, _ = gwcheck.impl_case(dict(c, monitors=[]))
            c2 = dict(c, cfg=dict(c["cfg"], persist=other_format(c["cfg"]["persist"])), monitors=[])
            b, _, _ = gwcheck.impl_case(c2)
            out["format_first_diff"] = cross_diff(a, b)
            out["violates"] = out["violates"] or out["format_first_diff"] is not None
        return out
    finally:
        shutil.rmtree(root, ignore_errors=True)
