"""C12 - saving replaces the persistence file atomically.

Tie of Props/C12.v to mysensors/persistence.py:
 (a) Gen/SaveTrace.v and Gen/DamageClasses.v are regenerated from the working tree on every run;
 (b) trace correspondence: the sequence of primitive calls of the real save_sensors (recorded by
     harness/impl/fsfault.py) must equal the generated program instantiated with the observed number
     of writes;
 (c) fault / crash correspondence, exhaustive over formats x 5 prior configurations x every call
     index (and "after the last call") x {crash x 3 loss choices, OSError}: what a fresh gateway loads,
     need_save, and whether the next save + load round-trips, compared with the extracted model;
 monitors evaluate the property itself on the real implementation for each of these cases."""
import os
import shutil
from concurrent.futures import ProcessPoolExecutor

from harness import core
from harness.core import enc_str
from harness.impl import fsfault as F

ID = "C12"
PROP_FILE = "C12.v"
RUNNER = "Fs"
TRANSLATORS = ["savetrace", "damage_classes"]
RULE = ("cases = (format, state set, prior configuration in {none, main, main+bak, main+tmp, main+bak+tmp}, "
        "event kind crash|fault, index k of the primitive file-system call (0..n, n = after the last call), "
        "loss of unsynced data all|half|none); enumerated completely. non-trivial = distinct case in which the "
        "event fires inside the save (k < n) - each is a different on-disk situation")
RULE += ' MONITORS ONLY: harness/impl/linkfile.py - the persistence file is a symbolic link (other directory / other name / relative target); rename #1, rename #2, remove each failing or as crash point; a fresh gateway loads through the link (36 variants).'
ASSUMPTIONS = [
    "POSIX semantics as in Spec/AbstractFs.v: rename atomic and replacing; file data durable only by fsync; "
    "open('w') truncation ordered with the journal; after a crash a PREFIX of the directory operations issued is in "
    "effect (journalled metadata). On a file system that may lose an arbitrary subset of renames the protocol is not "
    "atomic (C12_atomic_save_unordered_metadata_refuted) - assumption, not a finding",
    "an injected OSError has no effect on the file system (a failing close still releases the descriptor, buffered "
    "data dropped)",
    "MODEL: persistence_file is not a symbolic link and stays in one directory (fname = realpath(persistence_file), the "
    "backup name is derived from the unresolved path); a symbolic link to another directory / name is covered by "
    "monitors only (harness/impl/linkfile.py: every directory operation of the save failing or being the crash point)",
    "decoder failure classes on partial/empty files are the measured ones (Gen/DamageClasses.v)",
    "single process: no second writer of the three files",
]
TRUSTED = [
    "harness/translate/savetrace.py (AST of persistence.py -> Gen/SaveTrace.v, fail-closed), "
    "harness/translate/damage_classes.py (measurement), harness/impl/fsfault.py (shim around builtins.open, os.fsync, "
    "os.rename, os.remove, os.access, os.path.isfile; shadow of durable/volatile bytes)",
]
THEOREMS_DOC = {
    "C12_save_preempted_and_resumed_is_save": "two-thread model (Model/FsConc.v): save_sensors preempted before call j of statement i and resumed at once = save_sensors, all programs/states/positions (ties pause/resume to the interpreter of the generated programs)",
    "C12_stop_during_scheduled_save_unlocked_refuted": "REFUTED without mutual exclusion (D23, code before c9a1a32), both formats: scheduled save preempted before flush(), message, stop()'s save completes, scheduled save resumes -> no main file, start-up does not load the state held at stop",
    "C12_stop_during_scheduled_save_locked": "with the lock (scheduled save completely, message, stop()'s save): stop()'s save ends Done, need_save clear, start-up loads exactly the state held at stop - all formats, state types, prior configurations, write counts",
    "C12_crash_atomic": "forall format, states, valid prior configuration, w>=1, crash point, lost suffix of directory ops, "
                        "loss choice, measured decoder classes: start-up loads exactly old (nothing if no file) or new; disk "
                        "is again a valid configuration; next save+load round-trips",
    "C12_fault_atomic": "same with OSError at any call: exception leaves save_sensors, need_save set unless new file "
                        "durably in place, load gives old or new, next save by the same process succeeds",
    "C12_five_configurations": "the five configurations of the property are valid prior configurations",
    "C12_fsync_needed": "without os.fsync the statement is false (completed save, crash, empty network loaded)",
    "C12_order_needed": "with the renames swapped the statement is false",
    "C12_atomic_save_unordered_metadata_refuted": "if an arbitrary subset of directory operations can be lost the "
                                                  "protocol is not atomic (assumption made explicit)",
}

FMTS = ("json", "pickle")
CFGS = {"none": "0nn", "main": "1nn", "main+bak": "1gn", "main+tmp": "1ng", "main+bak+tmp": "1gg"}
LOSSES = ("all", "half", "none")
NEXT_DELTA = ["9;255;0;0;17;2.2", "9;3;0;0;6;nx", "9;3;1;0;0;1.5"]


def state_sets(ctx):
    """List of dicts of line lists: old, new (= old + change), sb, st."""
    sets = [{
        "old": F.BASE_LINES,
        "new": F.BASE_LINES + ["1;1;1;0;0;21.0", "2;255;0;0;17;2.2", "2;4;0;0;7;hum"],
        "sb": ["5;255;0;0;17;2.0", "5;1;0;0;6;stale bak"],
        "st": ["6;255;0;0;18;2.2", "6;2;0;0;3;stale tmp", "6;2;1;0;2;1"],
    }, {   # the very first save of an empty network over an existing file, and back
        "old": ["3;255;0;0;17;2.2"],
        "new": [],
        "sb": ["5;255;0;0;17;2.0"],
        "st": ["6;255;0;0;18;2.2"],
    }, {   # an empty network had been saved before
        "old": [],
        "new": ["3;255;0;0;17;2.2", "3;1;0;0;6;first"],
        "sb": ["5;255;0;0;17;2.0"],
        "st": ["6;255;0;0;18;2.2"],
    }]
    rng = ctx.rng("c12", "states")
    n = ctx.budget(1, 6)
    while len(sets) < 3 + n:
        old = F.gen_state(rng)
        s = {"old": old, "new": old + F.gen_state(rng, 1), "sb": F.gen_state(rng, 1), "st": F.gen_state(rng, 1)}
        sets.append(s)
    return sets


def prepare(root, fmt, sset):
    """Bytes and projections of the four files of a state set; decoder classes on partial / empty."""
    d = os.path.join(root, "prep")
    info = {}
    for k in ("old", "new", "sb", "st"):
        data, proj = F.saved_bytes(d, fmt, sset[k])
        info[k] = {"bytes": data, "proj": proj}
    p = F.paths_for(d, fmt)
    for tag, blob in (("ep", info["new"]["bytes"][:max(1, len(info["new"]["bytes"]) // 2)]), ("ee", b"")):
        F.write_file(p["Main"], blob)
        gw = F.new_gateway(p["Main"])
        try:
            gw.tasks.persistence._perform_file_action(p["Main"], "load")
            info[tag] = "NoError"
        except Exception as exc:  # noqa
            info[tag] = F.qualname(type(exc))
    shutil.rmtree(d, ignore_errors=True)
    return info


def classify(proj, info, exc=None):
    if exc:
        return "raise:" + exc
    if proj == F.EMPTY:
        return "empty"
    for k in ("new", "old", "sb", "st"):
        if proj == info[k]["proj"]:
            return k
    return "other"


def canon(name, info):
    """A named state that is the empty network is indistinguishable from 'nothing loaded'."""
    return "empty" if name in info and info[name]["proj"] == F.EMPTY else name


def setup_dir(d, fmt, cfg, info):
    shutil.rmtree(d, ignore_errors=True)
    os.makedirs(d)
    p = F.paths_for(d, fmt)
    code = CFGS[cfg]
    if code[0] == "1":
        F.write_file(p["Main"], info["old"]["bytes"])
    if code[1] == "g":
        F.write_file(p["Bak"], info["sb"]["bytes"])
    if code[2] == "g":
        F.write_file(p["Tmp"], info["st"]["bytes"])
    return p


def dir_shape(p, fmt):
    """(main present, bak present, tmp present)"""
    return "".join("1" if F.REAL["isfile"](p[n]) else "0" for n in ("Main", "Bak", "Tmp"))


def again(gw_or_path, p, fmt, same_process_gw=None):
    """Apply NEXT_DELTA, save, load with a fresh gateway. -> (status, need_save, round trip ok)."""
    gw = same_process_gw
    F.populate(gw, NEXT_DELTA)
    want = F.projection(gw)
    try:
        gw.tasks.persistence.save_sensors()
        status = "done"
    except Exception as exc:  # noqa
        status = "raised:" + F.qualname(type(exc))
    ns = gw.tasks.persistence.need_save
    exc, proj, _ = F.safe_load(p["Main"])
    return status, ns, (exc is None and proj == want)


def run_case(case):
    """Execute one case against the real implementation. Returns the observation dict."""
    fmt, cfg, kind, k, loss = case["fmt"], case["cfg"], case["kind"], case["k"], case["loss"]
    info = case["info"]
    d = os.path.join(case["root"], "c%d" % case["idx"])
    try:
        p = setup_dir(d, fmt, cfg, info)
        gw = F.populate(F.new_gateway(p["Main"]), case["sset"]["new"])
        pers = gw.tasks.persistence
        shim = F.Shim(p, None if kind == "plain" else (kind, k))
        how, val = shim.run(pers.save_sensors)
        obs = {"trace": F.trace_to_model(shim.trace), "how": how}
        if kind == "plain":
            obs["exc"] = F.qualname(type(val)) if how == "raise" else None
            obs["need_save"] = pers.need_save
            exc, proj, _ = F.safe_load(p["Main"])
            obs["loaded"] = classify(proj, info, exc)
            return obs
        if kind == "crash":
            shim.apply_loss(loss)
            exc, proj, gw2 = F.safe_load(p["Main"])
            obs["loaded"] = classify(proj, info, exc)
            obs["shape"] = dir_shape(p, fmt)
            obs["again"] = again(None, p, fmt, same_process_gw=gw2)
        else:
            obs["exc"] = F.qualname(type(val)) if how == "raise" else None
            obs["status"] = "raised" if how == "raise" else "done"
            obs["need_save"] = pers.need_save
            obs["main_new"] = F.REAL["isfile"](p["Main"]) and F.read_file(p["Main"]) == info["new"]["bytes"]
            d2 = d + "_copy"
            shutil.rmtree(d2, ignore_errors=True)
            shutil.copytree(d, d2)
            p2 = F.paths_for(d2, fmt)
            exc, proj, _ = F.safe_load(p2["Main"])
            obs["loaded"] = classify(proj, info, exc)
            shutil.rmtree(d2, ignore_errors=True)
            if how == "raise":
                # the SAME process retries the failed save of the SAME state (what the periodic schedule does)
                try:
                    pers.save_sensors()
                    st = "done"
                except Exception as exc:  # noqa
                    st = "raised:" + F.qualname(type(exc))
                d3 = d + "_copy"
                shutil.copytree(d, d3)
                exc3, proj3, _ = F.safe_load(F.paths_for(d3, fmt)["Main"])
                obs["retry"] = (st, pers.need_save, classify(proj3, info, exc3))
                shutil.rmtree(d3, ignore_errors=True)
            obs["again"] = again(None, p, fmt, same_process_gw=gw)
        return obs
    finally:
        shutil.rmtree(d, ignore_errors=True)


def monitor(case, obs):
    """The property itself on the real implementation. Returns list of (key, what)."""
    bad = []
    allowed = {canon("new", case["info"]), canon("old", case["info"]) if case["cfg"] != "none" else "empty"}
    if case["kind"] == "plain":
        if obs["how"] != "ok" or obs["loaded"] != canon("new", case["info"]) or obs["need_save"]:
            bad.append(("plain-save", f"undisturbed save: {obs['how']} loaded={obs['loaded']} need_save={obs['need_save']}"))
        return bad
    if obs["loaded"] not in allowed:
        bad.append((f"{case['kind']}/loads-{obs['loaded'].split(':')[0]}",
                    f"{case['fmt']} prior={case['cfg']} {case['kind']} at call {case['k']} ({case.get('op')}) loss={case['loss']}: "
                    f"start-up loads {obs['loaded']} (allowed {sorted(allowed)})"))
    st, ns, rt = obs["again"]
    if st != "done" or ns or not rt:
        bad.append((f"{case['kind']}/next-save", f"{case['fmt']} prior={case['cfg']} {case['kind']} at call {case['k']}: next save "
                    f"status={st} need_save={ns} round_trip={rt}"))
    if case["kind"] == "fault":
        if "retry" in obs:
            st3, ns3, loaded3 = obs["retry"]
            if st3 != "done" or ns3 or loaded3 != canon("new", case["info"]):
                bad.append(("fault/retry-of-the-same-state",
                            f"{case['fmt']} prior={case['cfg']} OSError at call {case['k']} ({case.get('op')}): the retried save "
                            f"of the same state: status={st3} need_save={ns3}, start-up then loads {loaded3}"))
        if obs["how"] == "raise" and obs["exc"] != "OSError":
            bad.append(("fault/other-exception", f"injected OSError surfaced as {obs['exc']}"))
        if obs["how"] == "raise" and not obs["need_save"]:
            bad.append(("fault/need-save-cleared", f"{case['fmt']} prior={case['cfg']} OSError at call {case['k']} ({case.get('op')}): "
                        "save_sensors raised but need_save is False"))
        if not obs["need_save"] and not obs["main_new"]:
            bad.append(("fault/need-save-cleared", "need_save False but the new file is not in place"))
    return bad


def model_line(case, info, w):
    c = CFGS[case["cfg"]]
    ep, ee = enc_str(info["ep"]), enc_str(info["ee"])
    if case["kind"] == "crash":
        return f"crash {case['fmt']} {c} {w} {case['k']} 0 {case['loss']} {ep} {ee}"
    return f"fault {case['fmt']} {c} {w} {case['k']} {ep} {ee}"


def model_obs(case, out):
    t = out.split(" ")
    norm = lambda x: canon({"ok:new": "new", "ok:old": "old", "ok:": "empty", "ok:sb": "sb", "ok:st": "st"}.get(x, x), case["info"])
    if case["kind"] == "crash":
        loaded, cfg, st, ns, l3 = t
        shape = "main-not-good" if cfg == "badmain" else cfg[0] + ("0" if cfg[1] == "n" else "1") + ("0" if cfg[2] == "n" else "1")
        return {"loaded": norm(loaded), "main_bak": shape,
                "again": [st, ns == "1", l3 == "ok:next"]}
    status, ns1, mainnew, loaded, st, ns, l3 = t
    return {"status": status, "need_save": ns1 == "1", "main_new": mainnew == "1", "loaded": norm(loaded),
            "again": [st, ns == "1", l3 == "ok:next"]}


def impl_view(case, obs):
    if case["kind"] == "crash":
        return {"loaded": obs["loaded"], "main_bak": obs["shape"], "again": list(obs["again"])}
    return {"status": obs["status"], "need_save": obs["need_save"], "main_new": obs["main_new"], "loaded": obs["loaded"],
            "again": list(obs["again"])}


def strip(case):
    return {k: v for k, v in case.items() if k not in ("info", "root", "idx")}


def run_two_saves(ctx, res):
    """Tie of the two-thread model (Model/FsConc.v, theorems C12_stop_during_scheduled_save_*): the slow-save family
    of harness/impl/slowsave.py (real threads: the scheduled save paused at a point of its file work, messages,
    stop()) against the model's prediction for saves that exclude each other (`conc ... locked ...`).  When the
    implementation differs, the model WITHOUT mutual exclusion is asked too (does it explain the observation?)."""
    from harness.impl import slowsave
    got = []
    slowsave.run_all(res, ID, thorough=(ctx.tier == "thorough"), collect=got)
    if ctx.model is None or not got:
        return
    # (no partial or empty file is decoded in these scenarios: the class the decoder would raise does not matter)
    dmg = {"json": "ValueError", "pickle": "EOFError"}
    lines, keep = [], []
    for v, o in got:
        if "loaded" not in o:
            continue
        e = enc_str(dmg[v[1]])
        lines.append(f"conc {v[1]} locked {v[2]} {e} {e}")
        lines.append(f"conc {v[1]} unlocked {v[2]} {e} {e}")
        keep.append((v, o))
    outs = ctx.model.batch(lines)
    agree = 0
    for k, (v, o) in enumerate(keep):
        locked, unlocked = outs[2 * k].split(" "), outs[2 * k + 1].split(" ")
        seen = slowsave.loaded_token(o)
        if locked[0] == seen:
            agree += 1
            continue
        why = ("it is what the model WITHOUT mutual exclusion of saves predicts for this pause point" if unlocked[0] == seen
               else f"(the model without mutual exclusion predicts {unlocked[0]})")
        res.violate("two-saves/model-differs", f"{v}: start-up after the stop loaded {seen}, the model of saves that exclude "
                    f"each other predicts {locked[0]}; {why}", {"kind": "slow-save", "variant": list(v)}, kind="correspondence")
    res.count("two-saves-model-comparisons", len(keep))
    res.extra["two_thread_model_tie"] = {"variants": len(keep), "agree_with_locked_model": agree}


def run(ctx, res):
    root = str(F.scratch_root())
    try:
        from harness.impl import linkfile
        linkfile.run_all(res, ID)        # the file is a symbolic link: monitors only (outside the one-directory model)
        run_two_saves(ctx, res)
        _run(ctx, res, root)
    finally:
        F.cleanup_scratch()


def _run(ctx, res, root):
    sets = state_sets(ctx)
    cases = []
    plain = {}
    # (b) undisturbed runs: trace and number of writes per (fmt, set, cfg)
    for fmt in FMTS:
        for si, sset in enumerate(sets):
            info = prepare(root, fmt, sset)
            if len({info[k]["proj"] for k in ("old", "new", "sb", "st")} | {F.EMPTY}) != 5 and si not in (1, 2):
                continue
            for cfg in CFGS:
                base = {"fmt": fmt, "si": si, "cfg": cfg, "sset": sset, "info": info, "root": root}
                c = dict(base, kind="plain", k=-1, loss="-", idx=len(cases))
                obs = run_case(c)
                res.evaluations += 1
                for key, what in monitor(c, obs):
                    res.violate(key, what, strip(c), kind="monitor", found_input=True)
                w = obs["trace"].count("write")
                plain[(fmt, si, cfg)] = (obs["trace"], w)
                res.count(f"writes/{fmt}/{'1' if w == 1 else '2-9' if w < 10 else '10-99' if w < 100 else '100+'}")
                n = len(obs["trace"])
                for kind in ("crash", "fault"):
                    for k in range(n + 1):
                        for loss in (LOSSES if kind == "crash" else ("-",)):
                            cases.append(dict(base, kind=kind, k=k, loss=loss, idx=len(cases) + 1000,
                                              op=obs["trace"][k] if k < n else "after-last", n=n, w=w))
    # model: traces
    if ctx.model is not None:
        keys = list(plain)
        outs = ctx.model.batch([f"trace {fmt} {plain[(fmt, si, cfg)][1]} {1 if cfg != 'none' else 0}" for fmt, si, cfg in keys])
        for key, out in zip(keys, outs):
            got = " ".join(plain[key][0])
            if out != got:
                res.violate("trace/differs", f"recorded call sequence of save_sensors differs from Gen/SaveTrace.v for {key}: "
                            f"model [{_short(out)}] impl [{_short(got)}]",
                            {"fmt": key[0], "cfg": key[2], "sset": sets[key[1]], "kind": "plain", "k": -1, "loss": "-",
                             "model_trace": out, "impl_trace": got}, kind="correspondence", found_input=False)
        res.extra["trace_correspondences"] = len(keys)
    # (c) exhaustive events
    with ProcessPoolExecutor(max_workers=min(16, os.cpu_count() or 4)) as ex:
        observations = list(ex.map(run_case, cases, chunksize=16))
    mouts = None
    if ctx.model is not None:
        mouts = ctx.model.batch([model_line(c, c["info"], c["w"]) for c in cases])
    ndiff = 0
    for i, (c, obs) in enumerate(zip(cases, observations)):
        res.evaluations += 1
        res.count(f"{c['kind']}/{c['op'].split(':')[0]}")
        res.count(f"loaded/{obs['loaded']}")
        if c["k"] < c["n"]:
            res.nontriv((c["fmt"], c["si"], c["cfg"], c["kind"], c["k"], c["loss"]))
        bad = monitor(c, obs)
        for key, what in bad:
            res.violate(key, what, strip(c), kind="monitor", found_input=True)
        if mouts is not None:
            mv, iv = model_obs(c, mouts[i]), impl_view(c, obs)
            if mv != iv and ndiff < 20:
                ndiff += 1
                res.violate("model/differs", f"model and implementation differ: {strip_small(c)} model={mv} impl={iv}",
                            dict(strip(c), model=mv, impl=iv), kind="correspondence", found_input=bool(bad))
        if i % 97 == 0:
            res.sample({"case": strip_small(c), "impl": impl_view(c, obs)})
    res.exhaustive = True
    res.extra["exhaustive_subspaces"] = ["formats x state sets x 5 prior configurations x every call index (incl. after-last) x "
                                         "{crash x {all,half,none}, fault}"]
    res.extra["state_sets"] = len(sets)
    # extraction cross-check on a sample
    if ctx.model is not None and mouts:
        step = max(1, len(cases) // 40)
        xin = [model_line(c, c["info"], c["w"]) for c in cases[::step]]
        xout = mouts[::step]
        n, ok, lg = core.coq_crosscheck([xin], [xout], "c12", shell="Fs")
        res.extra["extraction_crosschecks"] = n
        if not ok:
            res.violate("extraction/differs", "extracted runner and vm_compute disagree: " + lg[-300:], {"lines": xin[:3]},
                        kind="correspondence", found_input=False)


def _short(s):
    import re
    return re.sub(r"(write )+", "write* ", s)


def strip_small(c):
    return {k: c[k] for k in ("fmt", "si", "cfg", "kind", "k", "op", "loss") if k in c}


def replay(ctx, case):
    case = case.get("case", case)
    if case.get("kind") == "linked-file":
        from harness.impl import linkfile
        return linkfile.replay(case)
    if case.get("kind") == "slow-save":
        from harness.impl import slowsave
        return slowsave.replay(case, "C14")
    root = str(F.scratch_root())
    try:
        if "sset" not in case:
            return {"violates": False, "note": "not a concrete case"}
        info = prepare(root, case["fmt"], case["sset"])
        c = dict(case, info=info, root=root, idx=0)
        obs = run_case(c)
        bad = monitor(c, obs)
        out = {"case": strip_small(c), "impl": {k: v for k, v in obs.items() if k != "trace"},
               "trace": _short(" ".join(obs["trace"])), "monitor": [w for _, w in bad], "violates": bool(bad)}
        if ctx.model is not None and case["kind"] in ("crash", "fault"):
            w = case.get("w") or 1
            out["model"] = model_obs(c, ctx.model.batch([model_line(c, info, w)])[0])
        return out
    finally:
        F.cleanup_scratch()
