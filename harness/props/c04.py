"""C04 - network state mirrors what the nodes reported; callbacks are exact."""
import os
import shutil
from concurrent.futures import ProcessPoolExecutor

from harness import gwcheck
from harness.gen import scenarios_a

ID = "C04"
PROP_FILE = "C04.v"
SOFT_PINS = "core"
TRANSLATORS = ["unicode_tables", "tables"]
RULE = ("half grammar-generated histories (10-40 ops: inbound lines of every handler kind valid and invalid, known/unknown "
        "nodes and children, set_child_value / update_fw calls, pumps), half directed ones (second presentation of a known "
        "child, re-presented nodes, traffic of unknown nodes/children, id requests, repeated reports of one value type, "
        "attribute reports) over 5 versions x threaded/asyncio x plain/MQTT, 30% with persistence and periodic save ticks (so that "
        "the unsaved-changes flag is observable); every history with a callback is run twice, "
        "with a returning and with a raising callback, and the two runs must be identical. The monitor folds the accepted "
        "lines through an independent reference meaning and compares the real tree after every processed line. "
        "non-trivial = distinct history with at least 3 tree-changing lines and at least one callback")
ASSUMPTIONS = ["which lines are accepted is decided by the library's decoder+validator (their conformance is C02/C03)",
               "is_version (awesomeversion) verdicts are taken from the library (safe_is_version) in the reference meaning",
               "float(), awesomeversion are oracles of the model fed with the library's real verdicts"]
THEOREMS_DOC = {
    'C04_registry_resolution': 'per version the generated registry resolves every valid internal/stream sub-type to a handler of the hand-written kind; MAX_NODE_ID=254',
    'C04_logic_tree_meaning': 'after one dispatcher call the whole persisted tree equals meaning_line of the line (all configs, oracles, states with Inv)',
    'C04_tree_async': 'asyncio flavour: tree after any list of lines = fold of meaning_line from the empty tree',
    'C04_tree_async_ops': 'asyncio flavour with controller calls and idle pumps anywhere',
    'C04_tree_is_fold_of_meaning': 'both flavours, any placement of pumps/controller calls: fold over queued lines from current tree = fold over all received lines',
    'C04_tree_threaded_drained': 'threaded flavour: once no line is queued the tree is the fold over all received lines',
    'C04_controller_ops_frame': 'set_child_value/update_fw/set metric steps change neither tree nor dirty flag',
    'C04_send_job_frame': 'pumping a queued send job changes neither tree nor dirty flag',
    'C04_child_frame': 'closed equation for every child after any message',
    'C04_value_is_last_reported': 'closed equation: a value changes only by a set for exactly that node/child/type on a known child and then holds the payload',
    'C04_first_presentation_wins': 'a presented child keeps id/type/description through any later lines',
    'C04_second_presentation_ignored': 'presentation of a known child changes nothing',
    'C04_unknown_target_ignored': 'child presentation to unknown node / set for unknown node or child changes nothing',
    'C04_nodes_only_by_presentation_or_id': 'a new node key comes from an accepted node presentation or id request only',
    'C04_callback_exact': 'callback events of one call: [] or exactly [ECallback m tree_after] iff accepted and alerting and callback configured',
    'C04_alerted_line_spec': 'alerted_line = Some m iff decodes to m, accepted, alerting',
    'C04_callback_never_twice': 'at most one callback per call, none without a configured callback',
    'C04_changed_alerts': 'tree changed => accepted, alerting, exactly one callback with that message and the tree after',
    'C04_changed_implies_alerting': 'meaning changes the tree => alerting',
    'C04_alerting_without_change': 'gateway ready, stream requests of known nodes, repeated identical value alert without tree change',
    'C04_callbacks_history': 'callback log of a whole history = one event per alerting accepted line, in order, with the tree after it',
    'C04_callback_raise_irrelevant': 'alert is total and touches only log and flag; no callback outcome exists in the model',
    'C04_setters_fallback': 'closed forms of battery_of / heartbeat_of / safe_version with fallbacks 0 / 0 / 1.4',
    'C04_version_held_numeric': 'for ALL oracle tables and every dotted numeric payload p: safe_version p = p if p is numerically >= 1.4 (num_ge on section values) else "1.4"; a node holding a dotted numeric version is served with the table of floor_ver = the greatest supported version not numerically above it',
    'C04_floor_ver_is_floor': 'floor_ver l is the greatest of 1.4/1.5/2.0/2.1/2.2 that l is numerically at least (1.4 when l is below all of them)'}
SCOPE = ["tree", "CB"]
MONITORS = ["c04"]


def build_cases(ctx):
    n = ctx.budget(300, 6000)
    cases = scenarios_a.generic_cases(ctx, "c04", n // 2, mqtt_rate=0.15)
    for i in range(n - n // 2):
        rng = ctx.rng("c04d", i)
        cfg = gwcheck.make_cfg(rng)
        cfg["callback"] = rng.random() < 0.9
        cases.append({"id": f"c04d-{ctx.seed}-{ctx.scale}-{i}", "cfg": cfg, "ops": scenarios_a.c04_directed(rng, cfg)})
    for i, c in enumerate(cases):          # 30% with persistence and save ticks: the dirty flag is observable there
        rng = ctx.rng("c04p", i)
        c["_fmt"] = rng.choice(["json", "pickle"]) if rng.random() < 0.3 else None
        if c["_fmt"]:
            c["ops"] = scenarios_a.sprinkle_persistence(rng, c["ops"], 0.12, 0.0)
    return cases


def twin(case):
    return dict(case, id=case.get("id", "replay") + "-twin", cfg=dict(case["cfg"], cb_raises=not case["cfg"].get("cb_raises", False)))


def pair_diff(a, b):
    """first (op index, component) in which two implementation runs differ, or None."""
    from harness.impl import gwrun
    for k, (x, y) in enumerate(zip(a, b)):
        if x != y:
            cx, cy = gwrun.split_components(x), gwrun.split_components(y)
            for comp in gwcheck.ALL:
                if cx.get(comp) != cy.get(comp):
                    return k, comp
            return k, "raw"
    return None


def run(ctx, res):
    cases = build_cases(ctx)
    fmts = {c["id"]: c.pop("_fmt") for c in cases}
    root = scenarios_a.assign_persist(cases, "c04", lambda i, c: fmts[c["id"]])
    try:
        recs = gwcheck.run_cases(ctx, res, cases, MONITORS, SCOPE, "c04")
    finally:
        shutil.rmtree(root, ignore_errors=True)
    # the same histories with the callback's behaviour flipped (raising <-> returning): nothing else may change
    paired = [r for r in recs if r["case"]["cfg"].get("callback", True)]
    twins = [dict(twin(r["case"]), monitors=MONITORS) for r in paired]
    root = scenarios_a.assign_persist(twins, "c04t", lambda i, c: fmts[c["id"][:-5]])
    jobs = min(16, os.cpu_count() or 4)
    try:
        with ProcessPoolExecutor(jobs) as ex:
            touts = [o for part in ex.map(gwcheck.impl_chunk, gwcheck.chunks(twins, jobs * 2)) for o in part]
    finally:
        shutil.rmtree(root, ignore_errors=True)
    for r, t, (outs, viol, _stats) in zip(paired, twins, touts):
        res.count("pair:raising-vs-returning-callback")
        for (_mon, key, what) in viol:
            res.violate(key, f"[{t['id']}] {what}", {"cfg": t["cfg"], "ops": t["ops"], "monitors": MONITORS})
        d = pair_diff(r["impl"], outs)
        if d:
            k, comp = d
            res.violate(f"raising-callback-changes/{comp}",
                        f"[{r['case']['id']}] op {k} {r['case']['ops'][k]!r}: {comp} differs between a raising and a returning callback",
                        {"kind": "cb-pair", "cfg": r["case"]["cfg"], "ops": r["case"]["ops"][:k + 1], "monitors": MONITORS})
    if ctx.tier == "thorough" and not ctx.searching:
        # exhaustive small scope: EVERY history of length <= 4 (asyncio) / <= 3 (threaded) over a 12-letter alphabet
        xs = (gwcheck.small_scope_cases("c04", 4, versions=("2.0", "2.2"), flavours=("async",))
              + gwcheck.small_scope_cases("c04", 3, versions=("1.4", "1.5", "2.1"), flavours=("async",))
              + gwcheck.small_scope_cases("c04", 3, flavours=("sync",)))
        gwcheck.run_cases(ctx, res, xs, MONITORS, SCOPE, "c04x")
        res.extra["exhaustive_subspaces"] = [f"all {len(xs)} histories of length <= 4 (asyncio 2.0, 2.2) / <= 3 (asyncio other versions, threaded all versions) over "
                                             "gwcheck.SMALL_ALPHABET, 5 versions"]
    for r in recs:
        st = r["stats"]
        if st.get("c04:tree-changing-line", 0) >= 3 and st.get("c04:callback", 0) >= 1:
            res.nontriv(r["case"]["id"])
    for r in recs[:2] + recs[-2:]:
        res.sample({"cfg": r["case"]["cfg"], "ops": r["case"]["ops"][:8], "n_ops": len(r["case"]["ops"])})


def replay(ctx, case):
    c0 = case["case"] if "case" in case else case
    c, root = scenarios_a.relocated(c0, "c04")
    try:
        out = gwcheck.replay_case(ctx, c)
        if c0.get("kind") == "cb-pair":
            runs = []
            for variant in (c, twin(c)):
                shutil.rmtree(root, ignore_errors=True)
                if variant["cfg"].get("persist"):
                    root.mkdir(parents=True, exist_ok=True)
                runs.append(gwcheck.impl_case(dict(variant, monitors=[]))[0])
            out["pair_first_diff"] = pair_diff(*runs)
            out["violates"] = out["violates"] or out["pair_first_diff"] is not None
        return out
    finally:
        shutil.rmtree(root, ignore_errors=True)
