"""C20 - connections are supervised and the callbacks are exact.

Tie: the real SerialGateway / TCPGateway / AsyncSerialGateway / AsyncTCPGateway over fake OS
objects on a simulated clock (harness/impl/supfakes.py) against the extracted automata of
Model/Supervise.v, event sequence by event sequence; BaseTCPGateway.check_connection driven
directly against Model/Watchdog.v on latency grids; monitors evaluate the clauses of the
property on the recorded observations only.
"""
import itertools
import math
import os
import re
from concurrent.futures import ProcessPoolExecutor

from harness import core

ID = "C20"
PROP_FILE = "C20.v"
RUNNER = "Sup"
TRANSLATORS = ["sup_consts"]
RULE = ("cases = (flavour, event sequence) over {ok fail rerr werr pclose preset udisc stop ans send t300 t1100}, "
        "exhaustive up to the tier's length from the state right after start(), run on the real gateway "
        "classes with fake OS objects and a simulated clock; plus watchdog schedules (poll period x latency "
        "pattern on a grid around rt and 2 rt). non-trivial = at least one link established and at least one "
        "loss or stop; distinct = distinct per-event observation string of the implementation")
ASSUMPTIONS = [
    "events are processed to quiescence one at a time; a dial takes no simulated time (Tick ignored while a dial is pending)",
    "asyncio transports behave like asyncio's: connection_made via call_soon after creation, close() -> connection_lost(None) once via call_soon, errors/EOF -> connection_lost(exc/None) (FakeAsyncTransport); pyserial ReaderThread as installed (hash pinned by the translator)",
    "threaded flavours: real ReaderThread/TCPTransport/connect/poll threads over fake serial_for_url, socket.create_connection, select.select, time.sleep; TCPTransport.run's 0.02 s loop and the poll thread run one pass per event instead of every 20 ms (the 20 ms granularity is studied separately in Model/Watchdog.v)",
    "threaded flavours: a dial that succeeds after disconnect()/stop() cleared transport.protocol is excluded (reader thread dies on the None protocol, ReaderThread.connect may hang): AttemptOk is ignored there by model and rig",
    "clock unit 1/1024 s so that time.time() values and reconnect_timeout=0.5 are exact binary64 numbers",
    "asyncio serial: an orderly close (connection_lost(None) without a local close) is injected for the correspondence but serial_asyncio 0.6 never produces it; the monitor does not count it as a loss the user did not request",
]
TRUSTED = [
    "harness/impl/supfakes.py: fake serial port / socket / asyncio transport, simulated clock, quiescence detection for real threads",
    "harness/translate/sup_consts.py: AST shapes of transport.py, gateway_serial.py, gateway_tcp.py, task.py -> Gen/SupConsts.v (fail closed)",
]
THEOREMS_DOC = {
    "C20_reachable_inv": "every reachable state: link up => protocol set and no dial loop; watchdog timer armed => link up; stopped => no protocol, no link",
    "C20_callbacks_step": "per step: on_conn_made iff a link comes up, on_conn_lost(exc as specified, None for disconnect/stop) iff a link goes down, nothing else",
    "C20_made_once": "forall event sequences: #on_conn_made = #links established",
    "C20_lost_once": "forall event sequences: #on_conn_lost = #links lost",
    "C20_callbacks_alternate": "made/lost callbacks strictly alternate starting with made",
    "C20_lost_exc": "every on_conn_lost of a step carries SupSpec.loss_exc",
    "C20_reconnect_follows_loss_sync": "threaded: every loss not caused by disconnect()/stop() leaves a dial attempted at that instant",
    "C20_reconnect_follows_loss_async_partial": "asyncio: same except for an orderly close by the peer",
    "C20_reconnect_follows_loss_async_refuted": "D13: asyncio, connect then peer close: on_conn_lost(None), then no output ever again for any continuation",
    "C20_retry_after_fail": "a failed dial sleeps reconnect_timeout",
    "C20_retry_timing": "unless disconnect()/stop(): the next attempt happens exactly when the sleep ends, not before, whatever happens meanwhile",
    "C20_quiet_after_stop_sync": "threaded: after stop() no callback, attempt, write or close, for every continuation",
    "C20_quiet_after_stop_async": "asyncio: the same statement at the same strength, from any invariant state - including stop() during the first connect loop of `await start()` (D21 repaired: the loop tests transport.protocol and ends)",
    "C20_after_stop_at_most_one_sleep": "all flavours, exact form: after stop() the outputs of any continuation are [] or the single Sleep rt of the dial that was in flight",
    "C20_no_output_after_stop_async_connected": "asyncio, once a first link has been established (later dial loops are connect_task, cancelled by stop()): no output at all",
    "C20_quiet_after_stop_async_unfixed_refuted": "HISTORY D21: with the pre-repair loop header `while True:` (loop-test flags false) stop() during the first connect loop does not end it (attempt at +rt)",
    "C20_stop_ends_first_connect_loop": "the D21 history on the current code: stop, failed dial, rt later: one sleep, no attempt, loop ended",
    "C20_watchdog_sync_tick": "threaded TCP: a Tick drops/probes/idles exactly as wd_check says; a drop closes, reports exc and re-dials at once",
    "C20_watchdog_async_timer": "asyncio TCP: same at each call_later firing (on_conn_lost(None)), re-armed rt+slack later",
    "C20_watchdog_timely_safe": "polls <= delta apart and answers processed within rt - delta of each probe: never dropped (any schedule)",
    "C20_watchdog_boundary_refuted": "D14: with answers within rt (no margin) a link is dropped: polls 20 apart, rt 100, latency exactly rt",
    "C20_watchdog_silent_dropped": "last answer at T, polls <= delta apart: first drop in (T+2rt, T+2rt+delta], none before",
    "C20_watchdog_async_timely_safe": "asyncio chain (period rt+slack, 0<slack<rt): answers before the next firing are always in time",
    "C20_watchdog_async_silent_dropped": "asyncio chain: silence detected in (T+2rt, T+3rt+slack]",
}

RT = 512
FLAVOURS = ("sser", "stcp", "aser", "atcp")
FLNAME = {"sser": "sync-serial", "stcp": "sync-tcp", "aser": "async-serial", "atcp": "async-tcp"}
ALPHA = ("ok", "fail", "rerr", "werr", "pclose", "preset", "udisc", "stop", "ans", "send", "t300", "t1100")
ALPHA_SMALL = ("ok", "fail", "rerr", "werr", "pclose", "udisc", "stop", "ans", "t300", "t1100")
ALPHA_6 = ("ok", "fail", "rerr", "werr", "pclose", "udisc", "stop", "ans", "t1100")

KEY_D13 = "async-tcp/peer-close/no-reconnect"
KEY_D14 = "sync-tcp/watchdog/answer-within-rt-dropped-by-poll-margin"
KEY_STOP = "async/stop-before-first-connect/dial-continues"


def gen_consts():
    """slack and reader period in ticks, from the generated Gen/SupConsts.v (source literals)"""
    from harness.impl import supfakes as sf
    vals = {"wd_slack_num": 1, "wd_slack_den": 10, "reader_sleep_num": 1, "reader_sleep_den": 50, "wd_factor": 2}
    p = core.GEN / "SupConsts.v"
    if p.exists():
        for k, v in re.findall(r"Definition (\w+) : Z := (-?\d+)\.", p.read_text()):
            vals[k] = int(v)
    slack = sf.ticks_of(vals["wd_slack_num"] / vals["wd_slack_den"])
    period = sf.ticks_of(vals["reader_sleep_num"] / vals["reader_sleep_den"])
    return slack, period


def slack_of(fl, slack):
    return slack if fl == "atcp" else 0


# ----------------------------------------------------------------------- canonical forms

def canon_impl(obs):
    return " ".join("%d/%d%d%s/%s" % (n, tp, cn, ct, ",".join(sorted(o)) or "-") for n, tp, cn, ct, o in obs)


def canon_model(line):
    out = []
    for tok in line.split(" "):
        a, b, c = tok.split("/")
        out.append(a + "/" + b + "/" + (",".join(sorted(c.split(","))) if c != "-" else "-"))
    return " ".join(out)


def model_line(fl, rt, slack, seq):
    return "run %s %d %d %s" % (fl, rt, slack_of(fl, slack), " ".join(seq))


# ----------------------------------------------------------------------- monitors

def monitor(fl, rt, slack, detail):
    """The clauses of the property on the recorded observations of one case (no model).
    Returns [(key, what)]."""
    from harness.impl.supfakes import PROBE
    v = []
    name = FLNAME[fl]
    tcp = fl in ("stcp", "atcp")
    asy = fl in ("aser", "atcp")
    link = None            # current link record
    ev = "start"
    ev_t = 0
    after_stop = False
    ever_up = False
    dial_pending = True    # start() leaves a dial pending
    retry = None           # {"due": t, "live": bool}
    ended_now = None       # link that ended during the current event
    attempt_after_end = False
    user_gone = False      # disconnect() or stop() was called

    def end_of_event():
        nonlocal ended_now
        if link is not None:
            if link["made"] != 1:
                v.append((name + "/made/%d-calls-for-one-link" % link["made"],
                          "on_conn_made called %d times for one established connection" % link["made"]))
                link["made"] = 1
            want = 1 if link["ended"] else 0
            if link["lost"] != want:
                v.append((name + "/lost/%d-calls-for-%s" % (link["lost"], "a-lost-link" if want else "a-live-link"),
                          "on_conn_lost called %d times, link ended by %s" % (link["lost"], link["ended"])))
                link["lost"] = want
        if ended_now is not None:
            cause = ended_now["ended"]
            user = ended_now["ended_ev"] in ("udisc", "stop")
            exempt = fl == "aser" and cause == "pclose"
            if not user and not exempt and not attempt_after_end:
                c = "watchdog" if ended_now.get("wd") else (
                    "write-error" if ended_now["ended_ev"] == "werr" else
                    {"pclose": "peer-close", "preset": "peer-reset", "rerr": "read-error"}.get(cause, cause))
                v.append((name + "/" + c + "/no-reconnect",
                          "link lost by %s during event %s but no reconnect attempt follows" % (c, ended_now["ended_ev"])))
            ended_now = None
        # watchdog: a silent link must be gone
        if tcp and link is not None and not link["ended"]:
            silent_for = ev_end_t[0] - link["T"]
            if fl == "atcp" and silent_for > 2 * rt + rt + slack:
                v.append((name + "/watchdog/silent-link-not-dropped",
                          "no answer for %d ticks (rt=%d) and the link is still up" % (silent_for, rt)))
                link["T"] = ev_end_t[0]
            if fl == "stcp" and ev[0] == "t" and silent_for > 2 * rt and ev_end_t[0] > ev_t:
                v.append((name + "/watchdog/silent-link-not-dropped",
                          "no answer for %d ticks (rt=%d), the reader polled and the link is still up" % (silent_for, rt)))
                link["T"] = ev_end_t[0]

    ev_end_t = [0]
    for tag, info in detail:
        t = info.get("t", 0)
        if tag in ("ev", "end"):
            ev_end_t[0] = t
            if ev != "start":
                end_of_event()
            if ev == "stop":
                after_stop = True
            if tag == "end":
                if retry and retry["live"] and t >= retry["due"]:
                    v.append((name + "/retry/no-attempt-after-reconnect-timeout",
                              "dial failed at %d, clock reached %d, no new attempt at %d" % (retry["due"] - rt, t, retry["due"])))
                break
            ev, ev_t = info["ev"], t
            attempt_after_end = False
            if ev in ("ok", "fail"):
                if ev == "fail" and dial_pending:
                    retry = {"due": t + rt, "live": not user_gone}
                dial_pending = False
            if ev in ("stop", "udisc"):
                user_gone = True
                if retry:
                    retry["live"] = False
            continue
        if after_stop and tag[0] in "MLAWC":
            if tag[0] == "A" and asy and not ever_up:
                v.append((KEY_STOP, "stop() during the initial connect loop of `await gateway.start()`: "
                          "dial attempt at %d after stop()" % t))
            else:
                v.append((name + "/output-after-stop/" + tag[0], "%s at %d after stop()" % (tag, t)))
        if tag == "up":
            link = {"made": 0, "lost": 0, "ended": None, "ended_ev": None, "T": t, "probes": []}
            ever_up = True
        elif tag == "M":
            if link is None:
                v.append((name + "/made/without-link", "on_conn_made without an established connection"))
            else:
                link["made"] += 1
            if not info.get("ok"):
                v.append((name + "/made/wrong-argument", "on_conn_made not called with the gateway"))
        elif tag in ("down", "C"):
            if link is not None and not link["ended"]:
                link["ended"] = info.get("cause", "C")
                link["ended_ev"] = ev
                ended_now = link
                if tcp and tag == "C" and ev not in ("werr", "udisc", "stop", "send", "rerr", "preset") \
                        and (ev != "pclose" or fl == "stcp"):
                    link["wd"] = True           # closed by the watchdog
                    if fl == "atcp":
                        timely = all((a is not None and a - p <= rt) or (a is None and t - p <= rt) for p, a in link["probes"])
                        if timely:
                            v.append((name + "/watchdog/timely-link-dropped",
                                      "every probe answered within rt=%d (%s) but the link was dropped at %d"
                                      % (rt, link["probes"], t)))
        elif tag in ("L0", "L1"):
            if link is None:
                v.append((name + "/lost/without-link", "on_conn_lost without an established connection"))
            else:
                link["lost"] += 1
                if ev in ("udisc", "stop") and tag != "L0":
                    v.append((name + "/lost/exc-not-none-for-user-disconnect", "on_conn_lost(%s) for %s" % (info.get("exc"), ev)))
                cause = link["ended"]
                if cause in ("rerr", "preset") and tag != "L1":
                    v.append((name + "/lost/exc-none-for-error", "on_conn_lost(None) for %s" % cause))
            if not info.get("ok") or not info.get("injected"):
                v.append((name + "/lost/wrong-argument", "on_conn_lost called with %s" % info.get("exc")))
        elif tag[0] == "A":
            dial_pending = True
            if ended_now is not None:
                attempt_after_end = True
            if retry and retry["live"]:
                if t != retry["due"]:
                    v.append((name + "/retry/attempt-at-wrong-time",
                              "dial failed at %d, next attempt at %d instead of %d" % (retry["due"] - rt, t, retry["due"])))
            retry = None
        elif tag == "W":
            if link is not None and info.get("data") == PROBE:
                link["probes"].append([t, None])
        elif tag == "ans":
            if link is not None:
                link["T"] = t
                for pr in link["probes"]:
                    if pr[1] is None:
                        pr[1] = t
                        break
    return v


# ----------------------------------------------------------------------- watchdog, direct drive

INF = 10 ** 9


def wd_direct(rt, period, jitter, lats, nprobes=4):
    """Drive the real TCPGateway.check_connection / Gateway.logic on a schedule built from a
    latency pattern: polls every `period` (+ jitter pattern), the answer to probe k is
    processed `lats[k]` after the probe (INF: never).  Returns (events, results, info)."""
    from unittest import mock
    from harness.impl import supfakes as sf
    from mysensors.gateway_tcp import TCPGateway
    clock = sf.Clock()
    with mock.patch("time.time", clock.time):
        gw = TCPGateway("127.0.0.1", reconnect_timeout=rt / float(sf.TPS), protocol_version="2.2")
        c = 0
        gw.tcp_check_timer = clock.time()
        gw.tcp_disconnect_timer = clock.time()
        events, results, probes, answers = [], [], [], []
        due = []                       # answer instants
        t, k, drop, maxgap, last = 0, 0, None, 0, 0
        horizon = (len(lats) + 4) * (2 * rt + 4 * period)
        i = 0
        while t < horizon and drop is None:
            t = last + period + (jitter[i % len(jitter)] if jitter else 0)
            i += 1
            while due and due[0] <= t:
                a = due.pop(0)
                clock.t = sf.BASE + a
                gw.logic(sf.ANSWER.decode())
                events.append("a%d" % a)
                results.append("n")
                answers.append(a)
            clock.t = sf.BASE + t
            maxgap = max(maxgap, t - last)
            last = t
            try:
                gw.check_connection()
            except OSError:
                events.append("p%d" % t)
                results.append("d")
                drop = t
                break
            events.append("p%d" % t)
            if gw.tasks.queue:
                reply = gw.tasks.run_job()
                if reply.encode() != sf.PROBE or gw.tasks.queue:
                    raise sf.HarnessError("unexpected job queued by check_connection: %r" % reply)
                results.append("p")
                probes.append(t)
                lat = lats[k] if k < len(lats) else INF
                k += 1
                if lat < INF:
                    due.append(t + lat)
                    due.sort()
            else:
                results.append("n")
            if k >= len(lats) and not due and all(x < INF for x in lats) and answers and t >= max(answers) + period:
                break
    return events, results, {"probes": probes, "answers": answers, "drop": drop, "delta": maxgap, "end": t}


def wd_monitor(rt, lats, info, name="sync-tcp"):
    """literal property on a watchdog run: a gateway that answers every probe within rt is never
    dropped; one that stays silent is dropped within 2 rt + delta (delta = poll granularity)."""
    v = []
    probes, drop, delta = info["probes"], info["drop"], info["delta"]
    used = (list(lats) + [INF] * len(probes))[:len(probes)]
    if drop is not None and all(lat <= rt for lat in used):
        if all(lat <= rt - delta for lat in used):
            v.append((name + "/watchdog/timely-link-dropped",
                      "answers within rt - delta (rt=%d, delta=%d, latencies %s) but dropped at %d" % (rt, delta, used, drop)))
        else:
            v.append((KEY_D14, "every probe answered within rt=%d (latencies %s, probes at %s, polls %d apart) "
                      "but the link was dropped at %d" % (rt, used, probes, delta, drop)))
    spec = list(lats)[:len(probes)]
    if INF in spec:
        j = spec.index(INF)
        if all(x >= INF for x in spec[j:]):
            since = max(info["answers"]) if info["answers"] else 0
            if drop is None or drop > since + 2 * rt + delta:
                v.append((name + "/watchdog/silent-link-not-dropped",
                          "silent since %d, rt=%d, polls %d apart: dropped at %s" % (since, rt, delta, drop)))
    return v


def wd_cases(ctx, rt, period):
    grid = [0, 1, rt - 2 * period, rt - period, rt - period // 2, rt - 1, rt, rt + 1, rt + period,
            2 * rt - period, 2 * rt, INF]
    jit = [None, [0, 3, 1, 5, 2], [7, 0, 0, 11]]
    periods = [period, 7, 40] if ctx.tier == "quick" else [period, 7, 16, 40, 64]
    n = 3 if ctx.tier == "quick" else 4
    cases = []
    for pr in periods:
        for j in (jit if pr == period else jit[:1]):
            pats = itertools.product(grid, repeat=n)
            if ctx.tier != "quick" and pr != period:
                pats = itertools.product(grid, repeat=3)
            for lats in pats:
                cases.append({"kind": "wd", "rt": rt, "period": pr, "jitter": j, "lats": list(lats)})
    return cases


def async_wd_sequences(rt, slack):
    """event sequences that answer the k-th probe of the asyncio chain with a given latency"""
    q = rt + slack
    grid = [0, 1, rt - 1, rt, rt + 1, q - 1, q, q + 1, 2 * rt, INF]
    seqs = []
    # + every probe of a longer run answered with one and the same small latency (below, at and above the timer slack)
    steady = [(lat,) * 6 for lat in sorted({1, slack // 2, slack - 1, slack, slack + 1, slack + slack // 2, 2 * slack - 1,
                                            2 * slack, 3 * slack}) if 0 < lat < rt]
    for lats in list(itertools.product(grid, repeat=3)) + steady:
        marks = []                     # (time, kind)
        for k, lat in enumerate(lats):
            if lat < INF:
                marks.append((q * (k + 1) + lat, 0, "ans"))
        for k in range(1, 8 if len(lats) == 3 else 2 * len(lats) + 2):
            marks.append((q * k, 1, "timer"))
        marks.sort()
        seq, now = ["ok"], 0
        for t, _, kind in marks:
            if t > now:
                seq.append("t%d" % (t - now))
                now = t
            if kind == "ans":
                seq.append("ans")
        seqs.append(tuple(seq))
    return seqs


# ----------------------------------------------------------------------- workers

def _work(job):
    import logging
    logging.disable(logging.CRITICAL)
    from harness.impl import supfakes as sf
    fl, rt, slack, seqs, use_model = job
    res = {"n": 0, "mism": [], "viol": {}, "nontriv": set(), "herr": [], "dist": {}, "sample": None}
    outs = None
    if use_model:
        outs = core.Model(RUNNER).batch([model_line(fl, rt, slack, s) for s in seqs])
    for i, seq in enumerate(seqs):
        fk = (len(seq) + sum(map(len, seq))) % 2
        try:
            first, obs, detail = sf.run_case(fl, rt, list(seq), fk)
        except sf.HarnessError as exc:
            res["herr"].append((fl, list(seq), str(exc)))
            continue
        res["n"] += 1
        got = canon_impl(obs)
        if first != ["A0"]:
            res["mism"].append((list(seq), "start: " + str(first), "start: ['A0']"))
        if outs is not None:
            exp = canon_model(outs[i]) if seq else ""
            if got != exp and len(res["mism"]) < 10:
                res["mism"].append((list(seq), got, exp))
        for key, what in monitor(fl, rt, slack, detail):
            if key not in res["viol"]:
                res["viol"][key] = (what, list(seq))
        tags = [t for t, _ in detail]
        if "up" in tags and ("down" in tags or "C" in tags or "stop" in seq):
            res["nontriv"].add(hash((fl, got)) & 0xFFFFFFFFFFFF)
        for o in obs:
            for t in o[4]:
                k = fl + ":" + (t[0] if t[0] in "AS" else t)
                res["dist"][k] = res["dist"].get(k, 0) + 1
        if res["sample"] is None and len(seq) >= 3 and "M" in got and "L" in got:
            res["sample"] = {"flavour": fl, "events": list(seq), "impl": got}
    return res


def _work_wd(job):
    import logging
    logging.disable(logging.CRITICAL)
    cases, use_model = job
    runs, lines = [], []
    for c in cases:
        ev, out, info = wd_direct(c["rt"], c["period"], c["jitter"], c["lats"])
        runs.append((c, out, info))
        lines.append("wd %d 0 %s" % (c["rt"], " ".join(ev)))
    mouts = core.Model(RUNNER).batch(lines) if use_model else [None] * len(lines)
    res = {"n": len(cases), "drop": 0, "nontriv": [], "viol": {}, "mism": [], "lines": lines[:2]}
    for (c, out, info), mo in zip(runs, mouts):
        res["drop"] += info["drop"] is not None
        if len(info["probes"]) >= 2:
            res["nontriv"].append(("wd", c["period"], tuple(c["lats"]), str(c["jitter"])))
        for key, what in wd_monitor(c["rt"], c["lats"], info):
            if key not in res["viol"]:
                res["viol"][key] = (what, c)
        if mo is not None and mo.split(" ") != out and len(res["mism"]) < 5:
            res["mism"].append((c, " ".join(out), mo))
    return res


def sequences(alpha, maxlen):
    for n in range(1, maxlen + 1):
        for s in itertools.product(alpha, repeat=n):
            yield s


def chunked(it, size):
    buf = []
    for x in it:
        buf.append(x)
        if len(buf) >= size:
            yield buf
            buf = []
    if buf:
        yield buf


def plan(ctx):
    """[(flavour, iterable of sequences)] of the tier"""
    quick = ctx.tier == "quick"
    if ctx.searching:
        quick = False if ctx.tier == "thorough" else quick
    jobs = []
    for fl in FLAVOURS:
        asy = fl in ("aser", "atcp")
        if quick:
            L = 4 if not ctx.searching else 4
            it = sequences(ALPHA, L)
            if ctx.searching:
                it = itertools.chain(it, (("ok",) + s for s in itertools.product(ALPHA, repeat=4)))
        else:
            it = sequences(ALPHA, 5)
            if asy:
                it = itertools.chain(it, itertools.product(ALPHA_6, repeat=6))
            else:
                it = itertools.chain(it, (("ok",) + s for s in itertools.product(ALPHA_SMALL, repeat=5)))
        jobs.append((fl, it))
    return jobs


CORPUS = [
    ("atcp", ("ok", "pclose", "t1100", "t1100")),            # D13
    ("aser", ("ok", "pclose", "t1100")),
    ("atcp", ("stop", "fail", "t1100")),                     # D21 (repaired): stop during the initial dial
    ("aser", ("stop", "fail", "t1100", "ok")),
    ("atcp", ("ok", "t1100", "ans", "t1100", "t1100", "t1100")),
    ("stcp", ("ok", "t600", "ans", "pclose", "t1100", "fail", "t512", "ok")),
    ("stcp", ("ok", "werr", "ok", "preset", "fail", "t300", "t300", "ok", "stop", "send")),
    ("sser", ("ok", "rerr", "fail", "t1100", "ok", "udisc", "send", "t1100")),
    ("sser", ("fail", "stop", "t1100", "ok")),
    ("aser", ("ok", "werr", "fail", "udisc", "t1100", "fail", "stop", "t1100")),
]


def run(ctx, res):
    from harness.impl import supfakes as sf
    slack, period = gen_consts()
    use_model = ctx.model is not None
    res.extra.setdefault("per_flavour", {})
    jobs = []
    size = 600
    for fl, seq in CORPUS:
        jobs.append((fl, RT, slack, [seq], use_model))
    for fl, it in plan(ctx):
        for ch in chunked(it, size if fl in ("aser", "atcp") else 250):
            jobs.append((fl, RT, slack, ch, use_model))
    jobs.append(("atcp", RT, slack, async_wd_sequences(RT, slack), use_model))
    herr = []
    xs_in, xs_out = [], []
    with ProcessPoolExecutor(max_workers=min(16, os.cpu_count() or 4)) as ex:
        for job, r in zip(jobs, ex.map(_work, jobs, chunksize=1)):
            fl = job[0]
            res.evaluations += r["n"]
            res.extra["per_flavour"][fl] = res.extra["per_flavour"].get(fl, 0) + r["n"]
            for h in r["nontriv"]:
                res.nontriv(h)
            for k, n in r["dist"].items():
                res.count(k, n)
            if r["sample"]:
                res.sample(r["sample"], cap=8)
            herr.extend(r["herr"])
            for key, (what, seq) in r["viol"].items():
                res.violate(key, what, {"kind": "seq", "fl": fl, "rt": RT, "ev": seq}, kind="monitor")
            for seq, got, exp in r["mism"]:
                # a difference: run the monitor first (done above for every case); report the diff softly
                res.violate("corr/" + fl, "model %s != implementation %s for %s %s" % (exp, got, fl, seq),
                            {"kind": "seq", "fl": fl, "rt": RT, "ev": seq}, kind="correspondence", found_input=False)
            if use_model and len(xs_in) < ctx.budget(200, 600) and job[3]:
                for s in job[3][:3]:
                    if s:
                        xs_in.append(model_line(fl, RT, slack, s))
    if herr:
        raise sf.HarnessError("rig failures (not violations): %s" % herr[:3])
    # watchdog, direct drive of check_connection
    wcases = wd_cases(ctx, RT, period)
    wjobs = [(ch, use_model) for ch in chunked(iter(wcases), 500)]
    lines = []
    with ProcessPoolExecutor(max_workers=min(16, os.cpu_count() or 4)) as ex:
        for r in ex.map(_work_wd, wjobs, chunksize=1):
            res.evaluations += r["n"]
            res.count("wd:drop", r["drop"])
            res.count("wd:kept", r["n"] - r["drop"])
            for h in r["nontriv"]:
                res.nontriv(h)
            lines.extend(r["lines"])
            for key, (what, c) in r["viol"].items():
                res.violate(key, what, c, kind="monitor")
            for c, got, exp in r["mism"]:
                res.violate("corr/wd", "model %s != implementation %s for %s" % (exp, got, c), c,
                            kind="correspondence", found_input=False)
    res.extra["watchdog_schedules"] = len(wcases)
    res.exhaustive = not ctx.searching
    res.extra["exhaustive_subspaces"] = ["event sequences up to the tier's length per flavour", "latency grid^n x poll periods"]
    if use_model and not ctx.searching and xs_in:
        xs_in = xs_in[:ctx.budget(200, 600)] + lines[:40]
        xs_out = ctx.model.batch(xs_in)
        n, ok, lg = core.coq_crosscheck([xs_in], [xs_out], "c20", shell=RUNNER)
        res.extra["extraction_crosschecks"] = n
        if not ok:
            res.violate("xcheck", "extracted runner disagrees with vm_compute: " + lg[-300:], {"tag": "c20"},
                        kind="correspondence", found_input=False)


def replay(ctx, case):
    import logging
    logging.disable(logging.CRITICAL)
    from harness.impl import supfakes as sf
    c = case["case"] if "case" in case else case
    slack, period = gen_consts()
    out = {"case": c}
    if c.get("kind") == "wd":
        ev, o, info = wd_direct(c["rt"], c["period"], c["jitter"], c["lats"])
        out["schedule"], out["impl"], out["info"] = ev, o, info
        out["monitor"] = wd_monitor(c["rt"], c["lats"], info)
        if ctx.model is not None:
            out["model"] = ctx.model.batch(["wd %d 0 %s" % (c["rt"], " ".join(ev))])[0].split(" ")
    else:
        seq = list(c["ev"])
        fk = (len(seq) + sum(map(len, seq))) % 2
        first, obs, detail = sf.run_case(c["fl"], c["rt"], seq, fk)
        out["impl"] = canon_impl(obs)
        out["monitor"] = monitor(c["fl"], c["rt"], slack, detail)
        out["detail"] = [(t, {k: v for k, v in i.items() if k != "data"}) for t, i in detail]
        if ctx.model is not None and seq:
            out["model"] = canon_model(ctx.model.batch([model_line(c["fl"], c["rt"], slack, seq)])[0])
    findings = {f["key"] for f in core.load_findings() if f["property"] == ID and f["status"] == "known"}
    out["violates"] = any(k not in findings for k, _ in out["monitor"])
    out["known"] = [k for k, _ in out["monitor"] if k in findings]
    return out
