"""C10 - OTA sessions are gated, restartable and terminate."""
from harness import gwcheck
from harness.gen import scenarios
from harness.gen.histories import VERSIONS

ID = "C10"
PROP_FILE = "C10.v"
TRANSLATORS = ["unicode_tables", "tables"]
RULE = ("70% directed OTA scenarios (harness/gen/scenarios.ota_history: 1-3 nodes, some id-assigned, some sleeping; update calls "
        "with single ids, lists, unknown ids, no / empty firmware, type or version 70000 / -1 / 'x' / '7'; images of 1-257 bytes "
        "around the 16 and 128 byte boundaries; config and block requests well-formed, upper-case, and malformed in every class "
        "(odd length, non-hex, too long, too short, empty, non-ASCII, inner blank), for the scheduled and other type/version, "
        "index 0 / last / beyond last / 65535; whole sessions block by block; sets, node and child presentations; repeated "
        "update calls) + 30% generic grammar; all five protocol versions x threaded/asyncio x plain/MQTT; replayed on the real "
        "gateway under the monitor c10 (reference session automaton) and on the extracted model; non-trivial = distinct "
        "history in which a config request and a block request were both answered")
ASSUMPTIONS = ["a well-formed block request for a type/version without stored firmware still moves the session to Fetching "
               "(no reply): accepted reading, DESIGN.md section 6 C10",
               "update calls coerce type and version with int(): '7' means 7; an image that loads as empty makes the call a no-op",
               "float(), awesomeversion are oracles fed with the library's real verdicts"]
THEOREMS_DOC = {}
SCOPE = ["S", "fw", "extra"]


def run(ctx, res):
    n = ctx.budget(300, 6000)
    nd = n * 7 // 10
    # six short directed histories first: gwcheck re-evaluates the first six sessions inside Coq (vm_compute), which is slow
    cases = scenarios.directed_cases(ctx, "c10x", 6, scenarios.ota_history, VERSIONS, length=(10, 16))
    cases += scenarios.corpus_cases(ID)
    cases += scenarios.directed_cases(ctx, "c10s", nd - len(cases), scenarios.ota_history, VERSIONS)
    cases += gwcheck.gen_cases(ctx, "c10g", n - nd, length=(20, 60))
    recs = gwcheck.run_cases(ctx, res, cases, ["c10"], SCOPE, "c10")
    keys = {"session:all-blocks-fetched": "full_session_all_blocks", "update:restart-fetching": "restart_while_fetching",
            "update:restart-offered": "restart_while_offered", "config-request:withheld-while-fetching": "config_request_refused_after_fetch",
            "config-request:answered-again": "config_response_repeated", "block-request:before-config": "block_request_before_config",
            "config-request:malformed": "malformed_config_request", "block-request:malformed": "malformed_block_request",
            "set:reboot-requested": "reboot_request", "set:reboot-requested/withheld": "reboot_request_withheld",
            "presentation-ends-reboot-window": "reboot_window_closed", "stream-response-to-sleeping-node": "stream_response_to_sleeper",
            "update:bad-type-or-version": "update_bad_type_or_version", "update:no-firmware": "update_without_firmware",
            "update:firmware-from-earlier-call": "update_reusing_stored_firmware"}
    reach = {v: 0 for v in keys.values()}
    for r in recs:
        st = r["stats"]
        for k, v in keys.items():
            reach[v] += bool(st.get("c10:" + k))
        if (st.get("c10:config-request:answered") or st.get("c10:config-request:answered-again")) and st.get("c10:block-request:answered"):
            res.nontriv(r["case"]["id"])
    res.extra["histories_reaching"] = reach
    for r in recs[:2] + recs[-1:]:
        res.sample({"id": r["case"]["id"], "cfg": r["case"]["cfg"], "ops": r["case"]["ops"][:10], "n_ops": len(r["case"]["ops"])})


def replay(ctx, case):
    return gwcheck.replay_case(ctx, case)
