"""C10 - OTA sessions are gated, restartable and terminate."""
from harness import gwcheck
from harness.gen import scenarios
from harness.gen.histories import VERSIONS

ID = "C10"
PROP_FILE = "C10.v"
SOFT_PINS = "core"
TRANSLATORS = ["unicode_tables", "tables"]
RULE = ("70% directed OTA scenarios (harness/gen/scenarios.ota_history: 1-3 nodes, some id-assigned, some sleeping; update calls "
        "with single ids, lists, unknown ids, no / empty firmware, type or version 70000 / -1 / 'x' / '7'; images of 1-257 bytes "
        "around the 16 and 128 byte boundaries; config and block requests well-formed, upper-case, and malformed in every class "
        "(odd length, non-hex, too long, too short, empty, non-ASCII, inner blank), for the scheduled and other type/version, "
        "index 0 / last / beyond last / 65535; whole sessions block by block; sets, node and child presentations; repeated "
        "update calls) + 30% generic grammar; all five protocol versions x threaded/asyncio x plain/MQTT; replayed on the real "
        "gateway under the monitor c10 (reference session automaton) and on the extracted model; non-trivial = distinct "
        "history in which a config request and a block request were both answered")
RULE += ' MONITORS ONLY: the update started from INSIDE the event callback of a presentation / a value report (4 versions x 2): reboot request, end of the reboot window, configuration and first block.'
ASSUMPTIONS = ["a well-formed block request for a type/version without stored firmware still moves the session to Fetching "
               "(no reply): accepted reading, DESIGN.md section 6 C10",
               "update calls coerce type and version with int(): '7' means 7; an image that loads as empty makes the call a no-op",
               "float(), awesomeversion are oracles fed with the library's real verdicts"]
THEOREMS_DOC = {
    'C10_spec_progress': 'reference automaton: Requested -CfgReq-> Offered (CfgResp repeated) -BlkReq-> Fetching, then CfgReq yields nothing',
    'C10_spec_no_reflash': 'reference automaton: Fetching absorbs every non-update input and never emits CfgResp',
    'C10_spec_restart_and_malformed': 'reference automaton: Update k from any state -> Requested k; Malformed is a no-op',
    'C10_abs_well_defined': 'under the invariant abs o n = X k iff store X holds n with key k (independent of inspection order)',
    'C10_reachable_invariant': 'every reachable state (any history, 5 configs, both flavours): unique keys, at most one store holds a node, node ids consistent, image stored for every scheduled key',
    'C10_step_invariant': 'one step keeps the invariant; each session moves by a non-update automaton input or, in an update call with a key naming the known node, to Requested',
    'C10_session_refines_request': 'accepted stream request from a known node = the automaton step for that node: same next state, reply = offer_reply of the automaton output, everything else untouched, log/dirty as by alert',
    'C10_respond_fw_config_refines': 'respond_fw_config simulates CfgReq / Malformed (leaf level)',
    'C10_respond_fw_refines': 'respond_fw simulates BlkReq (t,v) i / Malformed (leaf level)',
    'C10_stream_other_subtype_noop': 'stream sub-types without handler from a known node: no reply, state unchanged',
    'C10_other_lines_frame': 'any accepted non-stream line that is not a node presentation leaves g_ota, node ids and all reboot flags untouched',
    'C10_leaf_handlers_frame': 'every registry leaf handler other than the two firmware handlers leaves g_ota and the reboot flags untouched',
    'C10_set_child_value_frame': 'set_child_value leaves g_ota and the reboot flags untouched',
    'C10_update_call': 'update_fw never raises; no key -> nothing changes; key (t,v) -> image stored, exactly the known nodes named go to Requested (t,v) with reboot set',
    'C10_update_key_sound': 'an update call has a key iff int(type), int(version) in 0..65535 and an image is given or already stored',
    'C10_session_refines_step': "for every op and node the session after the step is the automaton's (schedules / request_of), under the C01 invariant", 'C10_gated_history': 'a session that is not Idle was scheduled with its key by an earlier update call naming the node while known, with a key',
    'C10_gated_reply': 'any reply that is a stream message is a config/block response to a known node whose session is not Idle',
    'C10_stream_reply_gated': 'config response only in Requested/Offered, block response only in Offered/Fetching, to the requesting node',
    'C10_non_stream_line_not_answered_with_stream': 'a non-stream line is never answered with a stream message',
    'C10_no_reflash_loop': 'while a node is Fetching no line whatsoever is answered with a config response for it',
    'C10_fetching_stable': 'Fetching k persists over any history without an update call naming the node',
    'C10_config_repeated_until_fetch': 'in Requested/Offered every well-formed config request is answered with fw_config_payload of the scheduled key; state Offered',
    'C10_config_answered_reachable': 'in reachable states (op_ok) the image is stored and the explicit config response is sent',
    'C10_block_request_served': 'well-formed block request in Offered/Fetching: Fetching afterwards; block of the image stored for the REQUESTED key, or silence if none',
    'C10_block_payload_never_fails': 'packing a block response for unpacked words cannot raise',
    'C10_restart': 'update call with key k naming a known node: from any state -> Requested k, reboot set',
    'C10_update_without_effect': 'update call without key or naming only unknown ids changes no session and no flag',
    'C10_stream_from_unknown_node_ignored': 'stream message from an unknown node: no reply, only the >=2.0 presentation request',
    'C10_malformed_ignored': 'malformed config/block request from a known node: logic = Ok (alert g m, None)',
    'C10_alert_changes_log_and_dirty_only': 'alert leaves sensors, g_ota, configuration, jobs, metric untouched',
    'C10_malformed_iff': 'fw_hex_to_int raises iff the payload is not exactly 4*words hex digits',
    'C10_malformed_exceptions': 'only ValueError, binascii.Error, struct.error can arise (all caught)',
    'C10_reboot_window': 'reboot flag after any step: true if scheduled by the step, false if the step processes a node presentation, else unchanged',
    'C10_set_known_child_reboot_reply': "handle_set on a known child replies (n,255,3,0,13,'') iff the flag is set", 'C10_table_facts': 'the table facts (I_REBOOT=13, stream handlers, ...) hold for the five configurations',
    'C10_set_unknown_child_no_reboot': 'set for an unknown child: no reply',
    'C10_set_line_reboot': 'through logic: reboot request sent at once (awake) or queued (smart-sleep node)',
    'C10_set_line_no_reboot_after_presentation': 'flag clear: a set from a known child gets no reply',
    'C10_node_presentation_clears_reboot': "node presentation never raises, clears that node's flag only, g_ota untouched", 'C10_session_terminates': 'Requested -> (config request) Offered -> (block request) Fetching; then no config response for the node until an update call names it'}
SCOPE = ["S:ota", "fw", "extra"]


def reentrant_case(ver, on):
    """An application that starts the update from INSIDE the event callback (threaded flavour): when node 1 presents
    itself (`on` = "presentation") or reports a value ("set"), the callback calls gateway.update_fw([1], 1, 1, image).
    Then: the node's next set message is answered with a reboot request, the presentation after the reboot ends the
    reboot window, and the session serves the configuration and the first block.  Returns the list of what failed."""
    import logging
    import mysensors
    from mysensors.ota import load_fw  # noqa: F401
    logging.disable(logging.CRITICAL)
    sent, armed = [], []

    class Tr:
        can_log = False
        protocol = None

        def send(self, message):
            if message:
                sent.append(message)

        def connect(self):
            pass

        def disconnect(self):
            pass

    image = bytes((i * 5 + 3) & 255 for i in range(48))

    def cb(msg):
        want = (int(msg.type) == 0 and msg.child_id == 255) if on == "presentation" else int(msg.type) == 1
        if want and msg.node_id == 1 and not armed:
            armed.append(1)
            gw.tasks.ota.make_update([1], 1, 1, image)       # what Tasks.update_fw does once the file is read

    gw = mysensors.BaseSyncGateway(Tr(), protocol_version=ver, event_callback=cb)

    def line(text):
        n0 = len(sent)
        gw.tasks.add_job(gw.logic, text)
        while gw.tasks.queue:
            gw.tasks.transport.send(gw.tasks.run_job())
        return sent[n0:]

    bad = []
    line("1;255;0;0;17;" + ver)
    line("1;1;0;0;3;light")
    first = line("1;1;1;0;2;0")
    if not armed:
        return ["harness: the callback never started the update"]
    if on == "set":
        # armed while this very line was handled: the reply may already be the reboot request; the NEXT one must be
        first = line("1;1;1;0;2;1")
    if first != ["1;255;3;0;13;\n"]:
        bad.append(f"after the update was started from the callback a set message of node 1 was answered with {first}, "
                   "not with a reboot request")
    again = line("1;255;0;0;17;" + ver)          # the node reboots and presents itself
    after = line("1;1;1;0;2;0")
    if "1;255;3;0;13;\n" in again + after:
        bad.append(f"reboot requested again after the node presented itself: {again + after}")
    cfg = line("1;255;4;0;0;010001000300cdab0201")
    if len(cfg) != 1 or not cfg[0].startswith("1;255;4;0;1;01000100"):
        bad.append(f"configuration request answered with {cfg}")
    blk = line("1;255;4;0;2;010001000000")
    if len(blk) != 1 or not blk[0].lower().startswith("1;255;4;0;3;010001000000" + image[:16].hex()):
        bad.append(f"request for block 0 answered with {blk}")
    return bad


def run_reentrant(ctx, res):
    for ver in ("1.4", "1.5", "2.0", "2.2"):
        for on in ("presentation", "set"):
            res.evaluations += 1
            res.count("update-from-callback:" + on)
            case = {"kind": "update-from-callback", "ver": ver, "on": on}
            try:
                bad = reentrant_case(ver, on)
            except Exception as exc:
                bad = [f"{type(exc).__name__}: {exc}"]
            if bad:
                res.violate("update-from-callback/" + on, f"version {ver}, update started from the event callback of a "
                            f"{on}: {bad[0]}", case)
            else:
                res.nontriv(("update-from-callback", ver, on))


def run(ctx, res):
    run_reentrant(ctx, res)
    n = ctx.budget(300, 6000)
    nd = n * 7 // 10
    # six short directed histories first: gwcheck re-evaluates the first six sessions inside Coq (vm_compute), which is slow
    cases = scenarios.directed_cases(ctx, "c10x", 6, scenarios.ota_history, VERSIONS, length=(10, 16))
    cases += scenarios.corpus_cases(ID)
    cases += scenarios.directed_cases(ctx, "c10s", nd - len(cases), scenarios.ota_history, VERSIONS)
    cases += gwcheck.gen_cases(ctx, "c10g", n - nd, length=(20, 60))
    recs = gwcheck.run_cases(ctx, res, cases, ["c10"], SCOPE, "c10")
    keys = {"session:all-blocks-fetched": "full_session_all_blocks", "update:restart-fetching": "restart_while_fetching",
            "update:restart-offered": "restart_while_offered", "config-request:withheld-while-fetching": "config_request_refused_after_fetch",
            "config-request:answered-again": "config_response_repeated", "block-request:before-config": "block_request_before_config",
            "config-request:malformed": "malformed_config_request", "block-request:malformed": "malformed_block_request",
            "set:reboot-requested": "reboot_request", "set:reboot-requested/withheld": "reboot_request_withheld",
            "presentation-ends-reboot-window": "reboot_window_closed", "stream-response-to-sleeping-node": "stream_response_to_sleeper",
            "update:bad-type-or-version": "update_bad_type_or_version", "update:no-firmware": "update_without_firmware",
            "update:firmware-from-earlier-call": "update_reusing_stored_firmware"}
    reach = {v: 0 for v in keys.values()}
    for r in recs:
        st = r["stats"]
        for k, v in keys.items():
            reach[v] += bool(st.get("c10:" + k))
        if (st.get("c10:config-request:answered") or st.get("c10:config-request:answered-again")) and st.get("c10:block-request:answered"):
            res.nontriv(r["case"]["id"])
    res.extra["histories_reaching"] = reach
    for r in recs[:2] + recs[-1:]:
        res.sample({"id": r["case"]["id"], "cfg": r["case"]["cfg"], "ops": r["case"]["ops"][:10], "n_ops": len(r["case"]["ops"])})


def replay(ctx, case):
    c0 = case.get("case", case)
    if c0.get("kind") == "update-from-callback":
        bad = reentrant_case(c0["ver"], c0["on"])
        return {"case": c0, "failed": bad, "violates": bool(bad)}
    return gwcheck.replay_case(ctx, case)
