"""C16 - sending races safely with connection loss and shutdown.

Tie and monitors (the theorems are in coq/theories/Props/C16.v):

(a) Gen/SendSteps.v is regenerated from /repo's transport.py / task.py (translator sendsteps).
(b) deterministic schedule exploration of the REAL Transport.send (through SyncTransport.send)
    against the real connection_lost / disconnect / connection_made in two threads stepped at
    source-line granularity (harness/impl/sched.py), all schedules up to a preemption bound;
    per schedule: monitor of the property on the real code, and the observation is compared
    with the extracted model replaying the same line-level schedule.
(c) the real SyncTasks queue: sequential op sequences vs the queue model, line-level scheduled
    producers/pump, and a multi-thread stress with exactly-once / order monitors.
"""
import ast
from unittest import mock
import logging
import os
import sys
import threading
import time
from collections import deque
from concurrent.futures import ProcessPoolExecutor, ThreadPoolExecutor
import multiprocessing

from harness import core
from harness.impl import sched

ID = "C16"
PROP_FILE = "C16.v"
RUNNER = "Race"
TRANSLATORS = ["sendsteps"]
RULE = ("race cases = (scenario, line-level schedule): scenario in {connection_lost(None), connection_lost(exc), "
        "disconnect(), connection_lost(exc);connection_made(new)} x {first connection open, already dead} x "
        "{user callbacks set, unset} x {command, None}; every schedule of the two real threads up to the preemption "
        "bound (quick 2, thorough 4; short scenarios exhaustively in thorough). non-trivial = a schedule in which the "
        "other thread runs while the sender is between its first and last line (distinct by scenario+choices). "
        "queue cases = random add_job/run_job sequences, line-level schedules of 2 producers + pump, 8x200 stress.")
RULE += ' Plus: Transport.send over a REAL socket (socketpair) that is already dead - closed by the reader thread / peer gone / shut down: nothing escapes, the loss is reported.'
ASSUMPTIONS = [
    "attribute load/store, deque.append/popleft/truth test are atomic (CPython); a thread switch can occur between any two of the modelled steps, not inside one",
    "connection.write is atomic with respect to close: it either finds the connection open and writes the whole argument, or raises OSError having written nothing (pyserial ReaderThread.write/close share a lock; PortNotOpenError and socket EBADF are OSError - measured); serial.close() from connection_lost(exc) does not take that lock: a write interrupted by it at OS level is not modelled",
    "one protocol object per transport (SyncTransport.__init__; the protocol factory returns it); conn_lost_callback only requests a reconnect (counted), the reconnection itself is the separate event connection_made",
    "user callbacks on_conn_lost/on_conn_made do not raise and do not touch the transport; can_log is False",
    "one poll thread (SyncTasks.start); it sends the reply of a popped job before it pops the next",
    "the real-code exploration interleaves at source-line granularity up to the preemption bound; the theorem covers every interleaving of the finer attribute-level steps",
]
TRUSTED = [
    "harness/translate/sendsteps.py renders the AST of Transport.send/disconnect, BaseMySensorsProtocol.connection_lost/_connection_lost/connection_made into register-machine steps (fail closed)",
    "harness/impl/sched.py: sys.settrace line stepper and preemption-bounded enumeration; fake connection objects (write raises serial.PortNotOpenError when closed)",
    "pyserial 3.5 Packetizer.connection_made is `self.transport = transport` (checked on its AST at translation time)",
]
THEOREMS_DOC = {
    "C16_explore_complete": "for all programs, schedules, start configurations: the configuration a schedule reaches is in explore (verified enumerator)",
    "C16_send_race_safe": "for all 32 scenarios and EVERY schedule of the generated step lists: sender raises nothing, <=1 write went through, it was on an open connection with the complete command, nothing attempted without a command, sender returns; event code raises nothing",
    "C16_send_race_unfixed_refuted": "for the pre-fix send (hand transcription) a schedule raises AttributeError in the sender",
    "C16_queue_fifo_exactly_once": "any merge of k producers' appends with one pump's check/popleft: no popleft on empty, sent++queue = append linearisation, per-producer order, each job once",
    "C16_queue_drained": "producers done and deque empty: sent = exactly the producers' jobs, per-producer order",
    "C16_queue_two_pumps_refuted": "with two poll threads the check-then-pop raises on an empty deque (outside the property)",
}

EVENTS = ["lost_noerr", "lost_err", "disconnect", "lost_reconn"]
MSG = "1;2;1;0;2;on\n"
QUICK_BOUND, THOROUGH_BOUND = 2, 4


# ---------------------------------------------------------------- fakes

class FakeSerial:
    def __init__(self, conn):
        self._conn = conn

    def close(self):
        self._conn.open = False

    def __repr__(self):
        return "<FakeSerial %d>" % self._conn.cid


class FakeConn:
    """Stands for serial.threaded.ReaderThread / TCPTransport: write() and close() are atomic
    with respect to each other (one lock in the real classes); write on a closed connection raises
    what pyserial raises (PortNotOpenError, an OSError) and writes nothing."""

    def __init__(self, cid, log, is_open=True):
        self.cid = cid
        self.log = log
        self.open = is_open
        self.serial = FakeSerial(self)

    def write(self, data):
        import serial

        is_open = self.open
        self.log.append((self.cid, data, is_open))
        if not is_open:
            raise serial.PortNotOpenError()
        return len(data)

    def close(self):
        self.open = False

    def __repr__(self):
        return "<FakeConn %d>" % self.cid


class FakeGateway:
    pass


def exc_name(exc):
    if exc is None:
        return "-"
    for cls, name in ((AttributeError, "AttributeError"), (OSError, "OSError"), (TypeError, "TypeError"),
                      (ValueError, "ValueError"), (KeyError, "KeyError"), (IndexError, "IndexError"),
                      (RuntimeError, "RuntimeError")):
        if isinstance(exc, cls):
            return name
    return "OtherError"


def transport_file():
    import mysensors.transport as tr

    return tr.__file__


def make_race(sc):
    """Fresh real objects for scenario sc; returns (fns, observe)."""
    import serial
    import mysensors.transport as tr

    def make():
        log, reconnects, user = [], [], []
        gw = FakeGateway()
        if sc["usercb"]:
            gw.on_conn_lost = lambda g, e: user.append(1)
            gw.on_conn_made = lambda g: None
        else:
            gw.on_conn_lost = None
            gw.on_conn_made = None
        transport = tr.SyncTransport(gw, lambda t: reconnects.append(1))
        proto = transport.protocol
        c0 = FakeConn(0, log, sc["open0"])
        c1 = FakeConn(1, log, True)
        proto.transport = c0
        msg = MSG if sc["msg"] else None
        out = {}
        before = set(threading.enumerate())

        def sender():
            try:
                transport.send(msg)
            except BaseException as exc:  # the monitor is about exactly this
                out["send"] = exc

        def event():
            try:
                ev = sc["event"]
                if ev == "lost_noerr":
                    proto.connection_lost(None)
                elif ev == "lost_err":
                    proto.connection_lost(serial.SerialException("device reports readiness to read but returned no data"))
                elif ev == "disconnect":
                    transport.disconnect()
                elif ev == "lost_reconn":
                    proto.connection_lost(serial.SerialException("device disconnected"))
                    proto.connection_made(c1)
                else:
                    raise sched.HarnessError("unknown event " + ev)
            except sched.HarnessError:
                raise
            except BaseException as exc:
                out["event"] = exc

        def observe():
            # SyncTransport.connect starts a thread that runs our recording connect function
            for th in threading.enumerate():
                if th not in before and th is not threading.current_thread():
                    th.join(sched.WAIT)
                    if th.is_alive():
                        raise sched.HarnessError("connect thread did not finish")
            entries = []
            for cid, data, is_open in log:
                kind = 1 if (msg is not None and data == msg.encode()) else (2 if data == msg and msg is not None else 0)
                entries.append((cid, kind, bool(is_open)))
            cur = proto.transport
            return {
                "send_exc": exc_name(out.get("send")), "event_exc": exc_name(out.get("event")),
                "send_exc_repr": repr(out.get("send")) if out.get("send") is not None else None,
                "log": entries,
                "protocol": transport.protocol is not None,
                "transport": 0 if cur is None else (1 if cur is c0 else (2 if cur is c1 else 9)),
                "open0": c0.open, "open1": c1.open,
                "reconnects": len(reconnects), "user": len(user),
            }

        return [sender, event], observe

    return make


def obs_line(o):
    """The model's observation line for a real observation (threads always finish in a run)."""
    b = lambda x: "1" if x else "0"
    log = core.enc_cps([100 * c + 10 * k + (1 if op else 0) for c, k, op in o["log"]])
    return " ".join([o["send_exc"], o["event_exc"], log, b(o["protocol"]), str(o["transport"]), b(o["open0"]),
                     b(o["open1"]), str(o["reconnects"]), str(o["user"]), "1", "1"])


def sc_tokens(sc):
    return "%d %d %d %d" % (EVENTS.index(sc["event"]), sc["open0"], sc["usercb"], sc["msg"])


def model_race_line(sc, trace):
    return "race %s %s %s" % (sc_tokens(sc), core.enc_cps([t for t, _ in trace]), core.enc_cps([l for _, l in trace]))


def monitor_race(sc, o):
    """The property on the real code for one schedule. Returns list of (key, what)."""
    bad = []
    ev = sc["event"]
    if o["send_exc"] != "-":
        bad.append((f"send/raises-{o['send_exc']}/{ev}",
                    f"{o['send_exc_repr']} escaped Transport.send while {ev} ran concurrently (it would kill the poll thread)"))
    through = [e for e in o["log"] if e[2]]
    if len(through) > 1:
        bad.append((f"send/written-twice/{ev}", f"the command was written {len(through)} times: {o['log']}"))
    if any(e[1] != 1 for e in through):
        bad.append((f"send/incomplete-write/{ev}", f"a write on an open connection did not carry the complete command: {o['log']}"))
    if not sc["msg"] and o["log"]:
        bad.append((f"send/attempt-without-command/{ev}", f"send(None) attempted a write: {o['log']}"))
    return bad


def classify(sc, o):
    if o["send_exc"] != "-":
        return "raised:" + o["send_exc"]
    if not o["log"]:
        return "dropped" if sc["msg"] else "nothing-to-send"
    if any(e[2] for e in o["log"]):
        return "written-conn%d" % [e for e in o["log"] if e[2]][0][0]
    return "oserror-handled"


def interleaved(choices):
    """The event thread runs strictly inside the sender's span (or the sender inside the event's)."""
    if 0 not in choices or 1 not in choices:
        return False
    first0, last0 = choices.index(0), len(choices) - 1 - choices[::-1].index(0)
    first1, last1 = choices.index(1), len(choices) - 1 - choices[::-1].index(1)
    return (first0 < first1 < last0) or (first0 < last1 < last0) or (first1 < first0 < last1)


def all_scenarios():
    out = []
    for ev in EVENTS:
        for open0 in (1, 0):
            for usercb in (1, 0):
                for msg in (1, 0):
                    out.append({"event": ev, "open0": open0, "usercb": usercb, "msg": msg})
    return out


def _factory(kind, param):
    if kind == "race":
        return make_race(param), [transport_file()], None
    import mysensors.task as mt

    return make_queue_sched(param[0], param[1], len(param) > 2 and param[2]), [mt.__file__], queue_touching_lines()


def _split_task(task):
    logging.disable(logging.CRITICAL)
    kind, param, bound = task
    make, files, only = _factory(kind, param)
    try:
        return sched.split_roots(make, files, bound, only_lines=only), None
    except sched.HarnessError as exc:
        return None, f"HarnessError: {exc}"


def _roots_task(task):
    logging.disable(logging.CRITICAL)
    kind, param, bound, roots = task
    make, files, only = _factory(kind, param)
    try:
        return list(sched.explore(make, files, bound, roots=roots, only_lines=only)), None
    except sched.HarnessError as exc:
        return None, f"HarnessError: {exc}"


def par_explore(specs, chunk=6):
    """specs: list of (kind, param, bound). Returns, per spec, the list of (choices, trace, obs) of
    every schedule within the bound (sharded over 16 processes; deterministic order)."""
    mp = multiprocessing.get_context("fork")
    with ProcessPoolExecutor(max_workers=16, mp_context=mp) as ex:
        firsts = list(ex.map(_split_task, specs))
        tasks, owner = [], []
        for i, ((kind, param, bound), (val, err)) in enumerate(zip(specs, firsts)):
            if err:
                raise sched.HarnessError(f"{param}: {err}")
            alts = val[1]
            for j in range(0, len(alts), chunk):
                tasks.append((kind, param, bound, alts[j:j + chunk]))
                owner.append(i)
        parts = list(ex.map(_roots_task, tasks))
    out = [[val[0]] for val, _ in firsts]
    for i, (recs, err) in zip(owner, parts):
        if err:
            raise sched.HarnessError(f"{specs[i][1]}: {err}")
        out[i].extend(recs)
    return out


def run_races(ctx, res):
    bound = QUICK_BOUND if ctx.tier == "quick" else THOROUGH_BOUND
    if ctx.searching:
        bound += 1
    specs = [("race", sc, bound) for sc in all_scenarios()]
    if ctx.tier == "thorough" and not ctx.searching:
        # short event programs: every line-level schedule (no bound)
        specs += [("race", sc, 99) for sc in all_scenarios() if sc["event"] == "disconnect"]
    results = par_explore(specs)
    cases = []
    per_bound = {}
    # hand-seeded corpus first (the D15 witnesses), replayed on the current code
    import json as _json
    for path in sorted((core.VERIF / "corpus" / ID).glob("*.json")):
        c = _json.loads(path.read_text())
        if c.get("kind") == "race":
            choices, trace, o = sched.run_one(make_race(c["scenario"]), [transport_file()], c["choices"])
            cases.append((c["scenario"], choices, trace, o))
            res.count("corpus")
    for (_, sc, b), recs in zip(specs, results):
        per_bound[b] = per_bound.get(b, 0) + len(recs)
        for choices, trace, o in recs:
            cases.append((sc, choices, trace, o))
    res.extra.setdefault("schedules_explored", {}).update({f"preemption_bound_{b}" if b < 99 else "unbounded(disconnect)": n
                                                           for b, n in per_bound.items()})
    # model side
    model_out = None
    if ctx.model is not None:
        lines = [model_race_line(sc, trace) for sc, _, trace, _ in cases]
        k = 16
        chunks = [lines[i::k] for i in range(k)]
        with ThreadPoolExecutor(k) as ex:
            outs = list(ex.map(lambda c: ctx.model.batch(c) if c else [], chunks))
        model_out = [None] * len(lines)
        for i in range(k):
            model_out[i::k] = outs[i]
    best = {}
    xin, xout = [], []
    for idx, (sc, choices, trace, o) in enumerate(cases):
        res.evaluations += 1
        res.count(f"{sc['event']}:{classify(sc, o)}")
        if interleaved(choices):
            res.nontriv(("race", sc_tokens(sc), tuple(choices)))
        case = {"kind": "race", "scenario": sc, "choices": choices, "trace": trace,
                "observed": {k: v for k, v in o.items()}}
        for key, what in monitor_race(sc, o):
            if key not in best or len(choices) < len(best[key][1]["choices"]):
                best[key] = (what, case)
        if model_out is not None:
            want = obs_line(o)
            if model_out[idx] != want:
                res.violate(f"corr:race/{sc['event']}",
                            f"model `{model_out[idx]}` != implementation `{want}` for schedule {trace}",
                            dict(case, model=model_out[idx]), kind="correspondence", found_input=False)
            elif len(xin) < ctx.budget(40, 200) and idx % 37 == 0:
                xin.append([model_race_line(sc, trace)])
                xout.append([model_out[idx]])
        if idx % 997 == 0:
            res.sample({"scenario": sc, "schedule": trace, "observed": obs_line(o)})
    for key, (what, case) in sorted(best.items()):
        res.violate(key, what, case, kind="monitor", found_input=True)
    return xin, xout


# ---------------------------------------------------------------- the queue

class RecTransport:
    """Recording transport for SyncTasks."""

    def __init__(self):
        self.sent = []
        self.none_sends = 0

    def connect(self):
        pass

    def disconnect(self):
        pass

    def send(self, message):
        if message is None:
            self.none_sends += 1
        else:
            self.sent.append(message)


def make_tasks():
    from mysensors.task import SyncTasks

    transport = RecTransport()
    return SyncTasks(None, False, None, {}, transport), transport


def queue_touching_lines():
    """Every line of task.py that mentions `.queue`: the only yield points of the queue exploration
    (all other lines of add_job/run_job work on thread-local data)."""
    import mysensors.task as task

    tree = ast.parse(open(task.__file__).read())
    return sorted({n.lineno for n in ast.walk(tree) if isinstance(n, ast.Attribute) and n.attr == "queue"})


def queue_lines():
    """Source lines of the deque accesses in task.py (for mapping a trace to model events)."""
    import mysensors.task as task

    tree = ast.parse(open(task.__file__).read())
    found = {}
    for node in ast.walk(tree):
        if isinstance(node, ast.Call) and isinstance(node.func, ast.Attribute) and ast.unparse(node.func.value) == "self.queue":
            found.setdefault(node.func.attr, []).append(node.lineno)
        if isinstance(node, ast.If) and ast.unparse(node.test) == "not self.queue":
            found.setdefault("truth", []).append(node.lineno)
    if sorted(found) != ["append", "popleft", "truth"] or any(len(v) != 1 for v in found.values()):
        return None
    return {k: v[0] for k, v in found.items()}


def run_queue_sequential(ctx, res):
    """Random add_job/run_job sequences on the real SyncTasks vs the queue model."""
    rng = ctx.rng("c16-queue")
    n = ctx.budget(300, 3000)
    cases = []
    for i in range(n):
        k = rng.choice([1, 2, 2, 3, 4])
        lists = [[100 * p + j for j in range(rng.randrange(0, 5))] for p in range(k)]
        total = sum(map(len, lists))
        ops = []
        for _ in range(rng.randrange(0, 3 * total + 4)):
            ops.append(rng.randrange(k) if rng.random() < 0.5 else "R")
        if rng.random() < 0.5:  # drain
            ops += [p for p in range(k) for _ in lists[p]] + ["R"] * (total + 1)
        cases.append({"kind": "queue-seq", "lists": lists, "ops": ops})
    lines = []
    for c in cases:
        evs = []
        for op in c["ops"]:
            evs += [1, 1] if op == "R" else [2 * op]
        lines.append("queue 1 %s %s" % (core.enc_cps(evs), " ".join(core.enc_cps(l) for l in c["lists"])))
    outs = ctx.model.batch(lines) if ctx.model is not None else None
    xin, xout = [], []
    for i, c in enumerate(cases):
        o = impl_queue_seq(c)
        res.evaluations += 1
        res.count("queue-seq:" + ("drained" if o["qlen"] == 0 and o["all_appended"] else "partial"))
        if len(o["sent"]) >= 2:
            res.nontriv(("queue-seq", core.case_hash(c)))
        bad = monitor_queue(c["lists"], o["sent"], o["appended"], o["exc"], drained=o["qlen"] == 0 and o["all_appended"])
        for key, what in bad:
            res.violate(key, what, c, kind="monitor", found_input=True)
        if outs is not None:
            want = "%s %s %s %d" % ("1" if o["exc"] == "IndexError" else "0", core.enc_cps(o["sent"]),
                                    core.enc_cps([j // 100 for j in o["sent"]]), o["qlen"])
            if outs[i] != want and not bad:
                res.violate("corr:queue-seq", f"model `{outs[i]}` != implementation `{want}`", dict(c, model=outs[i]),
                            kind="correspondence", found_input=False)
            elif i % 29 == 0 and len(xin) < ctx.budget(10, 40):
                xin.append([lines[i]])
                xout.append([outs[i]])
    return xin, xout


def impl_queue_seq(c):
    tasks, transport = make_tasks()
    pending = [list(l) for l in c["lists"]]
    appended = []
    exc = None
    try:
        for op in c["ops"]:
            if op == "R":
                reply = tasks.run_job()
                transport.send(reply)
            elif pending[op]:
                j = pending[op].pop(0)
                tasks.add_job(lambda x: x, j)
                appended.append(j)
    except Exception as e:  # noqa
        exc = exc_name(e)
    return {"sent": list(transport.sent), "appended": appended, "qlen": len(tasks.queue), "exc": exc or "-",
            "all_appended": not any(pending)}


def monitor_queue(lists, sent, appended, exc, drained):
    """Property on the real queue: nothing raised; sent is a prefix of the append linearisation
    (FIFO, each job at most once); per-producer order; when drained exactly once."""
    bad = []
    if exc not in (None, "-"):
        bad.append(("queue/raises-" + exc, f"{exc} escaped run_job/add_job"))
    if appended is not None and sent != appended[:len(sent)]:
        bad.append(("queue/not-fifo", f"sent {sent[:12]}... is not a prefix of the append order {appended[:12]}..."))
    if len(set(sent)) != len(sent):
        dup = sorted({j for j in sent if sent.count(j) > 1})[:5]
        bad.append(("queue/sent-twice", f"jobs sent more than once: {dup}"))
    for p, l in enumerate(lists):
        own = set(l)
        mine = [j for j in sent if j in own]
        if mine != l[:len(mine)]:
            bad.append(("queue/producer-order", f"producer {p}: sent {mine[:10]} is not a prefix of its jobs {l[:10]}"))
            break
    if drained and sorted(sent) != sorted(j for l in lists for j in l):
        missing = sorted(set(j for l in lists for j in l) - set(sent))[:5]
        bad.append(("queue/lost-job", f"after draining, {len(sent)} sent of {sum(map(len, lists))}; missing {missing}"))
    return bad


def make_queue_sched(lists, pump_iters, stopper=False):
    def make():
        tasks, transport = make_tasks()
        out = {}

        def producer(p):
            def run():
                try:
                    for j in lists[p]:
                        tasks.add_job(lambda x: x, j)
                except BaseException as exc:
                    out["exc"] = exc
            return run

        def pump():
            # the REAL poll loop SyncTasks._poll_queue, bounded from outside: the stop event is set after
            # `pump_iters` calls of run_job or idle sleeps (time.sleep of task.py is replaced by a counter)
            import mysensors.task as task_mod
            count = [0, 0]
            real_run_job = tasks.run_job

            def run_job(*a, **k):
                count[0] += 1
                if count[0] >= pump_iters:
                    tasks._stop_event.set()
                return real_run_job(*a, **k)

            def fake_sleep(_secs):        # safety bound for loops that do not go through run_job
                count[1] += 1
                if count[1] >= 3 * pump_iters:
                    tasks._stop_event.set()

            tasks.run_job = run_job
            try:
                with mock.patch.object(task_mod.time, "sleep", fake_sleep):
                    tasks._poll_queue()
            except BaseException as exc:
                out["exc"] = exc

        def observe():
            return {"sent": list(transport.sent), "qlen": len(tasks.queue), "exc": exc_name(out.get("exc"))}

        def stop():
            # a user stop() from yet another thread (the poll thread must stay the only consumer of the queue)
            try:
                tasks.stop()
            except BaseException as exc:
                out["exc"] = exc

        return [producer(p) for p in range(len(lists))] + [pump] + ([stop] if stopper else []), observe

    return make


def run_queue_sched(ctx, res):
    """Line-level schedules of producers and the pump on the real task.py."""
    ql = queue_lines()
    bound = 3 if ctx.tier == "quick" else 5
    if ctx.searching:
        bound += 1
    tasks = [([[0, 1], [100, 101]], 5, bound, False), ([[0], [100], [200]], 4, bound, False), ([[0, 1, 2]], 4, 99, False),
             ([[0, 1, 2]], 5, bound, True), ([[0, 1], [100]], 4, bound, True)]      # the last two: + a user stop() thread
    results = par_explore([("queue", (lists, iters, st), b) for lists, iters, b, st in tasks])
    lines, metas = [], []
    total = 0
    for (lists, iters, _, stopper), recs in zip(tasks, results):
        k = len(lists)
        for choices, trace, o in recs:
            total += 1
            res.evaluations += 1
            appended = None
            evs = None
            if ql is not None:
                nxt = [0] * k
                appended, evs = [], []
                for tid, line in trace:
                    if tid < k and line == ql["append"]:
                        appended.append(lists[tid][nxt[tid]])
                        nxt[tid] += 1
                        evs.append(2 * tid)
                    elif tid == k and line in (ql["truth"], ql["popleft"]):
                        evs.append(1)
            case = {"kind": "queue-sched", "lists": lists, "pump_iters": iters, "choices": choices, "trace": trace,
                    "stopper": stopper}
            drained = o["qlen"] == 0
            bad = monitor_queue(lists, o["sent"], appended, o["exc"], drained)
            for key, what in bad:
                res.violate(key, what, case, kind="monitor", found_input=True)
            res.count("queue-sched:" + ("drained" if drained else "partial"))
            if len(set(t for t, _ in trace)) > 1 and len(o["sent"]) >= 2:
                res.nontriv(("queue-sched", core.case_hash([lists, choices])))
            if evs is not None and not bad:
                lines.append("queue 1 %s %s" % (core.enc_cps(evs), " ".join(core.enc_cps(l) for l in lists)))
                metas.append((case, "0 %s %s %d" % (core.enc_cps(o["sent"]), core.enc_cps([j // 100 for j in o["sent"]]), o["qlen"])))
    res.extra.setdefault("schedules_explored", {})["queue_line_level"] = total
    if ctx.model is not None and lines:
        outs = ctx.model.batch(lines)
        for (case, want), got in zip(metas, outs):
            if got != want:
                res.violate("corr:queue-sched", f"model `{got}` != implementation `{want}`", dict(case, model=got),
                            kind="correspondence", found_input=False)


class RecDeque(deque):
    """deque that records the append linearisation (append + record under one lock)."""

    def __init__(self):
        super().__init__()
        self.order = []
        self._rec_lock = threading.Lock()

    def append(self, item):
        with self._rec_lock:
            self.order.append(item[1][0])
            super().append(item)


def stress_once(producers, per, record):
    tasks, transport = make_tasks()
    if record:
        tasks.queue = RecDeque()
    lists = [[100000 * p + i for i in range(per)] for p in range(producers)]
    errors = []

    def produce(p):
        try:
            for j in lists[p]:
                tasks.add_job(lambda x: x, j)
        except BaseException as exc:
            errors.append(exc)

    def pump():
        try:
            tasks._poll_queue()
        except BaseException as exc:
            errors.append(exc)

    old = sys.getswitchinterval()
    sys.setswitchinterval(1e-5)
    try:
        pt = threading.Thread(target=pump, daemon=True)
        pt.start()
        ths = [threading.Thread(target=produce, args=(p,), daemon=True) for p in range(producers)]
        for t in ths:
            t.start()
        for t in ths:
            t.join(60)
            if t.is_alive():
                raise sched.HarnessError("stress: producer did not finish in 60 s")
        deadline = time.time() + 60
        while tasks.queue and pt.is_alive():
            if time.time() > deadline:
                raise sched.HarnessError("stress: queue not drained in 60 s")
            time.sleep(0.005)
        time.sleep(0.05)  # the pump may be between popleft and send
        tasks._stop_event.set()
        pt.join(60)
        if pt.is_alive():
            raise sched.HarnessError("stress: poll thread did not stop in 60 s")
    finally:
        sys.setswitchinterval(old)
    exc = exc_name(errors[0]) if errors else "-"
    appended = list(tasks.queue.order) if record else None
    return lists, list(transport.sent), appended, exc, len(tasks.queue)


def run_queue_stress(ctx, res):
    rounds = ctx.budget(2, 10)
    for r in range(rounds):
        for record in (False, True):
            lists, sent, appended, exc, qlen = stress_once(8, 200, record)
            res.evaluations += 1
            res.count("queue-stress:" + ("recorded" if record else "bare"))
            res.nontriv(("queue-stress", r, record))
            case = {"kind": "queue-stress", "producers": 8, "per": 200, "record": record, "round": r}
            for key, what in monitor_queue(lists, sent, appended, exc, drained=qlen == 0):
                res.violate(key, what, case, kind="monitor", found_input=True)
    res.extra["stress_jobs"] = rounds * 2 * 1600


# ---------------------------------------------------------------- entry points

def tcp_write_case(msg, plan):
    """The real TCPTransport.write on a fake non-blocking socket that accepts only plan[i] bytes of the i-th sendall
    call and then reports a full send buffer (None = accepts everything).  Returns (bytes the peer got, exception)."""
    import mysensors.gateway_tcp as gt

    class Sock:
        def __init__(self):
            self.peer = bytearray()
            self.plan = list(plan)

        def setblocking(self, flag):
            pass

        def fileno(self):
            return -1

        def close(self):
            pass

        def sendall(self, data):
            if self.plan:
                k = self.plan.pop(0)
                if k is not None:
                    self.peer += data[:k]
                    raise BlockingIOError(11, "Resource temporarily unavailable")
            self.peer += data

    sock = Sock()
    tr = gt.TCPTransport(sock, lambda: None, lambda: None)
    exc = None
    with mock.patch.object(gt.select, "select", lambda r, w, x, timeout=None: (list(r), list(w), [])), \
            mock.patch.object(gt.time, "sleep", lambda s: None):
        try:
            tr.write(msg)
        except BaseException as e:       # noqa: BLE001
            exc = e
    return bytes(sock.peer), exc


def run_tcp_write(ctx, res):
    """C16 'a log entry carries the complete message at most once' on the threaded TCP write path: whatever the send
    buffer does, what the peer received of one command is a prefix of that command (never a byte twice), and a
    command that was not written completely is reported (OSError) so that Transport.send closes and reconnects."""
    msg = b"2;1;1;0;2;25\n"
    plans = [[None]] + [[k] for k in range(len(msg) + 1)] + [[k, j] for k in (0, 3, 10) for j in (0, 2, None)] \
        + [[5, 5, 5, 5, 5]]
    for plan in plans:
        res.evaluations += 1
        res.count("tcp-write:" + ("complete" if plan == [None] else "send-buffer-full"))
        peer, exc = tcp_write_case(msg, plan)
        case = {"kind": "tcp-write", "msg": msg.decode(), "plan": plan}
        if msg[:len(peer)] != peer:
            res.violate("tcp-write/duplicated-bytes", f"send buffer plan {plan}: the peer received {peer!r} of the command {msg!r}", case)
        elif peer != msg and not isinstance(exc, OSError):
            res.violate("tcp-write/partial-write-not-reported",
                        f"send buffer plan {plan}: only {peer!r} of {msg!r} was written and write() reported {exc!r}", case)
        elif exc is not None and not isinstance(exc, OSError):
            res.violate(f"tcp-write/raises-{exc_name(exc)}", f"send buffer plan {plan}: write() raised {exc!r}", case)
        else:
            res.nontriv(("tcp-write", tuple(plan)))


def tcp_dead_socket_case(how):
    """Real Transport.send -> real TCPTransport.write/close over a REAL socket (socketpair) that is already dead when
    the pump writes: 'closed' = the reader thread closed it after an error (connection_lost with an exception closes
    the socket itself, protocol.transport is cleared only afterwards), 'peer-gone' = the other end was closed,
    'shutdown' = both directions shut down.  The reader thread is an idle stand-in (the write path is what is run).
    Returns (exception escaping send or None, number of conn_lost_callback calls)."""
    import socket
    import mysensors.gateway_tcp as gt
    from mysensors.transport import SyncTransport

    class Reader(gt.TCPTransport):
        def run(self):
            while self.alive:
                time.sleep(0.005)

    a, b = socket.socketpair()
    tr = Reader(a, lambda: None, lambda: None)
    tr.start()
    lost = []

    from mysensors.transport import BaseMySensorsProtocol
    proto = BaseMySensorsProtocol(None, lambda: lost.append(1))    # the real line protocol object
    proto.transport = tr
    st = SyncTransport(None, lambda *x: None)
    st.protocol = proto
    st.can_log = False
    exc = None
    try:
        if how == "closed":
            a.close()
        elif how == "peer-gone":
            b.close()
        else:
            a.shutdown(socket.SHUT_RDWR)
        for _ in range(3):                    # a burst: the first write after the loss and the ones behind it
            try:
                st.send("2;1;1;0;2;25\n")
            except BaseException as e:       # noqa: BLE001
                exc = exc or e
    finally:
        tr.alive = False
        tr.join(2)
        for s_ in (a, b):
            try:
                s_.close()
            except OSError:
                pass
    return exc, len(lost)


def run_tcp_dead_socket(ctx, res):
    """Nothing escapes Transport.send when the socket under it is already dead (the pump thread survives), and the loss
    is reported to the reconnect machinery."""
    for how in ("closed", "peer-gone", "shutdown"):
        res.evaluations += 1
        res.count("tcp-dead-socket:" + how)
        exc, lost = tcp_dead_socket_case(how)
        case = {"kind": "tcp-dead-socket", "how": how}
        if exc is not None:
            res.violate(f"tcp-dead-socket/send-raises-{exc_name(exc)}",
                        f"socket {how}: Transport.send let {exc!r} escape into the message pump", case)
        elif lost == 0:
            res.violate("tcp-dead-socket/loss-not-reported", f"socket {how}: three commands were handed to a dead socket "
                        "and the connection-lost callback was never called", case)
        else:
            res.nontriv(("tcp-dead-socket", how))


def run(ctx, res):
    t0 = time.time()
    run_tcp_write(ctx, res)
    run_tcp_dead_socket(ctx, res)
    if not (core.GEN / "SendSteps.v").exists():
        # the translator failed closed: an existing runner binary is stale -> monitors only
        ctx.model = None
    xin, xout = run_races(ctx, res)
    t1 = time.time()
    xin2, xout2 = run_queue_sequential(ctx, res)
    run_queue_sched(ctx, res)
    run_queue_stress(ctx, res)
    t2 = time.time()
    res.extra["wall_race_s"] = round(t1 - t0, 2)
    res.extra["wall_queue_s"] = round(t2 - t1, 2)
    if ctx.model is not None:
        # the verified enumerator, run by the extracted model: every merge of the atomic steps
        scs = all_scenarios()
        outs = ctx.model.batch(["explore " + sc_tokens(sc) for sc in scs])
        sizes = {}
        for sc, o in zip(scs, outs):
            n, ok = o.split()
            sizes[sc_tokens(sc)] = int(n)
            if ok != "1":
                res.violate(f"model/unsafe/{sc['event']}", f"the model's exhaustive enumeration finds an unsafe configuration in scenario {sc}",
                            {"kind": "model-explore", "scenario": sc}, kind="correspondence", found_input=False)
        res.extra["exhaustive_subspaces"] = {"model: all merges of the atomic steps, 32 scenarios, reachable configurations": sum(sizes.values())}
        if not ctx.searching:
            n, ok, lg = core.coq_crosscheck(xin + xin2, xout + xout2, "c16", shell="Race")
            res.extra["extraction_crosschecks"] = n
            if not ok:
                res.violate("xcheck", "extracted runner disagrees with vm_compute: " + lg[-300:], {"tag": "c16"},
                            kind="correspondence", found_input=False)
    res.exhaustive = False


def replay(ctx, case):
    logging.disable(logging.CRITICAL)
    case = case.get("case", case)
    kind = case.get("kind")
    if kind == "tcp-dead-socket":
        exc, lost = tcp_dead_socket_case(case["how"])
        return {"how": case["how"], "exception_escaping_send": repr(exc), "conn_lost_callbacks": lost,
                "violates": exc is not None or lost == 0}
    if kind == "race":
        sc = case["scenario"]
        choices, trace, o = sched.run_one(make_race(sc), [transport_file()], case["choices"])
        bad = monitor_race(sc, o)
        out = {"scenario": sc, "choices": choices, "trace": trace, "implementation": obs_line(o),
               "send_exception": o["send_exc_repr"], "monitor": bad, "violates": bool(bad)}
        if ctx.model is not None:
            out["model"] = ctx.model.batch([model_race_line(sc, trace)])[0]
        return out
    if kind == "queue-seq":
        o = impl_queue_seq(case)
        bad = monitor_queue(case["lists"], o["sent"], o["appended"], o["exc"], o["qlen"] == 0 and o["all_appended"])
        return {"implementation": o, "monitor": bad, "violates": bool(bad)}
    if kind == "queue-sched":
        import mysensors.task as mt

        choices, trace, o = sched.run_one(make_queue_sched(case["lists"], case["pump_iters"], case.get("stopper", False)), [mt.__file__], case["choices"],
                                           only_lines=queue_touching_lines())
        bad = monitor_queue(case["lists"], o["sent"], None, o["exc"], o["qlen"] == 0)
        return {"implementation": o, "trace": trace, "monitor": bad, "violates": bool(bad)}
    if kind == "tcp-write":
        peer, exc = tcp_write_case(case["msg"].encode(), case["plan"])
        msg = case["msg"].encode()
        bad = msg[:len(peer)] != peer or (peer != msg and not isinstance(exc, OSError))
        return {"peer_received": repr(peer), "exception": repr(exc), "violates": bool(bad)}
    if kind == "queue-stress":
        lists, sent, appended, exc, qlen = stress_once(case["producers"], case["per"], case["record"])
        bad = monitor_queue(lists, sent, appended, exc, qlen == 0)
        return {"sent": len(sent), "monitor": bad, "violates": bool(bad), "note": "timing dependent"}
    return {"violates": False, "note": "nothing to replay for this record"}
