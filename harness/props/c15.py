"""C15 - periodic saving heals itself: correspondence Model.SaveSched <-> the real
schedule_save / save_on_schedule / save_sensors under fault and interleaving
schedules, plus monitors evaluating the property on the implementation."""
import os
import shutil
from concurrent.futures import ProcessPoolExecutor
import multiprocessing

from harness import core
from harness.impl import schedfakes as sf

ID = "C15"
PROP_FILE = "C15.v"
RUNNER = "Sched"
TRANSLATORS = ["sched_ast"]
RULE = ("case = format x gateway flavour x initial tree (with or without an existing file) x a sequence of steps "
        "(inbound message | scheduled save under a plan | stop under a plan); plan = clean | permission denied | "
        "OSError at open / j-th object / fsync / rename->bak / rename->main / remove bak | one inbound message "
        "(new node, retyped node, new child, known child, new/updated/unknown value) right before the j-th object "
        "is serialised. Enumerated: every fault position in sequences of 1-4 scheduled saves; every j x every "
        "candidate message; plus seeded random sequences. non-trivial = distinct case in which at least one save "
        "wrote the file and at least one save failed or had its message delivered during serialisation")
RULE += ' MONITORS ONLY: harness/impl/linkfile.py - symbolically linked persistence file, a directory operation of the save fails (18 variants).'
ASSUMPTIONS = [
    "a save is atomic between the modelled sub-steps (Begin, Open, one per object visited by the serialiser, Sync, "
    "the two renames, the removal); inbound messages interleave only at these points (the tie realises them at the "
    "entry of MySensorsJSONEncoder.default / Sensor.__getstate__ / ChildSensor.__reduce_ex__)",
    "CPython dict iteration: json's pure-Python encoder compares sizes at every next(); pickle's C batch_dict_exact "
    "writes a one-entry dict unchecked, otherwise runs over the live entries and compares once at the end (batches "
    "of 1000 not modelled); theorems hold for every policy that is exact on an unchanged dict",
    "stop() is modelled only at quiescent points (no scheduled save in progress); a stop() racing with a running "
    "timer-thread save is outside the quantifier (see notes/C15.md)",
    "file-system level: rename atomic, load = main file else backup (C12/C13 model the rest)",
    "threading.Timer / asyncio task scheduling abstracted to armed/unarmed; the timer period is not modelled",
]
TRUSTED = [
    "harness/translate/sched_ast.py: AST shape of save_sensors / schedule_save / save_on_schedule / stop -> Gen/SchedAst.v",
    "harness/impl/schedfakes.py: FakeTimer, sleep gate, fault patches, serialisation interposer",
]
THEOREMS_DOC = {
    "C15_generated_shape_good": "the shape read from the working tree (Gen/SchedAst.v) satisfies the decidable condition `good` "
                                "the proofs need (re-checked by computation on every run)",
    "C15_policies": "json's and pickle's dict-iteration rules are exact on an unchanged dict",
    "C15_failed_save_keeps_old_file": "a save that raises at any sub-step (OSError or RuntimeError) leaves need_save = True, files "
                                      "untouched by that step, and a load returns what it returned when the save began (or, only "
                                      "for a failing backup removal, the complete new snapshot)",
    "C15_load0_is_load_at_begin": "the ghost v_load0 equals load(fs) at the event that began the save",
    "C15_load0_kept": "the ghost v_load0 does not change while the save runs",
    "C15_schedule_survives_failure": "invariant over all event sequences: unless stopped, the next run is armed or a scheduled save "
                                     "is running; after stop nothing is armed",
    "C15_every_fire_rearms": "every event that ends a scheduled save - return, OSError, RuntimeError, skip, denied - arms the next one",
    "C15_next_success_persists_current": "from any reachable idle unsaved state a fault-free undisturbed scheduled save ends with "
                                         "disk = tree, need_save = False, next run armed",
    "C15_returning_save_persists_snapshot": "a save that returns put a complete snapshot in place; it equals the tree if need_save is False",
    "C15_no_lost_update": "invariant over all event sequences and interleavings: idle and need_save = False -> a load returns the current tree",
    "C15_stop_persists": "from any reachable idle running state stop() with a fault-free final save: disk = tree, nothing armed",
    "C15_no_lost_update_unfixed_refuted": "clear-after-commit order (before c907183): a 5-event history ends idle, marked saved, disk <> tree",
    "C15_schedule_survives_unfixed_refuted": "no try/except around the save (before c158c19): one failing sub-step ends the schedule",
}

FMT = {"json": "j", "pickle": "p"}
FLV = {"sync": "s", "async": "a"}

BASES = {
    "B0": [],
    "B1": [["n", 1, 17], ["c", 1, 1, 6], ["v", 1, 1, 0, 20]],
    "B2": [["n", 1, 17], ["c", 1, 1, 6], ["c", 1, 2, 7], ["v", 1, 1, 0, 20], ["n", 2, 18], ["c", 2, 1, 6],
           ["c", 2, 3, 8], ["v", 2, 3, 4, 1000]],
    "B3": [["n", 1, 17], ["n", 2, 17], ["n", 3, 18], ["c", 3, 5, 6]],
}


def shape(msgs):
    """node -> children list, from set-up messages (all are accepted)."""
    t = {}
    for m in msgs:
        if m[0] == "n":
            t.setdefault(m[1], [])
        elif m[0] == "c" and m[1] in t and m[2] not in t[m[1]]:
            t[m[1]].append(m[2])
    return t


def objs(msgs):
    t = shape(msgs)
    return len(t) + sum(len(c) for c in t.values())


def candidates(msgs):
    """Inbound messages worth delivering during a save of this tree."""
    t = shape(msgs)
    out = [["n", 9, 17]]
    for n, ch in t.items():
        out.append(["n", n, 18])
        out.append(["c", n, 7, 6])
        for c in ch:
            out.append(["v", n, c, 0, 21])
            out.append(["v", n, c, 1, 55])
        if ch:
            out.append(["c", n, ch[0], 6])
        out.append(["v", n, 99, 0, 1])
    out.append(["c", 77, 1, 6])
    return out


IO_KINDS = ["open", "sync", "renbak", "renmain", "rembak"]


def gen_cases(ctx):
    cases = []
    thorough = ctx.tier == "thorough"

    def add(tag, fmt, flv, base, file, steps):
        cases.append({"tag": tag, "fmt": fmt, "flavour": flv, "prior": BASES[base] if isinstance(base, str) else base,
                      "file": file, "steps": steps})

    # hand-seeded corpus: the D9 and D10 witnesses and the one-entry pickle case
    for fmt in FMT:
        for flv in FLV:
            add("seed", fmt, flv, "B1", True, [{"op": "save", "plan": ["io", "open", 0]}, {"op": "save", "plan": ["clean"]},
                                                {"op": "stop", "plan": ["clean"]}])
            add("seed", fmt, flv, "B1", True, [{"op": "save", "plan": ["msg", 1, ["n", 1, 18]]}, {"op": "stop", "plan": ["clean"]}])
            add("seed", fmt, flv, "B1", False, [{"op": "save", "plan": ["msg", 0, ["n", 9, 17]]}, {"op": "save", "plan": ["clean"]},
                                                 {"op": "stop", "plan": ["clean"]}])
    # (i) every position of a transient fault in sequences of 1-4 scheduled saves
    fault_bases = ["B1", "B2", "B3"] if thorough else ["B1"]
    for fmt in FMT:
        for flv in FLV:
            for base in fault_bases:
                kinds = [["io", k, 0] for k in IO_KINDS] + [["io", "ser", j] for j in range(objs(BASES[base]))] + [["denied"]]
                for file in (True, False):
                    for length in (1, 2, 3, 4):
                        for pos in range(length):
                            for plan in kinds:
                                steps = []
                                for i in range(length):
                                    if i > 0:       # start_persistence() comes first; need_save starts True
                                        steps.append({"op": "m", "msg": ["v", 1, 1, 0, 30 + i]})
                                    steps.append({"op": "save", "plan": plan if i == pos else ["clean"]})
                                steps.append({"op": "stop", "plan": ["clean"]})
                                add("fault", fmt, flv, base, file, steps)
    # (i') thorough: two faults in one sequence (consecutive and separated failures)
    if thorough:
        kinds2 = [["io", "open", 0], ["io", "ser", 0], ["io", "sync", 0], ["io", "renmain", 0], ["io", "rembak", 0], ["denied"]]
        for fmt in FMT:
            for flv in FLV:
                for file in (True, False):
                    for length in (2, 3, 4):
                        for p1 in range(length):
                            for p2 in range(p1 + 1, length):
                                for k1 in kinds2:
                                    for k2 in kinds2:
                                        steps = []
                                        for i in range(length):
                                            if i > 0:
                                                steps.append({"op": "m", "msg": ["v", 1, 1, 0, 30 + i]})
                                            steps.append({"op": "save", "plan": k1 if i == p1 else k2 if i == p2 else ["clean"]})
                                        steps.append({"op": "stop", "plan": ["clean"]})
                                        add("fault2", fmt, flv, "B1", file, steps)
    # (ii) every serialisation point x every candidate message
    for fmt in FMT:
        for flv in FLV:
            for base in ("B1", "B2", "B3"):
                for j in range(objs(BASES[base])):
                    for m in candidates(BASES[base]):
                        steps = [{"op": "save", "plan": ["msg", j, m]}, {"op": "save", "plan": ["clean"]},
                                 {"op": "m", "msg": ["v", 1, 1, 0, 44]} if base != "B3" else {"op": "m", "msg": ["c", 2, 4, 6]},
                                 {"op": "save", "plan": ["clean"]}, {"op": "stop", "plan": ["clean"]}]
                        add("interleave", fmt, flv, base, (j + len(m)) % 2 == 0, steps)
    # (iii) seeded random sequences
    rng = ctx.rng("c15")
    for k in range(ctx.budget(300, 30000)):
        fmt = rng.choice(list(FMT))
        flv = rng.choice(list(FLV))
        prior = []
        for _ in range(rng.randrange(0, 7)):
            prior.append(rand_msg(rng, prior))
        steps = []
        for i in range(rng.randrange(1, 5)):
            for _ in range(rng.choice([0, 1, 1, 2]) if i else 0):     # start_persistence() comes first
                steps.append({"op": "m", "msg": rand_msg(rng, prior)})
            steps.append({"op": "save", "plan": rand_plan(rng, prior)})
        r = rng.random()
        if r < 0.8:
            steps.append({"op": "stop", "plan": rand_plan(rng, prior) if rng.random() < 0.3 else ["clean"]})
            if rng.random() < 0.3:
                steps.append({"op": "save", "plan": ["clean"]})
        add("random", fmt, flv, prior, rng.random() < 0.6, steps)
    return cases


def rand_msg(rng, prior):
    t = shape(prior)
    r = rng.random()
    if r < 0.25 or not t:
        return ["n", rng.choice([1, 2, 3, 9, 254]), rng.choice([17, 18])]
    n = rng.choice(list(t) + [5])
    if r < 0.55:
        return ["c", n, rng.choice([1, 2, 3, 7]), rng.choice([6, 7, 8])]
    ch = t.get(n) or [1]
    return ["v", n, rng.choice(ch + [4]), rng.choice([0, 1, 4]), rng.randrange(-5, 100)]


def rand_plan(rng, prior):
    r = rng.random()
    n = objs(prior) + 2
    if r < 0.25:
        return ["clean"]
    if r < 0.3:
        return ["denied"]
    if r < 0.6:
        k = rng.choice(IO_KINDS + ["ser", "ser"])
        return ["io", k, rng.randrange(n) if k == "ser" else 0]
    return ["msg", rng.randrange(n), rand_msg(rng, prior)]


# ------------------------------------------------------------------ model side

def probe_cases():
    """Outside the model's quantifier: stop() called while a scheduled save serialises."""
    out = []
    for fmt in FMT:
        for flv in FLV:
            for j in (0, 1):
                out.append({"tag": "probe", "fmt": fmt, "flavour": flv, "prior": BASES["B1"], "file": True,
                            "steps": [{"op": "init"}, {"op": "save", "plan": ["clean"]}, {"op": "m", "msg": ["v", 1, 1, 0, 33]},
                                      {"op": "save", "plan": ["stopat", j]}]})
    return out


def plan_tokens(plan):
    if plan[0] in ("clean", "denied"):
        return plan[0]
    if plan[0] == "io":
        return f"io {plan[1]} {plan[2]}"
    return f"msg {plan[1]} " + " ".join(str(x) for x in plan[2])


def model_lines(case, variant="gen"):
    lines = [f"init {FMT[case['fmt']]} {FLV[case['flavour']]} {variant}"]
    lines += ["m " + " ".join(str(x) for x in m) for m in case["prior"]]
    if case.get("file"):
        lines.append("mkfile")
    for s in case["steps"]:
        if s["op"] == "init":
            lines.append("m v 250 250 0 0")      # changes nothing: prints the initial state
        elif s["op"] == "m":
            lines.append("m " + " ".join(str(x) for x in s["msg"]))
        else:
            lines.append(f"{s['op']} {plan_tokens(s['plan'])}")
    return lines


def model_obs(case, outs):
    """Parse the model's answers for the steps of a case."""
    skip = 1 + len(case["prior"]) + (1 if case.get("file") else 0)
    res = []
    for line in outs[skip:]:
        t = line.split(" ")
        d = {"out": t[0]}
        for tok in t[1:]:
            k, _, v = tok.partition("=")
            d[k] = v
        res.append({"out": "msg" if d["out"].startswith("msg") else d["out"], "calls": int(d.get("calls", 0)),
                    "d": d["d"] == "1", "a": d["a"] == "1", "s": d["s"] == "1", "disk": d["disk"], "tree": d["tree"],
                    "ev": d.get("ev", "")})
    return res


CMP = ("out", "calls", "d", "a", "s", "disk", "tree")


# ------------------------------------------------------------------ monitors (implementation only)

def initial_obs(case):
    """Observation before the first step, derived from the set-up alone."""
    return None


def monitor(case, obs):
    """The property evaluated on the implementation's observations of one case.
    Returns a list of (key, text)."""
    bad = []
    flv = case["flavour"]
    prev = None
    for i, (stp, o) in enumerate(zip(case["steps"], obs)):
        op = stp["op"]
        where = f"step {i} ({op} {stp.get('plan', stp.get('msg'))})"
        if o["disk"].startswith("LOADERR"):
            bad.append(("unloadable", f"{where}: the persistence file does not load: {o['disk']}"))
        # no lost update: idle and marked saved -> the file holds the current state
        if not o["d"] and o["disk"] != o["tree"]:
            bad.append(("lost-update", f"{where}: need_save is False but a fresh load gives {o['disk']} while memory holds {o['tree']}"))
        if op in ("save", "stop") and prev is not None:
            failed = o["out"].startswith("raise") or o["out"] == "denied"
            if failed:
                if not o["d"]:
                    bad.append(("fail/flag-cleared", f"{where}: the save failed ({o['out']}) but need_save is False"))
                if o["disk"] not in (prev["disk"], prev["tree"], o["tree"]):
                    bad.append(("fail/file-damaged", f"{where}: after the failed save a load gives {o['disk']}, before it gave {prev['disk']}"))
            if o["out"] == "ok":
                if o["disk"] not in (prev["tree"], o["tree"]):
                    bad.append(("ok/not-persisted", f"{where}: after a successful save a load gives {o['disk']}, memory held {prev['tree']} -> {o['tree']}"))
                if stp["plan"][0] != "msg" and (o["d"] or o["disk"] != o["tree"]):
                    bad.append(("ok/not-clean", f"{where}: undisturbed successful save left need_save={o['d']} disk={o['disk']} tree={o['tree']}"))
            if o["out"] == "skip" and o["disk"] != prev["disk"]:
                bad.append(("skip/wrote", f"{where}: a save of a clean state changed the file"))
        if op == "save" and stp["plan"][0] == "stopat" and o["s"] and o["a"]:
            bad.append((f"stop-during-save/{flv}/rearmed",
                        f"{where}: stop() ran while the scheduled save was serialising; afterwards a save is still scheduled"))
        if op == "save" and prev is not None and prev["a"] and not prev["s"] and not o["s"]:
            # a run was due and it ran: whatever happened, the next one must be scheduled
            if not o["a"]:
                cls = o["out"].split(":")[1] if o["out"].startswith("raise") else o["out"]
                bad.append((f"schedule-dead/{flv}/{cls}",
                            f"{where}: after the scheduled save ({o['out']}, escaped={o['escaped']}) no further save is scheduled"))
        if op == "stop":
            if o["a"]:
                bad.append(("stop/still-armed", f"{where}: a save is still scheduled after stop()"))
            # (a message delivered while the final save serialises is outside "clean stop")
            if o["out"] in ("ok", "skip") and stp["plan"][0] != "msg" and o["disk"] != o["tree"]:
                bad.append(("stop/lost", f"{where}: stop() returned but a load gives {o['disk']}, memory holds {o['tree']}"))
        prev = o
    return bad


# ------------------------------------------------------------------ running

ROOT_PID = os.getpid()      # worker processes are forked later and inherit this value


def impl_case(case):
    return sf.run_case(case, sf.scratch_dir(ROOT_PID))


def _impl_worker(case):
    try:
        return impl_case(case)
    except Exception as exc:  # noqa: BLE001
        import traceback
        return {"harness_error": f"{type(exc).__name__}: {exc}", "tb": traceback.format_exc()[-800:]}


def with_initial(case):
    """Prefix an observation-only step so that every real step has a predecessor observation."""
    c = dict(case)
    c["steps"] = [{"op": "init"}] + list(case["steps"])
    return c


def run_impl(cases, jobs):
    if jobs <= 1 or len(cases) < 64:
        return [_impl_worker(c) for c in cases]
    ctxm = multiprocessing.get_context("fork")
    with ProcessPoolExecutor(jobs, mp_context=ctxm) as ex:
        return list(ex.map(_impl_worker, cases, chunksize=max(1, len(cases) // (jobs * 8))))


def _cleanup():
    shutil.rmtree(core.BUILD / "scratch" / str(ROOT_PID), ignore_errors=True)


def run(ctx, res):
    from harness.impl import linkfile
    linkfile.run_all(res, ID, which=("fails",))      # the file is a symbolic link; a directory operation of the save fails
    cases = [with_initial(c) for c in gen_cases(ctx)]
    jobs = 16 if ctx.tier == "thorough" or ctx.scale > 1 else 8
    obs_all = run_impl(cases, jobs)
    if ctx.model is not None:
        outs_all = ctx.model.sessions([model_lines(c) for c in cases])
    else:
        outs_all = [None] * len(cases)
    xin, xout = [], []
    for k, (c, obs, outs) in enumerate(zip(cases, obs_all, outs_all)):
        res.evaluations += 1
        if isinstance(obs, dict):
            res.violate("harness", "harness error: " + obs["harness_error"] + " " + obs["tb"], c, kind="correspondence",
                        found_input=False)
            continue
        wrote = failed = False
        for stp, o in zip(c["steps"], obs):
            if stp["op"] in ("save", "stop"):
                p = stp["plan"]
                res.count(f"{c['flavour']}:{stp['op']}:{p[0]}{':' + p[1] if p[0] == 'io' else ''}->{o['out'].replace('raise:', '!')}")
                wrote |= o["out"] == "ok"
                failed |= o["out"].startswith("raise") or o["out"] == "denied" or (p[0] == "msg" and o["calls"] > p[1])
        res.count(f"cases:{c['tag']}:{c['fmt']}:{c['flavour']}")
        if wrote and failed:
            res.nontriv(core.case_hash(c))
        found = monitor(c, obs)
        for key, text in found[:2]:
            res.violate(key, text, c, kind="monitor")
        if outs is not None:
            mo = model_obs(c, outs)
            diffs = [(i, f, o[f], m[f]) for i, (o, m) in enumerate(zip(obs, mo)) for f in CMP if o[f] != m[f]]
            if diffs:
                i, f, a, b = diffs[0]
                res.violate(f"corr:{c['steps'][i]['op']}:{f}",
                            f"step {i} {c['steps'][i]}: implementation {f}={a!r}, model {f}={b!r} (events {mo[i]['ev']})",
                            c, kind="correspondence", found_input=False)
            if len(xin) < 40 and k % 37 == 0:
                xin.append(model_lines(c))
                xout.append(outs)
        if k % 211 == 0:
            res.sample({"case": c, "impl": [{f: o[f] for f in CMP} for o in obs]})
    # probes outside the quantifier: reported as findings only when listed in known_findings.json
    known = {f["key"] for f in core.load_findings() if f.get("property") == ID}
    notes = []
    for c in probe_cases():
        obs = _impl_worker(c)
        if isinstance(obs, dict):
            notes.append({"case": c["steps"][-1], "error": obs["harness_error"]})
            continue
        for key, text in monitor(c, obs):
            notes.append({"key": key, "what": text, "fmt": c["fmt"], "flavour": c["flavour"]})
            if key in known:
                res.violate(key, text, c, kind="monitor")
    res.extra["observations_outside_quantifier"] = notes
    res.extra["exhaustive_subspaces"] = [
        "fault position x fault kind x sequence length 1-4 x format x flavour x {file, no file} for the listed base trees",
        "serialisation point j x candidate message x format x flavour for base trees B1-B3",
    ]
    if ctx.model is not None and not ctx.searching and xin:
        n, ok, lg = core.coq_crosscheck(xin, xout, "c15", shell="Sched")
        res.extra["extraction_crosschecks"] = n
        if not ok:
            res.violate("xcheck", "extracted runner disagrees with vm_compute: " + lg[-300:], {"tag": "c15"},
                        kind="correspondence", found_input=False)
    _cleanup()


def replay(ctx, case):
    c = case["case"] if "case" in case else case
    if c.get("kind") == "linked-file":
        from harness.impl import linkfile
        return linkfile.replay(c)
    if not c["steps"] or c["steps"][0].get("op") != "init":
        c = with_initial(c)
    obs = impl_case(c)
    found = monitor(c, obs)
    out = {"case": c, "impl": obs, "monitor": found}
    in_model = all(st.get("plan", ["clean"])[0] != "stopat" for st in c["steps"])
    if ctx.model is not None and in_model:
        out["model"] = model_obs(c, ctx.model.sessions([model_lines(c)])[0])
    out["violates"] = bool(found)
    _cleanup()
    return out
