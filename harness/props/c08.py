"""C08 - withheld traffic reaches the sleeping node exactly once, in order."""
from harness import gwcheck
from harness.gen import scenarios

ID = "C08"
PROP_FILE = "C08.v"
TRANSLATORS = ["unicode_tables", "tables"]
RULE = ("70% directed smart-sleep scenarios (harness/gen/scenarios.sleep_history: nodes whose presented version is never "
        "presented / 1.4 / 1.5.1 / = gateway / 2.3 on a 2.0, 2.1 or 2.2 gateway; value reports incl. types 2, 3, 22, 23, 47; "
        "set_child_value with the value type spelled as int or str and values valid / invalid for the gateway / valid only for "
        "the node's older version / ints / containing ';'; confirming reports; reqs for known and late children; children "
        "presented after the first wake-up; reboot and presentation requests on hold; repeated wake-ups; pumps at random "
        "positions) + 30% generic grammar on 2.0-2.2; replayed on the real gateway under the monitor c08 and on the extracted "
        "model; non-trivial = distinct history with at least one wake-up whose burst had >= 1 withheld string followed by >= 1 "
        "desired-value set command")
ASSUMPTIONS = ["children in presentation order = iteration order of `sensor.children` before the wake-up is processed",
               "threaded flavour: the burst of a wake-up = the send jobs enqueued while its line was processed, in FIFO order "
               "(the monitor lets the pump drain at the end of the history)",
               "float(), awesomeversion are oracles fed with the library's real verdicts"]
THEOREMS_DOC = {}
SCOPE = ["S", "extra", "R"]


def run(ctx, res):
    n = ctx.budget(300, 6000)
    nd = n * 7 // 10
    # six short directed histories first: gwcheck re-evaluates the first six sessions inside Coq (vm_compute), which is slow
    cases = scenarios.directed_cases(ctx, "c08x", 6, scenarios.sleep_history, scenarios.SLEEP_VERSIONS, length=(10, 16))
    cases += scenarios.corpus_cases(ID)
    cases += scenarios.directed_cases(ctx, "c08s", nd - len(cases), scenarios.sleep_history, scenarios.SLEEP_VERSIONS)
    cases += gwcheck.gen_cases(ctx, "c08g", n - nd, length=(20, 60), versions=scenarios.SLEEP_VERSIONS)
    recs = gwcheck.run_cases(ctx, res, cases, ["c08"], SCOPE, "c08")
    keys = {"wake:both": "flush_with_both_parts", "wake:withheld>=2": "flush_with_2_or_more_withheld",
            "wake:desired>=2": "flush_with_2_or_more_desired", "wake:repeated": "repeated_wakeup",
            "desired:confirmed": "desired_value_confirmed", "req:desired/withheld": "req_answered_with_desired_value",
            "setchild-sleeping:refused": "set_child_value_refused_at_call_time",
            "setchild-sleeping:stored/vt-as-str": "desired_value_with_str_value_type",
            "req:sleeping-node-child-without-report": "req_for_child_without_report_on_sleeper"}
    reach = {v: 0 for v in keys.values()}
    for r in recs:
        st = r["stats"]
        for k, v in keys.items():
            reach[v] += bool(st.get("c08:" + k))
        if st.get("c08:wake:both"):
            res.nontriv(r["case"]["id"])
    res.extra["histories_reaching"] = reach
    for r in recs[:2] + recs[-1:]:
        res.sample({"id": r["case"]["id"], "cfg": r["case"]["cfg"], "ops": r["case"]["ops"][:10], "n_ops": len(r["case"]["ops"])})


def replay(ctx, case):
    return gwcheck.replay_case(ctx, case)
