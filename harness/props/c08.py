"""C08 - withheld traffic reaches the sleeping node exactly once, in order."""
from harness import gwcheck
from harness.gen import scenarios

ID = "C08"
PROP_FILE = "C08.v"
SOFT_PINS = "core"
TRANSLATORS = ["unicode_tables", "tables"]
RULE = ("70% directed smart-sleep scenarios (harness/gen/scenarios.sleep_history: nodes whose presented version is never "
        "presented / 1.4 / 1.5.1 / = gateway / 2.3 on a 2.0, 2.1 or 2.2 gateway; value reports incl. types 2, 3, 22, 23, 47; "
        "set_child_value with the value type spelled as int or str and values valid / invalid for the gateway / valid only for "
        "the node's older version / ints / containing ';'; confirming reports; reqs for known and late children; children "
        "presented after the first wake-up; reboot and presentation requests on hold; repeated wake-ups; pumps at random "
        "positions) + 30% generic grammar on 2.0-2.2; replayed on the real gateway under the monitor c08 and on the extracted "
        "model; non-trivial = distinct history with at least one wake-up whose burst had >= 1 withheld string followed by >= 1 "
        "desired-value set command")
ASSUMPTIONS = ["children in presentation order = iteration order of `sensor.children` before the wake-up is processed",
               "threaded flavour: the burst of a wake-up = the send jobs enqueued while its line was processed, in FIFO order "
               "(the monitor lets the pump drain at the end of the history)",
               "float(), awesomeversion are oracles fed with the library's real verdicts"]
THEOREMS_DOC = {
    'C08_reachable_invariants': 'every reachable state satisfies Inv, QInv, CInv and keeps its configuration',
    'C08_flush_strings_def': "strings of a flush = the node's hold queue oldest first ++ encode of the desired set commands", 'C08_desired_msgs_def': 'desired set commands = children in insertion order, REPORTED value types in insertion order, desired entry Some v: node;child;set;0;vt;str(v)',
    'C08_desired_msgs_membership': 'membership in the desired set commands, both directions',
    'C08_flush_calls': 'handle_smartsleep returns Ok; add_job_send is called on exactly queue ++ desired sets, in order, after the node was stored with its queue emptied',
    'C08_flush_spec': 'handle_smartsleep of a known node returns Ok (flushed g nd)',
    'C08_flushed_fields': 'flushed state: only that node and the log (asyncio) / job queue (threaded) changed, by exactly the flush strings in order',
    'C08_woken_fields': 'node after the flush: queue empty, a slot for every child, desired entries NOT cleared, everything else unchanged',
    'C08_flush_children_rel': 'prefix-emitting flush and exception-free flush agree (result / exception)',
    'C08_flush_children_closed': 'under the invariant both return the closed list and no exception',
    'C08_wake_logic': 'a wake-up announcement of a known node through the dispatcher never raises, returns no reply and yields the flushed state (2.0/2.1: plus heartbeat and alert)',
    'C08_wake_outputs': 'what leaves the gateway in that call is exactly the withheld strings once each, oldest first, then the set commands (log sends / queued send jobs)',
    'C08_set_child_value_sleeping': 'closed form of set_child_value on a sleeping node: ValueError / Invalid (gateway version) / ValueError (no slot) / Invalid (node version) / store Some v under int(value_type)',
    'C08_store_desired_facts': 'after the call exactly the entry (child, int key) is Some v; nothing else of the node changes',
    'C08_vt_key_normalised': "value types with equal int() make the whole call behave identically ('2' and 2 are the same key)", 'C08_vt_key_str_int': 'int(str(z)) = z for value types',
    'C08_handle_set_known': 'an accepted report stores update_child_value of the node, alerts, replies only a pending reboot request',
    'C08_update_child_value_facts': 'update_child_value sets entry (c, vt) to None, touches no other desired entry, records the reported value',
    'C08_report_clears_desired': 'a step processing an accepted report of (n, c, vt) leaves desired (c, vt) = None and other desired entries unchanged',
    'C08_cause_report': 'cause CReport n c vt = the step processes an accepted set message from (n, c, vt)',
    'C08_cause_desire': "cause CDesire n c vt = the step is set_child_value n c vt' with int(vt') = vt", 'C08_desired_resent_until_reported': 'after an accepted call, in every state reached without a report of / new call for (n, c, vt): still pending, requests answered with it, flush succeeds and (if vt was reported) contains the set command',
    'C08_unreported_not_sent': 'a desired value for a value type the node never reported is not part of any flush',
    'C08_cleared_until_new_desire': 'once None, the entry stays None and no flush has a set command for (c, vt) until a new call for it',
    'C08_flush_sets_are_desired': 'every set command of a flush is a pending desired value',
    'C08_get_desired_value_closed': 'get_desired_value is total: pending desired value, else reported value, else None',
    'C08_handle_req_known': "reply to a value request of a known child: set message with the request's ack/sub and that value; none if no value", 'C08_req_logic_sleeping': 'for a sleeping node the reply is appended to its hold queue and nothing is returned',
    'C08_accepted_implies_deliverable': "after any accepted call and any later history the flush of every node returns Ok and no line raises, whatever the node's own protocol version", 'C08_refused_at_call_time': "a value invalid for the gateway's version raises Invalid at the call; the state is unchanged", 'C08_presentation_late_child': 'presenting a new child appends it and leaves the desired state untouched (no slot after the first wake-up)',
    'C08_late_child_req': 'no slot: requests are answered from the reported values',
    'C08_late_child_set_refused': 'no slot: set_child_value raises at call time (ValueError when the value is valid)',
    'C08_late_child_gets_slot': 'the next wake-up creates the empty slot and keeps all existing slots'}
SCOPE = ["S", "extra", "R"]


def run(ctx, res):
    n = ctx.budget(300, 6000)
    nd = n * 7 // 10
    # six short directed histories first: gwcheck re-evaluates the first six sessions inside Coq (vm_compute), which is slow
    cases = scenarios.directed_cases(ctx, "c08x", 6, scenarios.sleep_history, scenarios.SLEEP_VERSIONS, length=(10, 16))
    cases += scenarios.corpus_cases(ID)
    cases += scenarios.directed_cases(ctx, "c08s", nd - len(cases), scenarios.sleep_history, scenarios.SLEEP_VERSIONS)
    cases += gwcheck.gen_cases(ctx, "c08g", n - nd, length=(20, 60), versions=scenarios.SLEEP_VERSIONS)
    # a third of the histories: persistence and a clean stop + start in the middle (pickle stores more than json)
    import shutil
    from harness.gen import scenarios_a
    scenarios.with_restarts(ctx, cases, "c08")
    root = scenarios_a.assign_persist(cases, "c08", lambda i, c: c.pop("_fmt", None))
    try:
        recs = gwcheck.run_cases(ctx, res, cases, ["c08"], SCOPE, "c08")
    finally:
        shutil.rmtree(root, ignore_errors=True)
    keys = {"wake:both": "flush_with_both_parts", "wake:withheld>=2": "flush_with_2_or_more_withheld",
            "wake:desired>=2": "flush_with_2_or_more_desired", "wake:repeated": "repeated_wakeup",
            "desired:confirmed": "desired_value_confirmed", "req:desired/withheld": "req_answered_with_desired_value",
            "setchild-sleeping:refused": "set_child_value_refused_at_call_time",
            "setchild-sleeping:stored/vt-as-str": "desired_value_with_str_value_type",
            "req:sleeping-node-child-without-report": "req_for_child_without_report_on_sleeper"}
    reach = {v: 0 for v in keys.values()}
    for r in recs:
        st = r["stats"]
        for k, v in keys.items():
            reach[v] += bool(st.get("c08:" + k))
        if st.get("c08:wake:both"):
            res.nontriv(r["case"]["id"])
    res.extra["histories_reaching"] = reach
    for r in recs[:2] + recs[-1:]:
        res.sample({"id": r["case"]["id"], "cfg": r["case"]["cfg"], "ops": r["case"]["ops"][:10], "n_ops": len(r["case"]["ops"])})


def replay(ctx, case):
    c0 = case["case"] if "case" in case else case
    if c0["cfg"].get("persist"):
        import shutil
        from harness.gen import scenarios_a
        c, root = scenarios_a.relocated(c0, "c08")
        try:
            return gwcheck.replay_case(ctx, c)
        finally:
            shutil.rmtree(root, ignore_errors=True)
    return gwcheck.replay_case(ctx, case)
