"""Monitors for C07 (sleeping nodes get nothing outside their wake window), C08 (withheld traffic is
delivered exactly once, in order, plus the desired-value life cycle) and C10 (OTA session automaton).

Written from the property texts; they look at the real gateway only (ops in, strings out, the hold
queues `sensor.queue`, the three OTA stores) and keep their own books. They never consult the Coq model.
See notes/monB.md for the readings.
"""
import collections
import re

from harness import monitors
from harness.monitors import Base, accepted, decode_line

STREAM = 4


def wake_sub(ver):
    """sub-type of the wake-up announcement for a gateway of version `ver` (None: no smart sleep)."""
    return {"2.0": 22, "2.1": 22, "2.2": 32}.get(ver)


def head(s):
    """(destination node, message type) of an outbound command string, parsed field-wise so that
    strings with a garbled payload still have an addressee."""
    parts = s.split(";")
    try:
        return int(parts[0]), int(parts[2])
    except (ValueError, IndexError):
        return None, None


def wire(im, s):
    """What the recording transport shows when `s` is handed to it: the plain string, or for the MQTT
    transport the re-encoded publication (undecodable commands are not published)."""
    if s is None or not im.cfg.get("mqtt"):
        return s
    d = decode_line(s)
    if d is None:
        return None
    return "%d;%d;%d;%d;%d;%s\n" % d


def wired(im, strings):
    return [w for w in (wire(im, s) for s in strings) if w]


class Obs(Base):
    """Per-op observations shared by the three monitors."""

    def start(self, im):
        self.ver = im.cfg["ver"]
        self._acc = {}
        self.opno = -1

    def fail(self, key, what):
        if all(k != key for k, _ in self.violations):      # one witness per kind of failure and history
            super().fail(key, what)

    def acc(self, line):
        if not isinstance(line, str):
            return None
        if line not in self._acc:
            self._acc[line] = accepted(line, self.ver)
        return self._acc[line]

    def wake_node(self, line):
        """node id if `line` is an accepted wake-up announcement for this gateway version."""
        ws = wake_sub(self.ver)
        a = self.acc(line) if ws is not None else None
        if a and a[2] == 3 and a[4] == ws:
            return a[0]
        return None

    @staticmethod
    def snap(im):
        return {n: (tuple(s.queue), tuple(s.children), bool(s.reboot)) for n, s in im.gw.sensors.items()}

    def before(self, im, op, trk):
        self.opno += 1
        self.pre = self.snap(im)
        self.pre_sleep = trk.pre_sleeping

    @staticmethod
    def sent(events):
        return [e[1] for e in events if e[0] == "S"]

    @staticmethod
    def raised(events):
        return [e[1] for e in events if e[0] == "R"]

    def queue_delta(self, im):
        """node -> (strings appended to its hold queue by this op, True if the queue lost entries)."""
        out = {}
        for n, s in im.gw.sensors.items():
            pre_q = self.pre[n][0] if n in self.pre else ()
            post_q = tuple(s.queue)
            if post_q[:len(pre_q)] == pre_q:
                out[n] = (post_q[len(pre_q):], False)
            else:
                out[n] = ((), True)
        return out

    def sources(self, op, trk, events):
        """(string, origin, nodes sleeping at the reference time, kind) for every string this op sent.
        asyncio flavour: everything is sent while the op runs. Threaded flavour: a pump sends either the
        reply of the line it processed or one queued job (origin and sleepers recorded at enqueue time)."""
        ss = self.sent(events)
        if not ss:
            return []
        if trk.sync:
            if trk.popped is None:
                return [(s, None, self.pre_sleep, "stray") for s in ss]
            if trk.popped[0] == "L":
                return [(s, trk.popped[1], self.pre_sleep, "reply") for s in ss]
            self.job_enqueued_at = trk.popped[3] if len(trk.popped) > 3 else None
            return [(s, trk.popped[1], trk.popped[2], "job") for s in ss]
        if trk.processed is not None:
            return [(s, trk.processed, self.pre_sleep, "reply") for s in ss]
        return [(s, ("call", op[0]), self.pre_sleep, "call") for s in ss]


# ------------------------------------------------------------------------------------------- C07

@monitors.register
class C07Sleep(Obs):
    """C07: a string addressed to a node that was sleeping (when the line was processed / when the send job
    was enqueued) leaves only as part of that node's wake-up burst, unless it is a stream message;
    hold queues only ever receive non-stream strings addressed to their own, sleeping, node and only
    lose entries at that node's wake-up."""
    name = "c07"

    def start(self, im):
        super().start(im)
        # The property's own notion of "has announced smart sleep" (independent of the flag the library keeps, which
        # a defect may clear): node -> number of the op that processed its first wake-up announcement while it had
        # at least one child.  A restart forgets it (transient state).
        self.announced = {}

    def after(self, im, op, events, trk):
        if op[0] == "restart":
            self.announced = {}
            return
        self.job_enqueued_at = None
        for s, origin, ref, kind in self.sources(op, trk, events):
            n, typ = head(s)
            if n is None:
                self.stats["sent:no-addressee"] += 1
                continue
            at = self.announced.get(n)
            ref_time = self.job_enqueued_at if kind == "job" else trk.opno
            announced_before = at is not None and ref_time is not None and at < ref_time
            if announced_before and n not in ref:
                self.stats["sent:library-flag-says-awake-but-node-announced-smart-sleep"] += 1
            if n in ref or announced_before:
                if typ == STREAM:
                    self.stats["sent:stream-to-sleeping"] += 1
                elif self.wake_node(origin) == n:
                    self.stats["sent:in-wake-burst"] += 1
                else:
                    self.fail(f"sent-to-sleeping/{kind}",
                              f"op {self.opno}: {s!r} left the gateway for sleeping node {n} (origin {origin!r})")
            else:
                self.stats["sent:to-awake-node" + ("/while-others-sleep" if ref else "")] += 1
        woke = self.wake_node(trk.processed) if trk.processed is not None else None
        if woke is not None and woke not in self.announced and woke in self.pre and self.pre[woke][1]:
            self.announced[woke] = trk.opno           # known node with >= 1 child (before this op) announced smart sleep
        for n, (new, lost) in self.queue_delta(im).items():
            if lost:
                if woke == n:
                    self.stats["hold-queue-released"] += 1
                else:
                    # Entries that vanish WITHOUT leaving the gateway are not this property's business (C07 is about
                    # what is sent; "every withheld reply exactly once" is C08): counted.  Entries that were sent
                    # outside a wake-up burst are caught by the clause above.
                    self.stats["hold-queue-shrunk-outside-wake(judged by C08, not here)"] += 1
            for x in new:
                d, typ = head(x)
                if d != n:
                    self.fail("withheld-in-foreign-queue", f"op {self.opno}: {x!r} was put into the hold queue of node {n}")
                elif n not in self.pre_sleep:
                    self.fail("awake-node-traffic-withheld", f"op {self.opno}: {x!r} withheld although node {n} was not sleeping")
                elif typ == STREAM:
                    self.fail("stream-withheld", f"op {self.opno}: stream message {x!r} withheld for node {n}")
                else:
                    self.stats["withheld"] += 1
        if trk.processed is not None and self.pre_sleep:
            self.stats["line-while-some-node-sleeps"] += 1

    def end(self, im, trk):
        if any(s.is_smart_sleep_node for s in im.gw.sensors.values()):
            self.stats["history-ends-with-sleeper"] += 1


# ------------------------------------------------------------------------------------------- C08

@monitors.register
class C08Flush(Obs):
    """C08: own books of withheld strings, reported values and pending desired values; every wake-up of a
    known node must emit exactly `withheld ++ desired sets`; reqs are answered desired-first."""
    name = "c08"

    def start(self, im):
        super().start(im)
        self.withheld = collections.defaultdict(list)    # node -> strings the gateway put on hold, oldest first
        self.desired = {}                                # (node, child, int value type) -> raw value
        self.reported = {}                               # (node, child) -> {value type: payload} in first-report order
        self.tags = []                                   # threaded flavour: mirrors the job FIFO; wake record or None
        self.cur = None
        self.dead = False                                # after an exception in a checked op the books are void

    # -- threaded flavour: follow the job FIFO (same discipline as monitors.Tracker) -------------
    def before(self, im, op, trk):
        super().before(im, op, trk)
        self.cur = None
        if trk.sync:
            if op[0] == "recv":
                self.tags.append(None)
            elif op[0] == "pump" and trk.popped is not None and self.tags:
                self.cur = self.tags.pop(0)

    def _mirror(self, im, trk, tag):
        if not trk.sync:
            return 0
        real = len(im.gw.tasks.queue)
        new = max(0, real - len(self.tags))
        self.tags.extend([tag] * new)
        del self.tags[real:]
        return new

    # -- the op ------------------------------------------------------------------------------------
    def after(self, im, op, events, trk):
        if op[0] == "restart":
            self.dead = True
        if self.dead:
            self._mirror(im, trk, None)
            return
        sent, raised = self.sent(events), self.raised(events)
        delta = self.queue_delta(im)
        tag = None
        if self.cur is not None:                       # a send job of an earlier wake-up (threaded flavour)
            rec = self.cur
            rec["got"] += sent
            rec["left"] -= 1
            if raised:
                self.fail(f"wakeup-raises/{raised[0]}", f"op {self.opno}: {raised[0]} while sending the burst of {rec['line']!r}")
                self.dead = True
            elif rec["left"] == 0:
                self.compare(im, rec)
        line = trk.processed
        a = self.acc(line) if line is not None else None
        if a is not None:
            n, c, t, ack, sub, payload = a
            known_n = n in self.pre
            known_c = known_n and c in self.pre[n][1]
            if known_n and self.wake_node(line) == n:
                tag = self.on_wake(im, trk, n, line, sent, raised)
            elif t == 1 and known_c:
                self.on_report(n, c, sub, payload)
            elif t == 2 and known_c:
                self.on_req(im, n, c, ack, sub, sent, raised, delta)
        elif op[0] == "setchild":
            self.on_setchild(op, raised)
        for n, (new, _lost) in delta.items():
            self.withheld[n].extend(new)
        new_jobs = self._mirror(im, trk, tag)
        if tag is not None:
            tag["left"] = new_jobs
            if new_jobs == 0:
                self.compare(im, tag)

    def on_report(self, n, c, vt, payload):
        self.reported.setdefault((n, c), {})[vt] = payload
        if self.desired.pop((n, c, vt), None) is not None:
            self.stats["desired:confirmed"] += 1

    def on_setchild(self, op, raised):
        _, sid, cid, vt, value, _mt, _ack = op
        if sid not in self.pre_sleep:
            return
        if raised:
            self.stats["setchild-sleeping:refused"] += 1
            return
        if sid not in self.pre or cid not in self.pre[sid][1]:
            self.stats["setchild-sleeping:unknown-child"] += 1
            return
        try:
            key = (sid, cid, int(vt))
        except (TypeError, ValueError):
            self.fail("desired-accepted/bad-value-type", f"op {self.opno}: set_child_value accepted value type {vt!r}")
            return
        self.desired[key] = value
        self.stats["setchild-sleeping:stored" + ("/vt-as-str" if isinstance(vt, str) else "")] += 1

    def on_req(self, im, n, c, ack, vt, sent, raised, delta):
        if raised:
            self.fail(f"req-raises/{raised[0]}", f"op {self.opno}: {raised[0]} escaped while answering a value request of {n}/{c}")
            self.dead = True
            return
        src = "none"
        val = None
        if (n, c, vt) in self.desired:
            val, src = self.desired[(n, c, vt)], "desired"
        elif vt in self.reported.get((n, c), {}):
            val, src = self.reported[(n, c)][vt], "reported"
        want = [] if val is None else [f"{n};{c};1;{ack};{vt};{val}\n"]
        held = list(delta.get(n, ((), False))[0])
        if n in self.pre_sleep:
            ok = not sent and held == want
            self.stats[f"req:{src}/withheld"] += 1
        else:
            ok = sent == wired(im, want) and not held
            self.stats[f"req:{src}"] += 1
        if (n, c) not in self.reported and n in self.pre_sleep:
            self.stats["req:sleeping-node-child-without-report"] += 1
        if not ok:
            got = sent + held
            kind = "missing" if not got else "unexpected" if not want else "wrong"
            how = "answered (answer put on hold, node sleeps)" if n in self.pre_sleep else "answered at once"
            self.fail(f"req-answer/{kind}", f"op {self.opno}: request {n};{c};2;{ack};{vt} must be {how} with {want!r} "
                                            f"({src} value), sent {sent!r}, put on hold {held!r}")

    def on_wake(self, im, trk, n, line, sent, raised):
        if raised:
            self.fail(f"wakeup-raises/{raised[0]}", f"op {self.opno}: {raised[0]} escaped the wake-up {line!r}")
            self.dead = True
            return None
        held = list(self.withheld[n])
        sets = []
        for c in self.pre[n][1]:
            for vt in self.reported.get((n, c), {}):
                if (n, c, vt) in self.desired:
                    sets.append(f"{n};{c};1;0;{vt};{self.desired[(n, c, vt)]}\n")
        self.withheld[n] = []
        st = self.stats
        st["wake"] += 1
        st["wake:first" if n not in self.pre_sleep else "wake:repeated"] += 1
        st["wake:" + ("both" if held and sets else "withheld-only" if held else "desired-only" if sets else "empty")] += 1
        if len(held) >= 2:
            st["wake:withheld>=2"] += 1
        if len(sets) >= 2:
            st["wake:desired>=2"] += 1
        if any(n2 == n and vt not in self.reported.get((n2, c), {}) for (n2, c, vt) in self.desired):
            st["wake:desired-for-unreported-type-kept-back"] += 1
        if len(im.gw.sensors[n].queue):
            self.fail("hold-queue-not-emptied", f"op {self.opno}: after the wake-up of node {n} its hold queue still has "
                                                f"{len(im.gw.sensors[n].queue)} entries")
        rec = {"n": n, "line": line, "op": self.opno, "want": held + sets, "got": list(sent), "left": 0,
               "nheld": len(held)}
        if not trk.sync:
            self.compare(im, rec)
            return None
        return rec

    def compare(self, im, rec):
        want = wired(im, rec["want"])
        got = rec["got"]
        if got == want:
            return
        if sorted(got) == sorted(want):
            kind = "order"
        elif len(got) < len(want):
            kind = "missing"
        elif len(got) > len(want):
            kind = "extra"
        else:
            kind = "differs"
        self.fail(f"flush/{kind}", f"wake-up {rec['line']!r} (op {rec['op']}): emitted {got!r}, required {want!r} "
                                   f"({rec['nheld']} withheld first, then desired sets)")

    def end(self, im, trk):
        # threaded flavour: let the pump drain so that every burst is complete before it is judged
        for _ in range(4000):
            if self.dead or not trk.sync or not im.gw.tasks.queue:
                break
            op = ("pump",)
            trk.before(op)
            self.before(im, op, trk)
            start = len(im.log)
            im.op(op)
            self.after(im, op, im.log[start:], trk)
            trk.after(op)
        if self.desired:
            self.stats["history-ends-with-pending-desired"] += 1


# ------------------------------------------------------------------------------------------- C10

HEX20 = re.compile(r"[0-9a-fA-F]{20}\Z")
HEX12 = re.compile(r"[0-9a-fA-F]{12}\Z")


def le16hex(*words):
    return "".join("%02x%02x" % (w & 255, (w >> 8) & 255) for w in words)


def unle16(hexstr):
    b = bytes.fromhex(hexstr)
    return [b[i] | (b[i + 1] << 8) for i in range(0, len(b), 2)]


def crc16_modbus(data):
    crc = 0xFFFF
    for byte in data:
        crc ^= byte
        for _ in range(8):
            crc = (crc >> 1) ^ 0xA001 if crc & 1 else crc >> 1
    return crc


def padded(image):
    """the image padded with 0xFF to a multiple of 128 bytes (a full page when it already is one)."""
    return bytes(image) + b"\xff" * (128 - len(image) % 128)


def as_word(x):
    """the 16-bit word an update call means by `x`, or None if the call has to be ignored."""
    try:
        x = int(x)
    except (TypeError, ValueError):
        return None
    return x if 0 <= x <= 0xFFFF else None


@monitors.register
class C10Session(Obs):
    """C10: reference session automaton per node (Idle | Requested | Offered | Fetching) + reboot flag."""
    name = "c10"

    def start(self, im):
        super().start(im)
        self.state = {}        # node -> ("R"|"O"|"F", t, v); absent = Idle
        self.reboot = {}       # node -> bool
        self.fw = {}           # (t, v) -> padded image
        self.fetched = {}      # node -> set of block indices answered in the current session
        self.dead = False

    def after(self, im, op, events, trk):
        if op[0] == "restart":
            self.dead = True
        if self.dead:
            return
        sent, raised = self.sent(events), self.raised(events)
        delta = self.queue_delta(im)
        expected_stream = []
        line = trk.processed
        a = self.acc(line) if line is not None else None
        if op[0] == "updatefw":
            self.on_update(op, raised)
        elif a is not None:
            n, c, t, ack, sub, payload = a
            known_n = n in self.pre
            known_c = known_n and c in self.pre[n][1]
            if t == STREAM and known_n and sub in (0, 2):
                expected_stream = self.on_stream(im, n, ack, sub, payload, sent, raised)
            elif t == 1 and known_c:
                self.on_set(im, n, sent, raised, delta)
            elif t == 0 and c == 255:
                if self.reboot.get(n):
                    self.stats["presentation-ends-reboot-window"] += 1
                self.reboot[n] = False
        # gating: a firmware response leaves the gateway only as the answer the automaton prescribes
        for s in sent:
            d, typ = head(s)
            if typ == STREAM and s not in expected_stream:
                self.fail("ungated-stream-response", f"op {self.opno} {op!r}: {s!r} is not prescribed by the session of node {d}")
        for n, (new, _lost) in delta.items():
            for x in new:
                if head(x)[1] == STREAM:
                    self.fail("stream-withheld", f"op {self.opno}: stream message {x!r} put on hold for node {n}")
        self.check_stores(im, op)

    # -- update call -------------------------------------------------------------------------------
    def on_update(self, op, raised):
        _, nids, t, v, data = op
        if raised:
            self.fail(f"update-raises/{raised[0]}", f"op {self.opno}: update call {op[1:4]!r} raised {raised[0]}")
            self.dead = True
            return
        if data is not None and len(data) == 0:
            self.stats["update:empty-image"] += 1      # no firmware could be loaded: the call does nothing
            return
        tw, vw = as_word(t), as_word(v)
        if tw is None or vw is None:
            self.stats["update:bad-type-or-version"] += 1
            return
        if data is not None:
            self.fw[(tw, vw)] = padded(data)
        if (tw, vw) not in self.fw:
            self.stats["update:no-firmware"] += 1
            return
        hit = 0
        for n in nids:
            if n in self.pre:
                st = self.state.get(n)
                self.stats["update:" + {None: "fresh", "R": "again-before-config", "O": "restart-offered",
                                        "F": "restart-fetching"}[st and st[0]]] += 1
                self.state[n] = ("R", tw, vw)
                self.reboot[n] = True
                self.fetched[n] = set()
                hit += 1
            else:
                self.stats["update:unknown-node"] += 1
        if len(nids) > 1:
            self.stats["update:list"] += 1
        if data is None and hit:
            self.stats["update:firmware-from-earlier-call"] += 1

    # -- stream requests ---------------------------------------------------------------------------
    def on_stream(self, im, n, ack, sub, payload, sent, raised):
        st = self.state.get(n)
        tag = "config" if sub == 0 else "block"
        well = (HEX20 if sub == 0 else HEX12).match(payload) is not None
        want = []
        if not well:
            self.stats[f"{tag}-request:malformed"] += 1
            if raised:
                self.fail(f"malformed-raises/{raised[0]}", f"op {self.opno}: malformed {tag} request {payload!r} of node {n} raised {raised[0]}")
                self.dead = True
                return []
        elif sub == 0:
            if st and st[0] in ("R", "O"):
                img = self.fw.get((st[1], st[2]))
                self.state[n] = ("O", st[1], st[2])
                if img is not None:
                    want = [f"{n};255;4;{ack};1;" + le16hex(st[1], st[2], len(img) // 16, crc16_modbus(img)) + "\n"]
                self.stats["config-request:answered" + ("-again" if st[0] == "O" else "")] += 1
            else:
                self.stats["config-request:" + ("withheld-while-fetching" if st else "idle")] += 1
        else:
            rt, rv, idx = unle16(payload)
            if st and st[0] in ("O", "F"):
                self.state[n] = ("F", st[1], st[2])
                img = self.fw.get((rt, rv))
                if img is not None:
                    want = [f"{n};255;4;{ack};3;" + le16hex(rt, rv, idx) + img[idx * 16: idx * 16 + 16].hex() + "\n"]
                    if (rt, rv) == (st[1], st[2]):
                        self.fetched.setdefault(n, set()).add(idx)
                        if self.fetched[n] >= set(range(len(img) // 16)):
                            self.stats["session:all-blocks-fetched"] += 1
                            self.fetched[n] = set()
                    else:
                        self.stats["block-request:other-firmware"] += 1
                    self.stats["block-request:answered" + ("" if idx < len(img) // 16 else "/beyond-last")] += 1
                else:
                    self.stats["block-request:no-such-firmware"] += 1
            else:
                self.stats["block-request:" + ("before-config" if st else "idle")] += 1
        if raised and not self.dead:
            self.fail(f"stream-raises/{raised[0]}", f"op {self.opno}: {tag} request {payload!r} of node {n} raised {raised[0]}")
            self.dead = True
            return want
        want = wired(im, want)
        got = [s for s in sent if head(s)[1] == STREAM]
        if got != want:
            if not well:
                key = f"malformed-{tag}-request/answered"
            else:
                key = f"{tag}-response/" + ("missing" if not got else "unexpected" if not want else "wrong")
            self.fail(key, f"op {self.opno}: {tag} request {payload!r} of node {n} in state {st!r}: sent {got!r}, required {want!r}")
        if n in self.pre_sleep and want:
            self.stats["stream-response-to-sleeping-node"] += 1
        return want

    # -- reboot window -----------------------------------------------------------------------------
    def on_set(self, im, n, sent, raised, delta):
        if raised:
            return
        want = [f"{n};255;3;0;13;\n"] if self.reboot.get(n) else []
        held = list(delta.get(n, ((), False))[0])
        if n in self.pre_sleep:
            ok = held == want and not sent
        else:
            ok = sent == wired(im, want) and not held
        self.stats["set:reboot-" + ("requested" if want else "not-requested") + ("/withheld" if want and n in self.pre_sleep else "")] += 1
        if not ok:
            self.fail("reboot-request/" + ("missing" if want else "unexpected"),
                      f"op {self.opno}: set message of node {n} (reboot window {'open' if want else 'closed'}, node "
                      f"{'sleeps: answer goes on hold' if n in self.pre_sleep else 'awake'}): sent {sent!r}, put on hold {held!r}, "
                      f"required {want!r}")

    # -- automaton state vs. the three stores --------------------------------------------------------
    def check_stores(self, im, op):
        ota = im.gw.tasks.ota
        stores = (("R", ota.requested), ("O", ota.unstarted), ("F", ota.started))
        nodes = set(self.state) | set(ota.requested) | set(ota.unstarted) | set(ota.started)
        for n in nodes:
            where = [(k, tuple(s[n])) for k, s in stores if n in s]
            st = self.state.get(n)
            impl = (where[0][0],) + where[0][1] if where else None
            if len(where) > 1:
                self.fail("stores/node-in-several", f"op {self.opno} {op!r}: node {n} is in {[k for k, _ in where]}")
            elif impl != st:
                self.fail("stores/state-differs", f"op {self.opno} {op!r}: node {n} session is {st!r} but the stores say {where!r}")
        for n, s in im.gw.sensors.items():
            if bool(s.reboot) != bool(self.reboot.get(n, False)):
                self.fail("reboot-flag/differs", f"op {self.opno} {op!r}: node {n} reboot flag is {s.reboot} but the window is "
                                                 f"{'open' if self.reboot.get(n) else 'closed'}")
