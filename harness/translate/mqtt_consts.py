"""Generate Gen/MqttConsts.v from the AST of mysensors/gateway_mqtt.py (working tree at core.REPO).

Rendered (data only, never logic):
  * init_topics: the literal list subscribed first, the early return when persistence is off,
    the f-string templates of the per-child and per-node topics and the message type numbers
    (self.const.MessageType.<name>, resolved against every const_XX module: they must agree);
  * _handle_presentation: the child id literal that suppresses the subscription, its templates;
  * parse_mqtt_to_message: minimum number of levels, the two slice bounds, the assigned index;
  * parse_message_to_mqtt: the slice bound that trims the encoded topic;
  * MQTTTransport.send / handle_subscription: the exception classes of the four try/except,
    rendered as predicates over the model's `exn` enumeration through the live class hierarchy.
Fail closed: any unexpected shape raises TranslateError (nothing is emitted).
"""
import ast
import builtins
import re

from harness import core

TARGET = "MqttConsts.v"


class TranslateError(Exception):
    pass


def need(cond, what):
    if not cond:
        raise TranslateError(what)


def pstr(s):
    return "[" + "; ".join(str(ord(c)) for c in s) + "]"


def find_func(tree, cls, name):
    for node in tree.body:
        if isinstance(node, ast.ClassDef) and node.name == cls:
            for f in node.body:
                if isinstance(f, (ast.FunctionDef, ast.AsyncFunctionDef)) and f.name == name:
                    return f
    raise TranslateError(f"{cls}.{name} not found")


def body_stmts(func):
    """Statements of a function without docstring and pure logging calls."""
    out = []
    for st in func.body:
        if isinstance(st, ast.Expr) and isinstance(st.value, ast.Constant) and isinstance(st.value.value, str):
            continue
        if isinstance(st, ast.Expr) and ast.unparse(st).startswith("_LOGGER."):
            continue
        out.append(st)
    return out


def int_const(node, what):
    if isinstance(node, ast.UnaryOp) and isinstance(node.op, ast.USub):
        return -int_const(node.operand, what)
    need(isinstance(node, ast.Constant) and type(node.value) is int, f"{what}: integer literal expected, got {ast.dump(node)[:80]}")
    return node.value


def msgtype_values():
    """name -> int, identical in every protocol version's const module."""
    from mysensors.const import CONST_VERSIONS, get_const

    table = None
    for ver in sorted(CONST_VERSIONS):
        mt = get_const(ver).MessageType
        cur = {m.name: int(m.value) for m in mt}
        for alias, m in mt.__members__.items():
            cur[alias] = int(m.value)
        if table is None:
            table = cur
        need(table == cur, f"MessageType differs between protocol versions ({ver})")
    return table


MT_RE = re.compile(r"^int\(self\.const\.MessageType\.(\w+)\)$")


def template(js, mt, what, node_only=False):
    """JoinedStr -> list of Coq `part` terms."""
    need(isinstance(js, ast.JoinedStr), f"{what}: f-string expected")
    parts = []
    for v in js.values:
        if isinstance(v, ast.Constant):
            need(isinstance(v.value, str), f"{what}: str constant expected")
            parts.append(f"PLit {pstr(v.value)}")
            continue
        need(isinstance(v, ast.FormattedValue) and v.conversion == -1 and v.format_spec is None,
             f"{what}: plain {{expr}} field expected")
        src = ast.unparse(v.value)
        if src in ("sensor.sensor_id", "msg.node_id"):
            parts.append("PNode")
        elif src in ("child.id", "msg.child_id"):
            parts.append("PChild")
        elif src == "msg_type":
            parts.append("PType")
        else:
            m = MT_RE.match(src)
            need(m and m.group(1) in mt, f"{what}: unknown field expression {src}")
            parts.append(f"PConst ({mt[m.group(1)]})%Z")
    need(not node_only or not any(p in ("PChild", "PType") for p in parts),
         f"{what}: a per-node topic must not mention the child or the loop variable")
    return "[" + "; ".join(parts) + "]"


def type_tuple(node, mt, what):
    need(isinstance(node, ast.Tuple), f"{what}: tuple of message types expected")
    out = []
    for e in node.elts:
        m = MT_RE.match(ast.unparse(e))
        need(m and m.group(1) in mt, f"{what}: unexpected message type expression {ast.unparse(e)}")
        out.append(mt[m.group(1)])
    return out


def is_sub_call(st, arg):
    return (isinstance(st, ast.Expr) and
            ast.unparse(st.value) == f"self.tasks.transport.handle_subscription({arg})")


def gens(lc, expected, what):
    got = [(ast.unparse(g.target), ast.unparse(g.iter), len(g.ifs), g.is_async) for g in lc.generators]
    need(len(got) == len(expected), f"{what}: {len(expected)} generators expected")
    for (t, i, nifs, asy), (et, ei) in zip(got, expected):
        need(t == et and (ei is None or i == ei) and nifs == 0 and not asy, f"{what}: unexpected generator {t} in {i}")


def zlist(xs):
    return "[" + "; ".join(f"({x})%Z" for x in xs) + "]"


def do_init_topics(tree, mt, out):
    f = find_func(tree, "BaseMQTTGateway", "init_topics")
    st = body_stmts(f)
    need(len(st) == 6, f"init_topics: 6 statements expected, found {len(st)}")
    a, s1, iff, t1, ext, s2 = st
    need(isinstance(a, ast.Assign) and ast.unparse(a.targets[0]) == "init_topics" and isinstance(a.value, ast.List)
         and all(isinstance(e, ast.Constant) and isinstance(e.value, str) for e in a.value.elts),
         "init_topics: literal list of topics expected")
    need(is_sub_call(s1, "init_topics"), "init_topics: first subscription call")
    need(isinstance(iff, ast.If) and ast.unparse(iff.test) == "not self.tasks.persistence" and not iff.orelse
         and len(iff.body) == 1 and isinstance(iff.body[0], ast.Return) and iff.body[0].value is None,
         "init_topics: `if not self.tasks.persistence: return` expected")
    need(isinstance(t1, ast.Assign) and ast.unparse(t1.targets[0]) == "topics" and isinstance(t1.value, ast.ListComp),
         "init_topics: topics = [list comprehension]")
    lc = t1.value
    gens(lc, [("sensor", "self.sensors.values()"), ("child", "sensor.children.values()"), ("msg_type", None)], "init_topics")
    types = type_tuple(lc.generators[2].iter, mt, "init_topics")
    need(isinstance(ext, ast.Expr) and isinstance(ext.value, ast.Call) and ast.unparse(ext.value.func) == "topics.extend"
         and len(ext.value.args) == 1 and isinstance(ext.value.args[0], ast.ListComp) and not ext.value.keywords,
         "init_topics: topics.extend([list comprehension])")
    lc2 = ext.value.args[0]
    gens(lc2, [("sensor", "self.sensors.values()")], "init_topics(stream)")
    need(is_sub_call(s2, "topics"), "init_topics: second subscription call")
    out.append("Definition init_topic_literals : list pstr := [" + "; ".join(pstr(e.value) for e in a.value.elts) + "].")
    out.append("Definition init_child_tmpl : list part := " + template(lc.elt, mt, "init_topics child topic") + ".")
    out.append("Definition init_child_types : list Z := " + zlist(types) + ".")
    out.append("Definition init_node_tmpl : list part := " + template(lc2.elt, mt, "init_topics node topic", True) + ".")


def do_handle_presentation(tree, mt, out):
    f = find_func(tree, "BaseMQTTGateway", "_handle_presentation")
    st = body_stmts(f)
    need(len(st) == 5, f"_handle_presentation: 5 statements expected, found {len(st)}")
    a, iff, t1, app, s = st
    need(ast.unparse(a) == "ret_msg = handle_presentation(msg)", "_handle_presentation: ret_msg = handle_presentation(msg)")
    need(isinstance(iff, ast.If) and not iff.orelse and len(iff.body) == 1 and isinstance(iff.body[0], ast.Return)
         and iff.body[0].value is None and isinstance(iff.test, ast.BoolOp) and isinstance(iff.test.op, ast.Or)
         and len(iff.test.values) == 2, "_handle_presentation: `if <child test> or ret_msg is None: return`")
    c, r = iff.test.values
    need(ast.unparse(r) == "ret_msg is None", "_handle_presentation: ret_msg is None")
    need(isinstance(c, ast.Compare) and ast.unparse(c.left) == "msg.child_id" and len(c.ops) == 1
         and isinstance(c.ops[0], ast.Eq), "_handle_presentation: msg.child_id == <literal>")
    skip = int_const(c.comparators[0], "_handle_presentation child literal")
    need(isinstance(t1, ast.Assign) and ast.unparse(t1.targets[0]) == "topics" and isinstance(t1.value, ast.ListComp),
         "_handle_presentation: topics = [list comprehension]")
    gens(t1.value, [("msg_type", None)], "_handle_presentation")
    types = type_tuple(t1.value.generators[0].iter, mt, "_handle_presentation")
    need(isinstance(app, ast.Expr) and isinstance(app.value, ast.Call) and ast.unparse(app.value.func) == "topics.append"
         and len(app.value.args) == 1 and not app.value.keywords, "_handle_presentation: topics.append(f-string)")
    need(is_sub_call(s, "topics"), "_handle_presentation: subscription call")
    out.append(f"Definition pres_skip_child : Z := ({skip})%Z.")
    out.append("Definition pres_child_tmpl : list part := " + template(t1.value.elt, mt, "_handle_presentation child topic") + ".")
    out.append("Definition pres_child_types : list Z := " + zlist(types) + ".")
    out.append("Definition pres_node_tmpl : list part := " + template(app.value.args[0], mt, "_handle_presentation node topic", True) + ".")


def one(nodes, what):
    nodes = list(nodes)
    need(len(nodes) == 1, f"{what}: exactly one occurrence expected, found {len(nodes)}")
    return nodes[0]


def split_var(func, what):
    """Name of the local that receives <something>.split('/')."""
    a = one((n for n in ast.walk(func) if isinstance(n, ast.Assign) and isinstance(n.value, ast.Call)
             and isinstance(n.value.func, ast.Attribute) and n.value.func.attr == "split"
             and [ast.unparse(x) for x in n.value.args] == ["'/'"] and not n.value.keywords
             and len(n.targets) == 1 and isinstance(n.targets[0], ast.Name)), f"{what}: <levels> = <topic>.split('/')")
    return a.targets[0].id, a


def do_parse_mqtt(tree, out):
    f = find_func(tree, "BaseMQTTGateway", "parse_mqtt_to_message")
    lv, split_assign = split_var(f, "parse_mqtt_to_message")
    need(ast.unparse(split_assign.value.func.value) == f.args.args[1].arg, "parse_mqtt_to_message: the topic argument is split")
    cmp_ = one((n for n in ast.walk(f) if isinstance(n, ast.Compare) and isinstance(n.left, ast.Call)
                and ast.unparse(n.left.func) == "len"), "parse_mqtt_to_message: len() comparison")
    need(len(cmp_.ops) == 1 and isinstance(cmp_.ops[0], ast.Lt) and ast.unparse(cmp_.left) == f"len({lv})",
         "parse_mqtt_to_message: len(<levels>) < N")
    minlev = int_const(cmp_.comparators[0], "minimum number of levels")
    slices = [n for n in ast.walk(f) if isinstance(n, ast.Subscript) and isinstance(n.slice, ast.Slice)]
    need(len(slices) == 2 and all(s.slice.step is None and ast.unparse(s.value) == lv for s in slices),
         "parse_mqtt_to_message: two slices of <levels> expected")
    pre = one((s for s in slices if s.slice.lower is None and s.slice.upper is not None), "prefix slice [:k]")
    suf = one((s for s in slices if s.slice.upper is None and s.slice.lower is not None), "tail slice [k:]")
    need(any(isinstance(n, ast.Call) and ast.unparse(n.func) == "'/'.join" and n.args and n.args[0] is pre
             for n in ast.walk(f)), "parse_mqtt_to_message: prefix = '/'.join(<levels>[:k])")
    need(any(isinstance(n, ast.Assign) and n.value is suf and ast.unparse(n.targets[0]) == lv for n in ast.walk(f)),
         "parse_mqtt_to_message: <levels> = <levels>[k:]")
    idx = one((n for n in ast.walk(f) if isinstance(n, ast.Assign) and isinstance(n.targets[0], ast.Subscript)),
              "parse_mqtt_to_message: indexed assignment")
    need(ast.unparse(idx.targets[0].value) == lv, "parse_mqtt_to_message: <levels>[i] = <ack>")
    # order of the statements that matter: guard, prefix slice, tail slice, ack
    need(split_assign.lineno < cmp_.lineno < pre.lineno < suf.lineno < idx.lineno, "parse_mqtt_to_message: statement order changed")
    out.append(f"Definition min_levels : Z := ({minlev})%Z.")
    out.append(f"Definition slice_prefix : Z := ({int_const(pre.slice.upper, 'prefix slice')})%Z.")
    out.append(f"Definition slice_tail : Z := ({int_const(suf.slice.lower, 'tail slice')})%Z.")
    out.append(f"Definition ack_index : Z := ({int_const(idx.targets[0].slice, 'ack index')})%Z.")


def do_parse_message(tree, out):
    f = find_func(tree, "BaseMQTTGateway", "parse_message_to_mqtt")
    ret = one((n for n in ast.walk(f) if isinstance(n, ast.Return)), "parse_message_to_mqtt: return")
    need(isinstance(ret.value, ast.Tuple) and len(ret.value.elts) == 3, "parse_message_to_mqtt: 3-tuple returned")
    top = ret.value.elts[0]
    need(isinstance(top, ast.Subscript) and isinstance(top.slice, ast.Slice) and top.slice.lower is None
         and top.slice.step is None and top.slice.upper is not None and isinstance(top.value, ast.JoinedStr),
         "parse_message_to_mqtt: f-string[:k]")
    vals = top.value.values
    need(len(vals) == 2 and isinstance(vals[0], ast.Constant) and vals[0].value == "/"
         and isinstance(vals[1], ast.FormattedValue) and vals[1].conversion == -1 and vals[1].format_spec is None
         and ast.unparse(vals[1].value) == "msg.encode('/')",
         "parse_message_to_mqtt: f\"/{msg.encode('/')}\" expected, got " + ast.unparse(top.value))
    need(ast.unparse(ret.value.elts[1]) == "payload" and ast.unparse(ret.value.elts[2]) == "msg.ack",
         "parse_message_to_mqtt: (topic, payload, msg.ack)")
    out.append(f"Definition enc_trim : Z := ({int_const(top.slice.upper, 'encode trim')})%Z.")


EXN_CLASSES = None


def exn_classes():
    global EXN_CLASSES
    if EXN_CLASSES is None:
        import binascii
        import pickle
        import struct
        import voluptuous as vol

        class _Other(Exception):
            pass

        EXN_CLASSES = [("ValueError", ValueError), ("KeyError", KeyError), ("IndexError", IndexError),
                       ("AttributeError", AttributeError), ("TypeError", TypeError), ("StructError", struct.error),
                       ("BinasciiError", binascii.Error), ("VolInvalid", vol.Invalid), ("OSError", OSError),
                       ("EOFError", EOFError), ("UnpicklingError", pickle.UnpicklingError),
                       ("RuntimeError", RuntimeError), ("OtherError", _Other)]
    return EXN_CLASSES


def caught_pred(name, handler_type, what):
    need(handler_type is not None, f"{what}: bare except")
    elts = handler_type.elts if isinstance(handler_type, ast.Tuple) else [handler_type]
    classes = []
    for e in elts:
        need(isinstance(e, ast.Name), f"{what}: exception class must be a builtin name")
        cls = getattr(builtins, e.id, None)
        need(isinstance(cls, type) and issubclass(cls, BaseException), f"{what}: {e.id} is not a builtin exception")
        classes.append(cls)
    arms = " | ".join(f"{n} => {'true' if issubclass(c, tuple(classes)) else 'false'}" for n, c in exn_classes())
    return (f"(* except {', '.join(c.__name__ for c in classes)} *)\n"
            f"Definition {name} (e : exn) : bool := match e with {arms} end.")


def try_with(func, needle, what):
    tries = [n for n in ast.walk(func) if isinstance(n, ast.Try)
             and any(needle in ast.unparse(s) for s in n.body)]
    t = one(tries, what)
    need(len(t.handlers) == 1 and not t.orelse and not t.finalbody, f"{what}: one except clause, no else/finally")
    need(not any(isinstance(n, ast.Raise) for h in t.handlers for n in ast.walk(h)), f"{what}: handler re-raises")
    return t


def do_transport(tree, out):
    send = find_func(tree, "MQTTTransport", "send")
    t1 = try_with(send, "self.gateway.parse_message_to_mqtt(", "send: try around parse_message_to_mqtt")
    need(isinstance(t1.handlers[0].body[-1], ast.Return), "send: the parse handler must return")
    t2 = try_with(send, "self._pub_callback(", "send: try around the publish callback")
    hs = find_func(tree, "MQTTTransport", "handle_subscription")
    lv, _ = split_var(hs, "handle_subscription")
    t3 = try_with(hs, f"int({lv}[", "handle_subscription: try around int()")
    sub = one((n for s in t3.body for n in ast.walk(s) if isinstance(n, ast.Subscript)
               and ast.unparse(n.value) == lv), "handle_subscription: <levels>[k]")
    t4 = try_with(hs, "self._sub_callback(", "handle_subscription: try around the subscribe callback")
    out.append(caught_pred("send_parse_caught", t1.handlers[0].type, "send/parse"))
    out.append(caught_pred("pub_caught", t2.handlers[0].type, "send/publish"))
    out.append(caught_pred("sub_int_caught", t3.handlers[0].type, "handle_subscription/int"))
    out.append(f"Definition sub_qos_index : Z := ({int_const(sub.slice, 'qos level index')})%Z.")
    out.append(caught_pred("sub_caught", t4.handlers[0].type, "handle_subscription/subscribe"))


def generate():
    path = core.REPO / "mysensors" / "gateway_mqtt.py"
    tree = ast.parse(path.read_text())
    from mysensors.const import SYSTEM_CHILD_ID

    need(type(SYSTEM_CHILD_ID) is int, "SYSTEM_CHILD_ID is not an int")
    mt = msgtype_values()
    out = [
        "(* GENERATED by harness/translate/mqtt_consts.py from mysensors/gateway_mqtt.py - do not edit *)",
        "From Coq Require Import List NArith ZArith Bool.",
        "From PMS Require Import Base.PyStr Base.Exn.",
        "Import ListNotations.",
        "Open Scope N_scope.",
        "",
        "(* pieces of the topic f-strings *)",
        "Inductive part := PLit (s : pstr) | PNode | PChild | PType | PConst (z : Z).",
        "",
        f"Definition system_child_id : Z := ({SYSTEM_CHILD_ID})%Z.",
    ]
    do_init_topics(tree, mt, out)
    do_handle_presentation(tree, mt, out)
    do_parse_mqtt(tree, out)
    do_parse_message(tree, out)
    do_transport(tree, out)
    return "\n".join(out) + "\n"
