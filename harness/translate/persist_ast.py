"""Generate Gen/PersistAst.v: the shape of the persistence file-format code, read from the AST
of the working tree's mysensors/persistence.py, mysensors/sensor.py and mysensors/validation.py
(C11).  Everything is emitted as plain data (strings = pstr, lists, numbers); the hand-written
model Model/Persist.v is compared with it by `reflexivity` lemmas (Proofs/PersistProofs.v,
`src_*`), so a change of the source breaks a NAMED lemma and the tie then searches for the
concrete input.

Emitted:
  * gen_enc_sensor / gen_enc_child: (JSON key, attribute read from `o`) of the two dict
    literals of MySensorsJSONEncoder.default, in source order; gen_enc_shape: the isinstance
    tests in source order and the fall-through;
  * gen_hook: the (test, action) branches of MySensorsJSONDecoder.dict_to_object in SOURCE
    ORDER, each recognised by an exact AST form: not-a-dict / "sensor_id" in obj / all of
    ["id","type","values"] in obj / all keys isdigit / final return; the key names are data;
  * gen_decoder_hook: how the decoder installs the hook (object_hook=self.dict_to_object);
  * gen_io: the forms of _save_json/_load_json/_save_pickle/_load_pickle (what is dumped,
    with which encoder/decoder class, `self._sensors.update(...)`);
  * gen_sensor_init / gen_child_init: (attribute, default as source text) of Sensor.__init__ /
    ChildSensor.__init__ in source order; gen_child_sig: ChildSensor.__init__ parameter defaults;
  * gen_setters: (property, stored attribute, validator) of every @x.setter of Sensor;
    gen_readonly_props: properties without a setter;
  * gen_getstate_attrs: the attribute tuple of Sensor.__getstate__ (the rest of the body is
    matched exactly); gen_setstate_resets: (attribute, value text) of the reset statements of
    Sensor.__setstate__ in order; gen_setstate_default: ("_heartbeat","heartbeat","0");
    gen_child_setstate_default: ("description", "''");
  * gen_validators: the fall-back values and the range of is_battery_level / is_heartbeat /
    safe_is_version (is_version itself is an oracle: only `value = str(value)` ... `return value`
    is required of it);
  * isdigit_ranges: the code points with str.isdigit() (swept over all 1 114 112 code points),
    and a cross-check that ASCII 0-9 are among them.

Fail closed: any statement that is not one of the recognised forms raises TranslateError.
"""
import ast
import sys
import unicodedata

from harness import core

TARGET = "PersistAst.v"


class TranslateError(Exception):
    pass


def _fail(where, node):
    what = ast.dump(node)[:200] if isinstance(node, ast.AST) else str(node)
    raise TranslateError(f"{where}: unexpected construct at line {getattr(node, 'lineno', '?')}: {what}")


def _strip_doc(body):
    if body and isinstance(body[0], ast.Expr) and isinstance(body[0].value, ast.Constant) \
            and isinstance(body[0].value.value, str):
        return body[1:]
    return body


def _cls(tree, name):
    for n in tree.body:
        if isinstance(n, ast.ClassDef) and n.name == name:
            return n
    raise TranslateError(f"class {name} not found")


def _funcs(parent, name):
    return [n for n in parent.body if isinstance(n, ast.FunctionDef) and n.name == name]


def _func(parent, name):
    fs = _funcs(parent, name)
    if len(fs) != 1:
        raise TranslateError(f"{getattr(parent, 'name', 'module')}.{name}: expected exactly one definition, found {len(fs)}")
    return fs[0]


def _same(node, snippet, mode="exec"):
    """node (a statement, expression or list of statements) has exactly the AST of `snippet`."""
    want = ast.parse(snippet, mode="exec").body
    if isinstance(node, list):
        got = node
    elif isinstance(node, ast.expr):
        got = [ast.Expr(node)]
    else:
        got = [node]
    return [ast.dump(x) for x in got] == [ast.dump(x) for x in want]


def _need(node, snippet, where):
    if not _same(node, snippet):
        _fail(f"{where} (expected `{snippet.strip()}`)", node[0] if isinstance(node, list) and node else node)


def _const_str(node, where):
    if isinstance(node, ast.Constant) and isinstance(node.value, str):
        return node.value
    _fail(where, node)


# ---------------------------------------------------------------- persistence.py

def encoder_facts(tree):
    cls = _cls(tree, "MySensorsJSONEncoder")
    if [ast.unparse(b) for b in cls.bases] != ["json.JSONEncoder"]:
        _fail("MySensorsJSONEncoder bases", cls)
    extra = [n.name for n in cls.body if isinstance(n, ast.FunctionDef) and n.name != "default"]
    if extra:
        raise TranslateError(f"MySensorsJSONEncoder defines further methods: {extra}")
    fn = _func(cls, "default")
    if [a.arg for a in fn.args.args] != ["self", "o"]:
        _fail("default signature", fn)
    body = _strip_doc(fn.body)
    shape = []
    dicts = {}
    for st in body[:-1]:
        if not (isinstance(st, ast.If) and not st.orelse and len(st.body) == 1 and isinstance(st.body[0], ast.Return)):
            _fail("MySensorsJSONEncoder.default statement", st)
        t = st.test
        if not (isinstance(t, ast.Call) and ast.unparse(t.func) == "isinstance" and len(t.args) == 2
                and ast.unparse(t.args[0]) == "o" and isinstance(t.args[1], ast.Name) and not t.keywords):
            _fail("MySensorsJSONEncoder.default test", t)
        cname = t.args[1].id
        d = st.body[0].value
        if not isinstance(d, ast.Dict):
            _fail("MySensorsJSONEncoder.default return value", d)
        pairs = []
        for k, v in zip(d.keys, d.values):
            if k is None:
                _fail("dict unpacking in encoder literal", d)
            key = _const_str(k, "encoder dict key")
            if not (isinstance(v, ast.Attribute) and isinstance(v.value, ast.Name) and v.value.id == "o"):
                _fail("encoder dict value (expected o.<attr>)", v)
            pairs.append((key, v.attr))
        if cname in dicts:
            raise TranslateError(f"two encoder branches for {cname}")
        dicts[cname] = pairs
        shape.append(cname)
    _need(body[-1], "return json.JSONEncoder.default(self, o)", "MySensorsJSONEncoder.default last statement")
    shape.append("super().default")
    if set(dicts) != {"Sensor", "ChildSensor"}:
        raise TranslateError(f"encoder branches for {sorted(dicts)}")
    return dicts["Sensor"], dicts["ChildSensor"], shape


HOOK_TESTS = [
    ("not_dict", "not isinstance(obj, dict)"),
    ("has_sensor_id", "'sensor_id' in obj"),
    ("all_isdigit", "all(k.isdigit() for k in obj.keys())"),
]
HOOK_BODIES = [
    ("return_obj", "return obj"),
    ("int_keys", "return {int(k): v for k, v in obj.items()}"),
]


def hook_facts(tree):
    cls = _cls(tree, "MySensorsJSONDecoder")
    if [ast.unparse(b) for b in cls.bases] != ["json.JSONDecoder"]:
        _fail("MySensorsJSONDecoder bases", cls)
    extra = [n.name for n in cls.body if isinstance(n, ast.FunctionDef) and n.name not in ("__init__", "dict_to_object")]
    if extra:
        raise TranslateError(f"MySensorsJSONDecoder defines further methods: {extra}")
    init = _func(cls, "__init__")
    _need(_strip_doc(init.body), "json.JSONDecoder.__init__(self, object_hook=self.dict_to_object)",
          "MySensorsJSONDecoder.__init__")
    fn = _func(cls, "dict_to_object")
    if [a.arg for a in fn.args.args] != ["self", "obj"] or fn.decorator_list:
        _fail("dict_to_object signature", fn)
    body = _strip_doc(fn.body)
    branches = []
    for st in body[:-1]:
        if not (isinstance(st, ast.If) and not st.orelse):
            _fail("dict_to_object statement", st)
        branches.append((hook_test(st.test), hook_body(st.body)))
    if not _same(body[-1], "return obj"):
        _fail("dict_to_object last statement", body[-1])
    branches.append((("else", []), ("return_obj", [])))
    return branches


def hook_test(t):
    for name, src in HOOK_TESTS:
        if _same(t, src):
            return name, []
    # all(k in obj for k in [<consts>])
    if (isinstance(t, ast.Call) and ast.unparse(t.func) == "all" and len(t.args) == 1 and not t.keywords
            and isinstance(t.args[0], ast.GeneratorExp)):
        g = t.args[0]
        if (len(g.generators) == 1 and not g.generators[0].ifs and ast.unparse(g.generators[0].target) == "k"
                and ast.unparse(g.elt) == "k in obj" and isinstance(g.generators[0].iter, (ast.List, ast.Tuple))):
            return "all_in", [_const_str(e, "dict_to_object key list") for e in g.generators[0].iter.elts]
    _fail("dict_to_object test", t)


def hook_body(b):
    for name, src in HOOK_BODIES:
        if _same(b, src):
            return name, []
    # sensor = Sensor(obj[K]); for key, val in obj.items(): setattr(sensor, key, val); return sensor
    if len(b) == 3 and isinstance(b[0], ast.Assign) and isinstance(b[0].value, ast.Call) \
            and ast.unparse(b[0].value.func) == "Sensor" and len(b[0].value.args) == 1 \
            and isinstance(b[0].value.args[0], ast.Subscript):
        k = _const_str(b[0].value.args[0].slice, "Sensor(obj[...]) key")
        _need(b, f"sensor = Sensor(obj[{k!r}])\nfor key, val in obj.items():\n    setattr(sensor, key, val)\nreturn sensor",
              "dict_to_object Sensor branch")
        return "make_sensor", [k]
    # child = ChildSensor(obj[A], obj[B], obj.get(C, D)); child.values = obj[E]; return child
    if len(b) == 3 and isinstance(b[0], ast.Assign) and isinstance(b[0].value, ast.Call) \
            and ast.unparse(b[0].value.func) == "ChildSensor":
        call = b[0].value
        if len(call.args) != 3 or call.keywords:
            _fail("ChildSensor(...) call", call)
        a0, a1, a2 = call.args
        if not (isinstance(a0, ast.Subscript) and isinstance(a1, ast.Subscript) and isinstance(a2, ast.Call)
                and len(a2.args) == 2):
            _fail("ChildSensor(...) arguments", call)
        ka = _const_str(a0.slice, "ChildSensor id key")
        kb = _const_str(a1.slice, "ChildSensor type key")
        kc = _const_str(a2.args[0], "ChildSensor description key")
        kd = _const_str(a2.args[1], "ChildSensor description default")
        if not (isinstance(b[1], ast.Assign) and len(b[1].targets) == 1 and isinstance(b[1].targets[0], ast.Attribute)
                and isinstance(b[1].value, ast.Subscript)):
            _fail("child.<attr> = obj[...]", b[1])
        attr = b[1].targets[0].attr
        ke = _const_str(b[1].value.slice, "child values key")
        _need(b, f"child = ChildSensor(obj[{ka!r}], obj[{kb!r}], obj.get({kc!r}, {kd!r}))\n"
                 f"child.{attr} = obj[{ke!r}]\nreturn child", "dict_to_object ChildSensor branch")
        return "make_child", [ka, kb, kc, kd, attr, ke]
    _fail("dict_to_object branch body", b[0])


def io_facts(tree):
    cls = _cls(tree, "Persistence")
    out = []
    forms = {
        "_save_json": ("with open(filename, 'w', encoding='utf-8') as file_handle:\n"
                       "    json.dump(self._sensors, file_handle, cls=MySensorsJSONEncoder, indent=4)\n"
                       "    file_handle.flush()\n    os.fsync(file_handle.fileno())",
                       "json.dump(self._sensors, cls=MySensorsJSONEncoder)"),
        "_load_json": ("with open(filename, 'r', encoding='utf-8') as file_handle:\n"
                       "    self._sensors.update(json.load(file_handle, cls=MySensorsJSONDecoder))",
                       "self._sensors.update(json.load(cls=MySensorsJSONDecoder))"),
        "_save_pickle": ("with open(filename, 'wb') as file_handle:\n"
                         "    pickle.dump(self._sensors, file_handle, pickle.HIGHEST_PROTOCOL)\n"
                         "    file_handle.flush()\n    os.fsync(file_handle.fileno())",
                         "pickle.dump(self._sensors)"),
        "_load_pickle": ("with open(filename, 'rb') as file_handle:\n"
                         "    self._sensors.update(pickle.load(file_handle))",
                         "self._sensors.update(pickle.load())"),
    }
    for name, (src, fact) in forms.items():
        fn = _func(cls, name)
        body = _strip_doc(fn.body)
        if not _same(body, src):
            # tolerate additional flush/fsync-like statements? no: fail closed
            _fail(f"Persistence.{name}", body[0] if body else fn)
        out.append((name, fact))
    return out


# ---------------------------------------------------------------- sensor.py

def init_attrs(fn, where):
    out = []
    for st in _strip_doc(fn.body):
        if not (isinstance(st, ast.Assign) and len(st.targets) == 1 and isinstance(st.targets[0], ast.Attribute)
                and isinstance(st.targets[0].value, ast.Name) and st.targets[0].value.id == "self"):
            _fail(f"{where} statement (expected self.<attr> = <default>)", st)
        out.append((st.targets[0].attr, ast.unparse(st.value)))
    return out


def sensor_facts(tree):
    cls = _cls(tree, "Sensor")
    if cls.bases or cls.keywords or cls.decorator_list:
        _fail("class Sensor header", cls)
    for n in cls.body:
        if isinstance(n, ast.FunctionDef) and n.name in ("__setattr__", "__getattr__", "__getattribute__",
                                                         "__reduce__", "__reduce_ex__", "__new__", "__slots__",
                                                         "__getnewargs__", "__getnewargs_ex__"):
            raise TranslateError(f"Sensor defines {n.name}: attribute/pickle protocol not modelled")
        if isinstance(n, (ast.Assign, ast.AnnAssign)):
            _fail("class-level assignment in Sensor", n)
    init = _func(cls, "__init__")
    if [a.arg for a in init.args.args] != ["self", "sensor_id"] or init.args.defaults:
        _fail("Sensor.__init__ signature", init)
    s_init = init_attrs(init, "Sensor.__init__")
    # properties
    getters, setters = {}, {}
    for n in cls.body:
        if not isinstance(n, ast.FunctionDef) or not n.decorator_list:
            continue
        if len(n.decorator_list) != 1:
            _fail("decorators", n)
        d = ast.unparse(n.decorator_list[0])
        if d == "property":
            getters[n.name] = n
        elif d == f"{n.name}.setter":
            body = _strip_doc(n.body)
            if not (len(body) == 1 and isinstance(body[0], ast.Assign) and len(body[0].targets) == 1
                    and isinstance(body[0].value, ast.Call) and isinstance(body[0].value.func, ast.Name)
                    and len(body[0].value.args) == 1 and ast.unparse(body[0].value.args[0]) == "value"
                    and isinstance(body[0].targets[0], ast.Attribute) and ast.unparse(body[0].targets[0].value) == "self"
                    and [a.arg for a in n.args.args] == ["self", "value"]):
                _fail(f"setter {n.name}", n)
            setters[n.name] = (body[0].targets[0].attr, body[0].value.func.id)
        else:
            _fail("decorator", n.decorator_list[0])
    for name, (attr, _) in setters.items():
        if name not in getters:
            raise TranslateError(f"setter {name} without property")
        _need(_strip_doc(getters[name].body), f"return self.{attr}", f"property {name}")
    setter_list = [(name, setters[name][0], setters[name][1])
                   for name in [n.name for n in cls.body if isinstance(n, ast.FunctionDef) and n.name in setters
                                and ast.unparse(n.decorator_list[0]) == "property"]]
    readonly = [n.name for n in cls.body if isinstance(n, ast.FunctionDef) and n.name in getters and n.name not in setters]
    # __getstate__
    gs = _func(cls, "__getstate__")
    body = _strip_doc(gs.body)
    if not (len(body) == 3 and isinstance(body[1], ast.For) and isinstance(body[1].iter, (ast.Tuple, ast.List))):
        _fail("Sensor.__getstate__", gs)
    attrs = [_const_str(e, "__getstate__ attribute tuple") for e in body[1].iter.elts]
    _need(body, "state = self.__dict__.copy()\n"
                f"for attr in {tuple(attrs)!r}:\n"
                "    value = state.pop(attr, None)\n    prop = attr\n"
                "    if prop.startswith('_'):\n        prop = prop[1:]\n"
                "    if value is not None:\n        state[prop] = value\n"
                "return state", "Sensor.__getstate__")
    # __setstate__
    ss = _func(cls, "__setstate__")
    if [a.arg for a in ss.args.args] != ["self", "state"]:
        _fail("Sensor.__setstate__ signature", ss)
    body = _strip_doc(ss.body)
    if not body:
        _fail("Sensor.__setstate__", ss)
    _need(body[0], "for key, val in state.items():\n    setattr(self, key, val)", "Sensor.__setstate__ restore loop")
    resets = []
    k = 1
    while k < len(body) and isinstance(body[k], ast.Assign):
        st = body[k]
        if not (len(st.targets) == 1 and isinstance(st.targets[0], ast.Attribute) and ast.unparse(st.targets[0].value) == "self"):
            _fail("Sensor.__setstate__ reset", st)
        resets.append((st.targets[0].attr, ast.unparse(st.value)))
        k += 1
    rest = body[k:]
    default = None
    if rest:
        if not (len(rest) == 1 and isinstance(rest[0], ast.If) and not rest[0].orelse and len(rest[0].body) == 1
                and isinstance(rest[0].test, ast.Compare) and len(rest[0].test.ops) == 1
                and isinstance(rest[0].test.ops[0], ast.NotIn)
                and ast.unparse(rest[0].test.comparators[0]) == "self.__dict__"
                and isinstance(rest[0].body[0], ast.Assign) and len(rest[0].body[0].targets) == 1
                and isinstance(rest[0].body[0].targets[0], ast.Attribute)
                and ast.unparse(rest[0].body[0].targets[0].value) == "self"):
            _fail("Sensor.__setstate__ tail", rest[0])
        default = (_const_str(rest[0].test.left, "__setstate__ default test"),
                   rest[0].body[0].targets[0].attr, ast.unparse(rest[0].body[0].value))
    else:
        default = ("", "", "")
    return s_init, setter_list, readonly, attrs, resets, default


def child_facts(tree):
    cls = _cls(tree, "ChildSensor")
    if cls.bases or cls.keywords or cls.decorator_list:
        _fail("class ChildSensor header", cls)
    for n in cls.body:
        if isinstance(n, ast.FunctionDef) and n.name in ("__setattr__", "__getattr__", "__getattribute__", "__getstate__",
                                                         "__reduce__", "__reduce_ex__", "__new__", "__slots__"):
            raise TranslateError(f"ChildSensor defines {n.name}: attribute/pickle protocol not modelled")
        if isinstance(n, ast.FunctionDef) and n.decorator_list:
            _fail("decorated method in ChildSensor (properties are not modelled there)", n)
    init = _func(cls, "__init__")
    params = [a.arg for a in init.args.args]
    if params != ["self", "child_id", "child_type", "description"] or len(init.args.defaults) != 1:
        _fail("ChildSensor.__init__ signature", init)
    sig = [("description", ast.unparse(init.args.defaults[0]))]
    c_init = init_attrs(init, "ChildSensor.__init__")
    ss = _func(cls, "__setstate__")
    body = _strip_doc(ss.body)
    if not (len(body) == 2 and isinstance(body[1], ast.If) and isinstance(body[1].test, ast.Compare)
            and len(body[1].body) == 1 and isinstance(body[1].body[0], ast.Assign)
            and isinstance(body[1].body[0].targets[0], ast.Attribute)):
        _fail("ChildSensor.__setstate__", ss)
    key = _const_str(body[1].test.left, "ChildSensor.__setstate__ test")
    attr = body[1].body[0].targets[0].attr
    val = ast.unparse(body[1].body[0].value)
    _need(body, f"self.__dict__.update(state)\nif {key!r} not in self.__dict__:\n    self.{attr} = {val}",
          "ChildSensor.__setstate__")
    return c_init, sig, (key, attr, val)


# ---------------------------------------------------------------- validation.py

def validator_facts(tree):
    mod = tree
    out = []
    # percent_int = vol.All(vol.Coerce(int), vol.Range(min=A, max=B))
    pi = [n for n in mod.body if isinstance(n, ast.Assign) and ast.unparse(n.targets[0]) == "percent_int"]
    if len(pi) != 1:
        raise TranslateError("percent_int not found")
    call = pi[0].value
    if not (isinstance(call, ast.Call) and ast.unparse(call.func) == "vol.All" and len(call.args) == 2
            and ast.unparse(call.args[0]) == "vol.Coerce(int)" and isinstance(call.args[1], ast.Call)
            and ast.unparse(call.args[1].func) == "vol.Range" and not call.args[1].args
            and sorted(k.arg for k in call.args[1].keywords) == ["max", "min"]):
        _fail("percent_int", pi[0])
    rng = {k.arg: k.value for k in call.args[1].keywords}
    for v in rng.values():
        if not (isinstance(v, ast.Constant) and type(v.value) is int):
            _fail("percent_int bound", v)
    out.append(("percent_int", str(rng["min"].value), str(rng["max"].value)))

    def safe_form(name, inner, returns_inner_directly):
        fn = _func(mod, name)
        body = _strip_doc(fn.body)
        if not (len(body) == 1 and isinstance(body[0], ast.Try) and len(body[0].handlers) == 1
                and not body[0].orelse and not body[0].finalbody
                and ast.unparse(body[0].handlers[0].type) == "vol.Invalid"):
            _fail(name, fn)
        tb = body[0].body
        if returns_inner_directly:
            _need(tb, f"return {inner}(value)", name)
        else:
            _need(tb, f"value = {inner}(value)\nreturn value", name)
        hb = body[0].handlers[0].body
        if not (len(hb) == 2 and isinstance(hb[0], ast.Expr) and isinstance(hb[0].value, ast.Call)
                and ast.unparse(hb[0].value.func) == "_LOGGER.warning" and isinstance(hb[1], ast.Return)
                and isinstance(hb[1].value, ast.Constant)):
            _fail(f"{name} handler", hb[0])
        return repr(hb[1].value.value)

    out.append(("is_battery_level", "percent_int", safe_form("is_battery_level", "percent_int", False)))
    out.append(("is_heartbeat", "vol.Coerce(int)", safe_form("is_heartbeat", "vol.Coerce(int)", False)))
    out.append(("safe_is_version", "is_version", safe_form("safe_is_version", "is_version", True)))
    # is_version: oracle, except that it works on str(value) and returns that string
    fn = _func(mod, "is_version")
    body = _strip_doc(fn.body)
    if not (len(body) == 1 and isinstance(body[0], ast.Try) and len(body[0].handlers) == 1
            and not body[0].orelse and not body[0].finalbody):
        _fail("is_version", fn)
    tb = body[0].body
    _need(tb[0], "value = str(value)", "is_version first statement")
    _need(tb[-1], "return value", "is_version last statement")
    for n in ast.walk(ast.Module(body=tb[1:], type_ignores=[])):
        if isinstance(n, (ast.Assign, ast.AugAssign, ast.NamedExpr, ast.AnnAssign)):
            tg = n.targets if isinstance(n, ast.Assign) else [n.target]
            if any("value" == ast.unparse(t) for t in tg):
                _fail("is_version re-assigns value", n)
        if isinstance(n, ast.Return) and n is not tb[-1]:
            _fail("is_version second return", n)
    h = body[0].handlers[0]
    if not (len(h.body) == 1 and isinstance(h.body[0], ast.Raise) and ast.unparse(h.body[0].exc.func) == "vol.Invalid"):
        _fail("is_version handler", h)
    out.append(("is_version", "str(value)", "oracle"))
    return out


# ---------------------------------------------------------------- str.isdigit

def isdigit_ranges():
    cps = [c for c in range(sys.maxunicode + 1) if chr(c).isdigit()]
    for c in range(48, 58):
        if c not in cps:
            raise TranslateError("ASCII digit without isdigit()")
    # int() accepts exactly the decimal (Nd) ones among them: cross-check on every isdigit code point
    for c in cps:
        try:
            ok = int(chr(c)) == unicodedata.decimal(chr(c))
        except ValueError:
            ok = unicodedata.decimal(chr(c), None) is None
        if not ok:
            raise TranslateError(f"int() and unicodedata.decimal disagree on {c:#x}")
    out = []
    for c in cps:
        if out and out[-1][1] + 1 == c:
            out[-1][1] = c
        else:
            out.append([c, c])
    return out


# ---------------------------------------------------------------- rendering

def pstr(s):
    return "[" + "; ".join(str(ord(c)) for c in s) + "]"


def plist(l):
    return "[" + "; ".join(l) + "]"


def tup(*items):
    return "(" + ", ".join(items) + ")"


def generate():
    root = core.REPO / "mysensors"
    pt = ast.parse((root / "persistence.py").read_text())
    st = ast.parse((root / "sensor.py").read_text())
    vt = ast.parse((root / "validation.py").read_text())
    enc_s, enc_c, enc_shape = encoder_facts(pt)
    hook = hook_facts(pt)
    io = io_facts(pt)
    s_init, setters, readonly, gs_attrs, resets, ss_default = sensor_facts(st)
    c_init, c_sig, c_default = child_facts(st)
    vals = validator_facts(vt)
    dig = isdigit_ranges()

    def pairs(l):
        return plist([tup(pstr(a), pstr(b)) for a, b in l])

    def triples(l):
        return plist([tup(pstr(a), pstr(b), pstr(c)) for a, b, c in l])

    def comment(l):
        return " ".join(repr(x) for x in l).replace("(*", "( *").replace("*)", "* )")

    lines = [
        "(* GENERATED by harness/translate/persist_ast.py from mysensors/persistence.py, sensor.py,",
        f"   validation.py of the working tree (CPython {sys.version.split()[0]}, Unicode {unicodedata.unidata_version}). Do not edit. *)",
        "From Coq Require Import List NArith.",
        "Import ListNotations.",
        "Open Scope N_scope.",
        "",
        "Definition gstr := list N.",
        "",
        f"(* {comment(enc_s)} *)",
        f"Definition gen_enc_sensor : list (gstr * gstr) := {pairs(enc_s)}.",
        f"(* {comment(enc_c)} *)",
        f"Definition gen_enc_child : list (gstr * gstr) := {pairs(enc_c)}.",
        f"(* {comment(enc_shape)} *)",
        f"Definition gen_enc_shape : list gstr := {plist([pstr(x) for x in enc_shape])}.",
        "",
        f"(* {comment(hook)} *)",
        "Definition gen_hook : list ((gstr * list gstr) * (gstr * list gstr)) := "
        + plist([tup(tup(pstr(t), plist([pstr(x) for x in ta])), tup(pstr(b), plist([pstr(x) for x in ba])))
                 for (t, ta), (b, ba) in hook]) + ".",
        "",
        f"(* {comment(io)} *)",
        f"Definition gen_io : list (gstr * gstr) := {pairs(io)}.",
        "",
        f"(* {comment(s_init)} *)",
        f"Definition gen_sensor_init : list (gstr * gstr) := {pairs(s_init)}.",
        f"(* {comment(setters)} *)",
        f"Definition gen_setters : list (gstr * gstr * gstr) := {triples(setters)}.",
        f"(* {comment(readonly)} *)",
        f"Definition gen_readonly_props : list gstr := {plist([pstr(x) for x in readonly])}.",
        f"(* {comment(gs_attrs)} *)",
        f"Definition gen_getstate_attrs : list gstr := {plist([pstr(x) for x in gs_attrs])}.",
        f"(* {comment(resets)} *)",
        f"Definition gen_setstate_resets : list (gstr * gstr) := {pairs(resets)}.",
        f"(* {comment(ss_default)} *)",
        f"Definition gen_setstate_default : gstr * gstr * gstr := {tup(*[pstr(x) for x in ss_default])}.",
        "",
        f"(* {comment(c_init)} *)",
        f"Definition gen_child_init : list (gstr * gstr) := {pairs(c_init)}.",
        f"(* {comment(c_sig)} *)",
        f"Definition gen_child_sig : list (gstr * gstr) := {pairs(c_sig)}.",
        f"(* {comment(c_default)} *)",
        f"Definition gen_child_setstate_default : gstr * gstr * gstr := {tup(*[pstr(x) for x in c_default])}.",
        "",
        f"(* {comment(vals)} *)",
        f"Definition gen_validators : list (gstr * gstr * gstr) := {triples(vals)}.",
        "",
        "(* code points c with chr(c).isdigit() *)",
        "Definition isdigit_ranges : list (N * N) := " + plist([f"({a}, {b})" for a, b in dig]) + ".",
        "",
    ]
    return "\n".join(lines)


if __name__ == "__main__":
    sys.stdout.write(generate())
