"""Translator: mysensors/persistence.py (AST of the current working tree) -> Gen/SaveTrace.v.

Renders, in source order and fail-closed:
  * save_sensors with _save_json / _save_pickle inlined  -> save_prog_json / save_prog_pickle : list sinstr
    (guards `if exists:`, the try whose handler restores need_save, the with block);
  * _load_sensors                                        -> load_prog : list slinstr
  * _load_json / _load_pickle must be `with open(f, "r.."): self._sensors.update(<mod>.load(fh ...))`
    (decode completely, then one update) - anything else is refused;
  * safe_load_sensors                                    -> safe_load_prog : safe_load_shape (two caught tuples,
    fallback file, body of the second handler);
  * class_mro: MRO (qualified names) of the caught classes and of the usual decoder failure classes, read from
    the live classes.
Anything not recognised raises Unexpected (the check then treats the tie as broken and searches)."""
import ast
import builtins
import hashlib
import importlib

from harness import core

TARGET = "SaveTrace.v"


class Unexpected(Exception):
    pass


def U(node, why=""):
    txt = ast.unparse(node) if isinstance(node, ast.AST) else str(node)
    raise Unexpected(f"{why or 'unexpected construct'}: {txt[:160]!r}")


def src(node):
    return ast.unparse(node)


def qualname(c):
    return c.__qualname__ if c.__module__ == "builtins" else f"{c.__module__}.{c.__qualname__}"


def strip_doc(body):
    if body and isinstance(body[0], ast.Expr) and isinstance(body[0].value, ast.Constant) and isinstance(body[0].value.value, str):
        return body[1:]
    return body


def is_log(st):
    return (isinstance(st, ast.Expr) and isinstance(st.value, ast.Call)
            and isinstance(st.value.func, ast.Attribute) and src(st.value.func.value) == "_LOGGER")


NAME_COQ = {"Main": "Main", "Bak": "Bak", "Tmp": "Tmp"}


class Tr:
    def __init__(self):
        path = core.REPO / "mysensors" / "persistence.py"
        self.text = path.read_text()
        self.tree = ast.parse(self.text)
        cls = [n for n in self.tree.body if isinstance(n, ast.ClassDef) and n.name == "Persistence"]
        if len(cls) != 1:
            U("class Persistence", "missing")
        self.funcs = {n.name: n for n in cls[0].body if isinstance(n, ast.FunctionDef)}
        for need in ["__init__", "save_sensors", "_save_json", "_save_pickle", "_load_json", "_load_pickle",
                     "_load_sensors", "safe_load_sensors", "_perform_file_action"]:
            if need not in self.funcs:
                U(need, "method missing")
        self.mod_imports = {}
        for n in self.tree.body:
            if isinstance(n, ast.Import):
                for a in n.names:
                    self.mod_imports[a.asname or a.name] = a.name
        self.unwrap_save_lock()
        self.check_init()
        self.check_dispatch()

    def unwrap_save_lock(self):
        """`save_sensors` may be exactly `with self.<lock>: self._save_sensors()` where <lock> is a threading.Lock /
        RLock created in __init__ (mutual exclusion of saves: no effect on the sequence of file operations of ONE
        save, which is what is translated).  The translated function is then `_save_sensors`."""
        f = self.funcs["save_sensors"]
        body = strip_doc(f.body)
        if not (len(body) == 1 and isinstance(body[0], ast.With)):
            return
        w = body[0]
        if len(w.items) != 1 or w.items[0].optional_vars is not None:
            U(w, "with statement of save_sensors")
        lock = src(w.items[0].context_expr)
        init = [src(x) for x in strip_doc(self.funcs["__init__"].body)]
        if not any(x in (f"{lock} = threading.Lock()", f"{lock} = threading.RLock()") for x in init) or not lock.startswith("self."):
            U(w, "save_sensors holds something that is not a lock created in __init__")
        if len(w.body) != 1 or src(w.body[0]) != "self._save_sensors()" or "_save_sensors" not in self.funcs:
            U(w, "body of the locked save_sensors")
        for name, fn in self.funcs.items():
            if name != "save_sensors" and lock in src(fn) and name != "__init__":
                U(fn, "the save lock is used outside save_sensors")
        self.funcs["save_sensors"] = self.funcs["_save_sensors"]
        self.save_lock = lock

    # ---- fixed helpers that must keep their meaning
    def check_init(self):
        body = [src(s) for s in strip_doc(self.funcs["__init__"].body)]
        for need in ["self.persistence_file = persistence_file",
                     "self.persistence_bak = f'{self.persistence_file}.bak'",
                     "self.need_save = True"]:
            if need not in body:
                U(need, "__init__ no longer contains")

    def check_dispatch(self):
        f = self.funcs["_perform_file_action"]
        if [a.arg for a in f.args.args] != ["self", "filename", "action"]:
            U(f.args, "_perform_file_action signature")
        body = [src(s) for s in strip_doc(f.body)]
        exp = ["ext = os.path.splitext(filename)[1]", None, "func(filename)"]
        if len(body) != 3 or body[0] != exp[0] or body[2] != exp[2]:
            U(f, "_perform_file_action body")
        t = f.body[-2]
        if not (isinstance(t, ast.Try) and len(t.body) == 1
                and src(t.body[0]) == "func = getattr(self, f'_{action}_{ext[1:]}')"
                and len(t.handlers) == 1 and src(t.handlers[0].type) == "AttributeError"
                and not t.orelse and not t.finalbody):
            U(t, "_perform_file_action dispatch")

    # ---- save
    def save_prog(self, fmt):
        f = self.funcs["save_sensors"]
        if [a.arg for a in f.args.args] != ["self"]:
            U(f.args, "save_sensors signature")
        self.env = {"self.persistence_file": "Main", "self.persistence_bak": "Bak"}
        self.fmt = fmt
        out = []
        self.save_block(strip_doc(f.body), out, guard=False, intry=False, top=True)
        ops = [o[0] for o in out]
        for need in ["IGuardNeedSave", "IExists Main", "IDump"]:
            if need not in ops:
                U(need, "save_sensors lost its")
        return out

    def path_of(self, e):
        s = src(e)
        if s in self.env and self.env[s] in ("Main", "Bak", "Tmp"):
            return self.env[s]
        v = self.pure_value(e)
        if v is not None and v in self.symbolic():
            return self.symbolic()[v]
        U(e, "unknown path expression")

    # ---- pure path arithmetic (local names computed from the file names with os.path functions, f-strings, +):
    # evaluated CONCRETELY on a sample file name, so that "f'{a[0]}.tmp{a[1]}'" and "base + '.tmp' + ext" are the
    # same thing to the translator; anything that touches the file system or the object is not pure.
    PURE_OS_PATH = ("splitext", "dirname", "basename", "join", "realpath", "abspath", "normpath")

    def symbolic(self):
        ext = "." + self.fmt
        return {"/d/net" + ext: "Main", "/d/net" + ext + ".bak": "Bak", "/d/net.tmp" + ext: "Tmp"}

    def conc_env(self):
        if not hasattr(self, "conc") or self.conc.get("__fmt") != self.fmt:
            ext = "." + self.fmt
            self.conc = {"__fmt": self.fmt, "self.persistence_file": "/d/net" + ext, "self.persistence_bak": "/d/net" + ext + ".bak"}
        return self.conc

    def is_pure(self, e):
        if isinstance(e, ast.Constant):
            return isinstance(e.value, (str, int))
        if isinstance(e, ast.Name):
            return e.id in self.conc_env()
        if isinstance(e, ast.Attribute):
            return src(e) in ("self.persistence_file", "self.persistence_bak")
        if isinstance(e, ast.JoinedStr):
            return all(self.is_pure(v) for v in e.values)
        if isinstance(e, ast.FormattedValue):
            return e.format_spec is None and e.conversion == -1 and self.is_pure(e.value)
        if isinstance(e, ast.BinOp):
            return isinstance(e.op, ast.Add) and self.is_pure(e.left) and self.is_pure(e.right)
        if isinstance(e, ast.Subscript):
            return self.is_pure(e.value) and isinstance(e.slice, ast.Constant) and isinstance(e.slice.value, int)
        if isinstance(e, ast.Tuple):
            return all(self.is_pure(v) for v in e.elts)
        if isinstance(e, ast.Call):
            return (not e.keywords and isinstance(e.func, ast.Attribute) and src(e.func.value) == "os.path"
                    and e.func.attr in self.PURE_OS_PATH and all(self.is_pure(a) for a in e.args))
        return False

    def pure_value(self, e):
        if not self.is_pure(e):
            return None
        import posixpath
        import types
        fake_path = types.SimpleNamespace(splitext=posixpath.splitext, dirname=posixpath.dirname, basename=posixpath.basename,
                                          join=posixpath.join, realpath=lambda p: p, abspath=lambda p: p,
                                          normpath=posixpath.normpath)
        env = {k: v for k, v in self.conc_env().items() if "." not in k and not k.startswith("__")}
        env["os"] = types.SimpleNamespace(path=fake_path)
        env["self"] = types.SimpleNamespace(persistence_file=self.conc["self.persistence_file"],
                                            persistence_bak=self.conc["self.persistence_bak"])
        try:
            return eval(compile(ast.Expression(e), "<savetrace>", "eval"), {"__builtins__": {}}, env)
        except Exception:
            return None

    def pure_assign(self, st):
        """Evaluate `name = <pure path expression>` (or a tuple of names); True if it was one."""
        if not (isinstance(st, ast.Assign) and len(st.targets) == 1):
            return False
        t = st.targets[0]
        names = [t] if isinstance(t, ast.Name) else (list(t.elts) if isinstance(t, ast.Tuple) else None)
        if not names or not all(isinstance(n, ast.Name) for n in names):
            return False
        v = self.pure_value(st.value)
        if v is None:
            return False
        vals = [v] if isinstance(t, ast.Name) else list(v) if isinstance(v, tuple) and len(v) == len(names) else None
        if vals is None:
            return False
        for n, x in zip(names, vals):
            self.conc[n.id] = x
            if isinstance(x, str) and x in self.symbolic():
                self.env[n.id] = self.symbolic()[x]
        return True

    def save_block(self, stmts, out, guard, intry, top):
        for st in stmts:
            s = src(st)
            if is_log(st):
                continue
            if s == "if not self.need_save:\n    return" and top and not guard and not intry:
                out.append(("IGuardNeedSave", guard, intry, False))
            elif s == "fname = os.path.realpath(self.persistence_file)":
                self.env["fname"] = "Main"
                self.pure_assign(st)
            elif s == "exists = os.path.isfile(fname)" and self.env.get("fname") == "Main":
                self.env["exists"] = True
                out.append(("IExists Main", guard, intry, False))
            elif s == "dirname = os.path.dirname(fname)" and self.env.get("fname") == "Main":
                self.env["dirname"] = True
                self.pure_assign(st)
            elif (isinstance(st, ast.If) and src(st.test) ==
                  "not os.access(dirname, os.W_OK) or (exists and (not os.access(fname, os.W_OK)))"):
                body = [b for b in st.body if not is_log(b)]
                if st.orelse or len(body) != 1 or src(body[0]) != "return" or not self.env.get("exists") \
                        or not self.env.get("dirname") or guard or intry:
                    U(st, "permission check")
                out.append(("IPermCheck Main", guard, intry, False))
            elif self.pure_assign(st):
                pass          # local path arithmetic (e.g. the temporary file's name), evaluated on a sample name
            elif s in ("self.need_save = False", "self.need_save = True"):
                out.append(("ISetNeedSave %s" % s.split()[-1].lower(), guard, intry, False))
            elif isinstance(st, ast.Try):
                if intry or guard or not top or st.orelse or st.finalbody or len(st.handlers) != 1:
                    U(st, "try shape")
                h = st.handlers[0]
                if src(h.type) != "Exception" or h.name or [src(x) for x in h.body] != ["self.need_save = True", "raise"]:
                    U(h, "handler of the try in save_sensors")
                self.save_block(st.body, out, guard, True, False)
            elif isinstance(st, ast.If) and src(st.test) == "exists" and self.env.get("exists") and not st.orelse and not guard:
                self.save_block(st.body, out, True, intry, False)
            elif isinstance(st, ast.Expr) and isinstance(st.value, ast.Call):
                c = st.value
                fn = src(c.func)
                if c.keywords and fn in ("os.rename", "os.remove", "self._perform_file_action"):
                    U(st, "keywords")
                if fn == "os.rename" and len(c.args) == 2:
                    out.append(("IRename %s %s" % (self.path_of(c.args[0]), self.path_of(c.args[1])), guard, intry, False))
                elif fn == "os.remove" and len(c.args) == 1:
                    out.append(("IRemove %s" % self.path_of(c.args[0]), guard, intry, False))
                elif fn == "self._perform_file_action" and len(c.args) == 2 and src(c.args[1]) == "'save'":
                    self.inline_save(self.path_of(c.args[0]), out, guard, intry)
                else:
                    U(st, "call in save_sensors")
            else:
                U(st, "statement in save_sensors")

    def inline_save(self, target, out, guard, intry):
        f = self.funcs["_save_" + self.fmt]
        if [a.arg for a in f.args.args] != ["self", "filename"]:
            U(f.args, "_save signature")
        body = strip_doc(f.body)
        if len(body) != 1 or not isinstance(body[0], ast.With) or len(body[0].items) != 1:
            U(f, "_save body must be one with block")
        w = body[0]
        it = w.items[0]
        c = it.context_expr
        if not (isinstance(c, ast.Call) and src(c.func) == "open" and len(c.args) == 2 and src(c.args[0]) == "filename"
                and isinstance(c.args[1], ast.Constant) and c.args[1].value in ("w", "wb")
                and isinstance(it.optional_vars, ast.Name)):
            U(w, "open call")
        for k in c.keywords:
            if k.arg not in ("encoding",):
                U(w, "open keyword")
        fh = it.optional_vars.id
        out.append(("IOpen " + target, guard, intry, False))
        mod = {"json": "json", "pickle": "pickle"}[self.fmt]
        for st in w.body:
            s = src(st)
            if is_log(st):
                continue
            if (isinstance(st, ast.Expr) and isinstance(st.value, ast.Call) and src(st.value.func) == f"{mod}.dump"
                    and len(st.value.args) >= 2 and src(st.value.args[0]) == "self._sensors" and src(st.value.args[1]) == fh):
                out.append(("IDump", guard, intry, True))
            elif s == f"{fh}.flush()":
                out.append(("IFlush", guard, intry, True))
            elif s == f"os.fsync({fh}.fileno())":
                out.append(("IFsync", guard, intry, True))
            else:
                U(st, "statement in _save_" + self.fmt)
        out.append(("IClose", guard, intry, False))

    # ---- load
    def check_load_fmt(self, fmt):
        f = self.funcs["_load_" + fmt]
        body = strip_doc(f.body)
        if len(body) != 1 or not isinstance(body[0], ast.With) or len(body[0].items) != 1:
            U(f, "_load body must be one with block")
        w = body[0]
        c = w.items[0].context_expr
        if not (isinstance(c, ast.Call) and src(c.func) == "open" and len(c.args) == 2 and src(c.args[0]) == "filename"
                and isinstance(c.args[1], ast.Constant) and c.args[1].value in ("r", "rb")):
            U(w, "open call in _load")
        fh = w.items[0].optional_vars.id
        stmts = [s for s in w.body if not is_log(s)]
        ok = False
        if len(stmts) == 1 and isinstance(stmts[0], ast.Expr) and isinstance(stmts[0].value, ast.Call):
            u = stmts[0].value
            if src(u.func) == "self._sensors.update" and len(u.args) == 1 and not u.keywords and isinstance(u.args[0], ast.Call):
                d = u.args[0]
                if src(d.func) == f"{fmt}.load" and d.args and src(d.args[0]) == fh:
                    ok = True
        if not ok:
            U(f, "_load_%s is not `self._sensors.update(%s.load(fh))`" % (fmt, fmt))

    def load_prog(self):
        f = self.funcs["_load_sensors"]
        if [a.arg for a in f.args.args] != ["self", "path"] or [src(d) for d in f.args.defaults] != ["None"]:
            U(f.args, "_load_sensors signature")
        body = [s for s in strip_doc(f.body) if not is_log(s)]
        if not body or src(body[0]) != "if path is None:\n    path = self.persistence_file":
            U(body[0] if body else f, "_load_sensors default path")
        out = []
        self.load_block(body[1:], out, False, False)
        if not out or not out[-1][0].startswith("LReturn"):
            U(f, "_load_sensors must end with return")
        return out

    def load_block(self, stmts, out, guard, bak):
        for st in stmts:
            s = src(st)
            if is_log(st):
                continue
            if s == "exists = os.path.isfile(path)" and not guard:
                out.append(("LExists", guard, bak))
            elif isinstance(st, ast.If) and src(st.test) == "exists and os.access(path, os.R_OK)" and not guard and not st.orelse:
                self.load_block(st.body, out, True, bak)
            elif isinstance(st, ast.If) and src(st.test) == "path == self.persistence_bak" and not bak and not st.orelse:
                self.load_block(st.body, out, guard, True)
            elif s == "os.rename(path, self.persistence_file)":
                out.append(("LRenameToMain", guard, bak))
            elif s == "path = self.persistence_file":
                out.append(("LSetPathMain", guard, bak))
            elif s == "self._perform_file_action(path, 'load')":
                out.append(("LLoad", guard, bak))
            elif s in ("return True", "return False"):
                out.append(("LReturn %s" % s.split()[-1].lower(), guard, bak))
            else:
                U(st, "statement in _load_sensors")

    def resolve_class(self, e):
        s = src(e)
        if isinstance(e, ast.Name) and isinstance(getattr(builtins, s, None), type):
            return getattr(builtins, s)
        if isinstance(e, ast.Attribute) and isinstance(e.value, ast.Name) and e.value.id in self.mod_imports:
            m = importlib.import_module(self.mod_imports[e.value.id])
            c = getattr(m, e.attr, None)
            if isinstance(c, type) and issubclass(c, BaseException):
                return c
        U(e, "cannot resolve exception class")

    def handler_classes(self, h):
        if h.name is not None and any(isinstance(n, ast.Raise) for n in ast.walk(h)):
            U(h, "handler re-raises")
        t = h.type
        if t is None:
            U(h, "bare except")
        elts = t.elts if isinstance(t, ast.Tuple) else [t]
        return [self.resolve_class(e) for e in elts]

    def safe_load(self):
        f = self.funcs["safe_load_sensors"]
        body = [s for s in strip_doc(f.body) if not is_log(s)]
        if len(body) != 2 or not isinstance(body[0], ast.Try) or not isinstance(body[1], ast.If):
            U(f, "safe_load_sensors shape")
        t1, iff = body
        if ([src(s) for s in t1.body] != ["loaded = self._load_sensors()"] or len(t1.handlers) != 1
                or t1.orelse or t1.finalbody):
            U(t1, "first try of safe_load_sensors")
        h1 = t1.handlers[0]
        if [src(s) for s in h1.body if not is_log(s)] != ["loaded = False"]:
            U(h1, "first handler body")
        c1 = self.handler_classes(h1)
        if src(iff.test) != "not loaded" or iff.orelse:
            U(iff, "fallback condition")
        ib = [s for s in iff.body if not is_log(s)]
        if len(ib) != 1 or not isinstance(ib[0], ast.Try):
            U(iff, "fallback body")
        t2 = ib[0]
        tb = t2.body
        if not (len(tb) == 1 and isinstance(tb[0], ast.If) and src(tb[0].test) == "not self._load_sensors(self.persistence_bak)"
                and all(is_log(s) for s in tb[0].body) and not tb[0].orelse and len(t2.handlers) == 1
                and not t2.orelse and not t2.finalbody):
            U(t2, "second try of safe_load_sensors")
        h2 = t2.handlers[0]
        c2 = self.handler_classes(h2)
        prims = []
        for s in h2.body:
            if is_log(s):
                continue
            if src(s) == "os.remove(self.persistence_file)":
                prims.append("PRemove Main")
            else:
                U(s, "second handler body")
        return c1, c2, prims


CANDIDATES = ["json.JSONDecodeError", "UnicodeDecodeError", "pickle.UnpicklingError", "pickle.PickleError", "EOFError",
              "ValueError", "OSError", "FileNotFoundError", "PermissionError", "AttributeError", "KeyError", "IndexError",
              "TypeError", "MemoryError", "ImportError", "ModuleNotFoundError", "OverflowError", "RecursionError",
              "UnicodeError", "LookupError", "ArithmeticError", "RuntimeError", "NotImplementedError", "SystemError"]


def cls_by_name(n):
    if "." in n:
        m, a = n.rsplit(".", 1)
        return getattr(importlib.import_module(m), a)
    return getattr(builtins, n)


def coq_str(s):
    assert all(32 <= ord(c) < 127 and c != '"' for c in s), s
    return 's2p "%s"' % s


def mro_names(c):
    return [qualname(k) for k in c.__mro__ if k is not object]


def coq_list(items, sep="; "):
    return "[" + sep.join(items) + "]"


def mro_table(classes):
    seen = {}
    for c in classes:
        seen.setdefault(qualname(c), mro_names(c))
    rows = ["(%s, %s)" % (coq_str(n), coq_list([coq_str(x) for x in m])) for n, m in sorted(seen.items())]
    return "[\n  " + ";\n  ".join(rows) + "\n]"


def facts():
    """Python-side view of what generate() emits (used by the harness too)."""
    tr = Tr()
    progs = {fmt: tr.save_prog(fmt) for fmt in ("json", "pickle")}
    for fmt in ("json", "pickle"):
        tr.check_load_fmt(fmt)
    lp = tr.load_prog()
    c1, c2, prims = tr.safe_load()
    return {"save": progs, "load": lp, "h1": c1, "h2": c2, "h2_body": prims, "text": tr.text}


def generate():
    f = facts()
    out = ["(* GENERATED by harness/translate/savetrace.py from mysensors/persistence.py - do not edit *)",
           "From Coq Require Import List String.",
           "From PMS Require Import Base.PyStr Spec.AbstractFs.",
           "Import ListNotations.", "Local Open Scope string_scope.", ""]
    for fmt in ("json", "pickle"):
        rows = ["mkI (%s) %s %s %s" % (op, str(g).lower(), str(t).lower(), str(w).lower()) for op, g, t, w in f["save"][fmt]]
        out.append("Definition save_prog_%s : list sinstr := [\n  %s\n]." % (fmt, ";\n  ".join(rows)))
        out.append("")
    rows = ["mkL (%s) %s %s" % (op, str(g).lower(), str(b).lower()) for op, g, b in f["load"]]
    out.append("Definition load_prog : list slinstr := [\n  %s\n]." % ";\n  ".join(rows))
    out.append("")
    out.append("(* _load_json and _load_pickle are `self._sensors.update(<mod>.load(fh))`: decode completely, then one update *)")
    out.append("Definition load_update_after_decode : bool := true.")
    out.append("")
    out.append("Definition safe_load_prog : safe_load_shape := mkSL\n  %s\n  Bak\n  %s\n  %s." % (
        coq_list([coq_str(qualname(c)) for c in f["h1"]]),
        coq_list([coq_str(qualname(c)) for c in f["h2"]]),
        coq_list(f["h2_body"])))
    out.append("")
    classes = list(f["h1"]) + list(f["h2"]) + [cls_by_name(n) for n in CANDIDATES]
    out.append("(* class -> its MRO (live classes of the running interpreter) *)")
    out.append("Definition class_mro : list (cls * list cls) := %s." % mro_table(classes))
    out.append("")
    return "\n".join(out) + "\n"


if __name__ == "__main__":
    print(generate())
