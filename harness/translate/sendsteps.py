"""Generate Gen/SendSteps.v: the atomic step lists of the code C16 is about, from the AST of
/repo's current mysensors/transport.py (and the queue operations of mysensors/task.py).

One step per attribute load / attribute store / call in Python evaluation order, plus explicit
control flow (conditional branches incl. short-circuit `or`/`and`/`not`, the conditional
expression, `return`, `try/except OSError`).  Every step carries the source line of the AST
node it comes from (the model replays line-level schedules of the real code with it) and the
label of the innermost enclosing `except OSError` handler.

Instruction set = Model/SendRace.v `instr`.  Calls to methods of the same class defined in
transport.py (`self._connection_lost(exc)`, `self._connection_made()`) are inlined;
`super().connection_made(transport)` is rendered as the attribute store pyserial's
`Packetizer.connection_made` performs (verified against the installed pyserial's AST).

Fail closed: any construct outside this subset raises TranslateError; nothing is guessed.
"""
import ast
import importlib.util
import inspect
import sys
import textwrap
from pathlib import Path

from harness import core

TARGET = "SendSteps.v"

ATTRS = {
    "protocol", "transport", "serial", "write", "close", "conn_lost_callback", "can_log",
    "gateway", "on_conn_lost", "on_conn_made", "debug", "info", "error", "warning", "encode", "strip",
}
GLOBAL_VALUES = {"_LOGGER": "VLogger"}


class TranslateError(Exception):
    pass


def fail(node, why):
    raise TranslateError(f"{why} at line {getattr(node, 'lineno', '?')}: {ast.dump(node)[:160]}")


class Fn:
    """Compiler of one function (with inlined callees) to a flat step list."""

    def __init__(self, classes, cls, name, param_values):
        self.classes = classes          # class name -> {method name -> FunctionDef}
        self.cls = cls
        self.steps = []                 # (line, handler label or None, instr text)
        self.nreg = 0
        self.nlabel = 0
        self.handler = None
        self.inline_depth = 0
        fn = self.lookup(cls, name)
        self.params = [a.arg for a in fn.args.args]
        self.check_args(fn)
        env = {}
        for p in self.params:
            env[p] = self.new_reg()
        self.param_values = param_values
        self.body(fn, env, ret_label=None)

    # -- helpers
    def lookup(self, cls, name):
        for c in self.mro(cls):
            if name in self.classes[c]["methods"]:
                return self.classes[c]["methods"][name]
        raise TranslateError(f"method {cls}.{name} not found in transport.py")

    def mro(self, cls):
        out = [cls]
        for b in self.classes[cls]["bases"]:
            if b in self.classes:
                out += self.mro(b)
        return out

    def check_args(self, fn):
        a = fn.args
        if a.vararg or a.kwarg or a.kwonlyargs or a.defaults or a.posonlyargs or fn.decorator_list:
            fail(fn, "unsupported signature")
        if isinstance(fn, ast.AsyncFunctionDef):
            fail(fn, "async function")

    def new_reg(self):
        self.nreg += 1
        return self.nreg - 1

    def new_label(self):
        self.nlabel += 1
        return self.nlabel - 1

    def emit(self, node, text):
        line = node if isinstance(node, int) else node.lineno
        self.steps.append((line, self.handler, text))

    def one_line(self, node):
        if node.lineno != node.end_lineno:
            fail(node, "expression spans several lines")

    # -- expressions: return the register that holds the value
    def expr(self, e, env):
        if isinstance(e, ast.Name):
            if not isinstance(e.ctx, ast.Load):
                fail(e, "name context")
            if e.id in env:
                return env[e.id]
            if e.id in GLOBAL_VALUES:
                r = self.new_reg()
                self.emit(e, f"IConst {r} {GLOBAL_VALUES[e.id]}")
                return r
            fail(e, f"unknown name {e.id!r}")
        if isinstance(e, ast.Constant):
            r = self.new_reg()
            if e.value is None:
                v = "VNone"
            elif e.value is True:
                v = "VTrue"
            elif e.value is False:
                v = "VFalse"
            elif isinstance(e.value, str) and e.value:
                v = "VOpaque"
            else:
                fail(e, "unsupported constant")
            self.emit(e, f"IConst {r} {v}")
            return r
        if isinstance(e, ast.Attribute):
            self.one_line(e)
            if e.attr not in ATTRS:
                fail(e, f"attribute {e.attr!r} is not modelled")
            src = self.expr(e.value, env)
            r = self.new_reg()
            self.emit(e, f"ILoad {r} {src} A_{e.attr}")
            return r
        if isinstance(e, ast.Call):
            return self.call(e, env)
        if isinstance(e, ast.IfExp):
            r = self.new_reg()
            l_else, l_end = self.new_label(), self.new_label()
            self.branch(e.test, False, l_else, env)
            rb = self.expr(e.body, env)
            self.emit(e.body, f"IMove {r} {rb}")
            self.emit(e.body, f"IJmp {l_end}")
            self.emit(e.orelse, f"ILabel {l_else}")
            ro = self.expr(e.orelse, env)
            self.emit(e.orelse, f"IMove {r} {ro}")
            self.emit(e.orelse, f"ILabel {l_end}")
            return r
        if isinstance(e, ast.UnaryOp) and isinstance(e.op, ast.Not):
            src = self.expr(e.operand, env)
            r = self.new_reg()
            self.emit(e, f"INot {r} {src}")
            return r
        if isinstance(e, ast.Compare) and self.is_none_test(e):
            src = self.expr(e.left, env)
            r = self.new_reg()
            neg = "true" if isinstance(e.ops[0], ast.IsNot) else "false"
            self.emit(e, f"IIsNone {r} {src} {neg}")
            return r
        fail(e, "unsupported expression")

    @staticmethod
    def is_none_test(e):
        return (len(e.ops) == 1 and isinstance(e.ops[0], (ast.Is, ast.IsNot))
                and isinstance(e.comparators[0], ast.Constant) and e.comparators[0].value is None)

    def call(self, e, env):
        if e.keywords or any(isinstance(a, ast.Starred) for a in e.args):
            fail(e, "keyword/star arguments")
        f = e.func
        # super().connection_made(x): the store done by pyserial's Packetizer.connection_made
        if (isinstance(f, ast.Attribute) and isinstance(f.value, ast.Call) and isinstance(f.value.func, ast.Name)
                and f.value.func.id == "super" and not f.value.args):
            if f.attr != "connection_made" or len(e.args) != 1 or self.cls != "BaseMySensorsProtocol":
                fail(e, "unsupported super() call")
            check_pyserial_connection_made()
            rv = self.expr(e.args[0], env)
            self.emit(e, f"IStore {env['self']} A_transport {rv}")
            return self.new_reg()  # never written: registers start as None = the call's result
        # hasattr(x, "name")
        if isinstance(f, ast.Name) and f.id == "hasattr" and "hasattr" not in env:
            if len(e.args) != 2 or not isinstance(e.args[1], ast.Constant):
                fail(e, "hasattr shape")
            rf = self.new_reg()
            self.emit(e, f"IConst {rf} (VMeth MHasattr)")
            ra = [self.expr(a, env) for a in e.args]
            r = self.new_reg()
            self.emit(e, f"ICall {r} {rf} [{'; '.join(map(str, ra))}]")
            return r
        # self.method(...) with the method defined in transport.py: inline
        if (isinstance(f, ast.Attribute) and isinstance(f.value, ast.Name) and f.value.id == "self"
                and any(f.attr in self.classes[c]["methods"] for c in self.mro(self.cls))):
            callee = self.lookup(self.cls, f.attr)
            self.check_args(callee)
            if self.inline_depth > 3:
                fail(e, "inlining too deep")
            params = [a.arg for a in callee.args.args]
            if len(params) != len(e.args) + 1:
                fail(e, "arity")
            new_env = {"self": env["self"]}
            for p, a in zip(params[1:], e.args):
                ra = self.expr(a, env)
                rp = self.new_reg()
                self.emit(e, f"IMove {rp} {ra}")
                new_env[p] = rp
            l_ret = self.new_label()
            self.inline_depth += 1
            self.body(callee, new_env, ret_label=l_ret)
            self.inline_depth -= 1
            self.emit(self.steps[-1][0], f"ILabel {l_ret}")
            return self.new_reg()  # never written: registers start as None = the call's result
        rf = self.expr(f, env)
        ra = [self.expr(a, env) for a in e.args]
        r = self.new_reg()
        self.emit(e, f"ICall {r} {rf} [{'; '.join(map(str, ra))}]")
        return r

    # -- conditions: jump to `label` iff truthiness(test) == sense, else fall through
    def branch(self, t, sense, label, env):
        if isinstance(t, ast.UnaryOp) and isinstance(t.op, ast.Not):
            return self.branch(t.operand, not sense, label, env)
        if isinstance(t, ast.BoolOp):
            is_or = isinstance(t.op, ast.Or)
            if is_or == sense:  # or/jump-if-true, and/jump-if-false: any operand decides
                for v in t.values:
                    self.branch(v, sense, label, env)
            else:
                skip = self.new_label()
                for v in t.values[:-1]:
                    self.branch(v, not sense, skip, env)
                self.branch(t.values[-1], sense, label, env)
                self.emit(t.values[-1], f"ILabel {skip}")
            return
        r = self.expr(t, env)
        self.emit(t, f"IBr {r} {'true' if sense else 'false'} {label}")

    # -- statements
    def body(self, fn, env, ret_label):
        self.block(fn.body, env, ret_label)

    def block(self, stmts, env, ret_label):
        for s in stmts:
            self.stmt(s, env, ret_label)

    def stmt(self, s, env, ret_label):
        if isinstance(s, ast.Expr) and isinstance(s.value, ast.Constant) and isinstance(s.value.value, str):
            return  # docstring
        if isinstance(s, ast.Expr) and isinstance(s.value, ast.Call):
            self.expr(s.value, env)
            return
        if isinstance(s, ast.Return):
            if s.value is not None and not (isinstance(s.value, ast.Constant) and s.value.value is None):
                fail(s, "return with a value")
            self.emit(s, "IRet" if ret_label is None else f"IJmp {ret_label}")
            return
        if isinstance(s, ast.Assign):
            if len(s.targets) != 1:
                fail(s, "multiple assignment targets")
            t = s.targets[0]
            rv = self.expr(s.value, env)
            if isinstance(t, ast.Name):
                if t.id not in env:
                    env[t.id] = self.new_reg()
                self.emit(s, f"IMove {env[t.id]} {rv}")
                return
            if isinstance(t, ast.Attribute):
                self.one_line(t)
                if t.attr not in ("protocol", "transport"):
                    fail(t, f"store to attribute {t.attr!r} is not modelled")
                ro = self.expr(t.value, env)
                self.emit(t, f"IStore {ro} A_{t.attr} {rv}")
                return
            fail(s, "assignment target")
        if isinstance(s, ast.If):
            l_else = self.new_label()
            self.branch(s.test, False, l_else, env)
            self.block(s.body, env, ret_label)
            if s.orelse:
                l_end = self.new_label()
                self.emit(self.steps[-1][0], f"IJmp {l_end}")
                self.emit(self.steps[-1][0], f"ILabel {l_else}")
                self.block(s.orelse, env, ret_label)
                self.emit(self.steps[-1][0], f"ILabel {l_end}")
            else:
                self.emit(self.steps[-1][0], f"ILabel {l_else}")
            return
        if isinstance(s, ast.Try):
            if s.orelse or s.finalbody or len(s.handlers) != 1:
                fail(s, "try shape")
            h = s.handlers[0]
            if not (isinstance(h.type, ast.Name) and h.type.id == "OSError"):
                fail(h, "handler other than `except OSError`")
            if self.handler is not None:
                fail(s, "nested try")
            l_h, l_end = self.new_label(), self.new_label()
            self.handler = l_h
            self.block(s.body, env, ret_label)
            self.handler = None
            self.emit(self.steps[-1][0], f"IJmp {l_end}")
            self.emit(h, f"ILabel {l_h}")
            if h.name:
                env[h.name] = self.new_reg()
                self.emit(h, f"IConst {env[h.name]} VExc")
            self.block(h.body, env, ret_label)
            self.emit(self.steps[-1][0], f"ILabel {l_end}")
            return
        if isinstance(s, ast.Pass):
            return
        fail(s, "unsupported statement")

    def render(self, name):
        rows = []
        for line, hdl, text in self.steps:
            h = "None" if hdl is None else f"(Some {hdl})"
            rows.append(f"  mkStep {line}%N {h} ({text})")
        return (f"Definition {name}_nregs : nat := {self.nreg}.\n"
                f"Definition {name}_steps : list step := [\n" + ";\n".join(rows) + "\n].\n")


def check_pyserial_connection_made():
    """super().connection_made of BaseMySensorsProtocol must be pyserial's Packetizer.connection_made
    and that must be exactly `self.transport = transport`."""
    import serial.threaded as st

    owner = None
    for c in st.LineReader.__mro__:
        if "connection_made" in c.__dict__:
            owner = c
            break
    if owner is None:
        raise TranslateError("pyserial: no connection_made in LineReader's MRO")
    src = textwrap.dedent(inspect.getsource(owner.__dict__["connection_made"]))
    fn = ast.parse(src).body[0]
    body = [s for s in fn.body if not (isinstance(s, ast.Expr) and isinstance(s.value, ast.Constant))]
    ok = (len(body) == 1 and isinstance(body[0], ast.Assign) and len(body[0].targets) == 1
          and ast.unparse(body[0].targets[0]) == "self.transport" and ast.unparse(body[0].value) == fn.args.args[1].arg)
    if not ok:
        raise TranslateError(f"pyserial {owner.__name__}.connection_made is not `self.transport = transport`")


def parse_classes(path):
    tree = ast.parse(Path(path).read_text())
    classes = {}
    for node in tree.body:
        if isinstance(node, ast.ClassDef):
            bases = [b.id for b in node.bases if isinstance(b, ast.Name)]
            methods = {n.name: n for n in node.body if isinstance(n, (ast.FunctionDef, ast.AsyncFunctionDef))}
            classes[node.name] = {"bases": bases, "methods": methods, "node": node}
    return classes


def sync_send_shape(classes):
    """SyncTransport.send must be exactly `with self._lock: super().send(message)`."""
    fn = classes["SyncTransport"]["methods"].get("send")
    if fn is None:
        raise TranslateError("SyncTransport.send missing")
    body = [s for s in fn.body if not (isinstance(s, ast.Expr) and isinstance(s.value, ast.Constant))]
    ok = (len(body) == 1 and isinstance(body[0], ast.With) and len(body[0].items) == 1
          and ast.unparse(body[0].items[0].context_expr) == "self._lock"
          and body[0].items[0].optional_vars is None
          and len(body[0].body) == 1 and ast.unparse(body[0].body[0]) == "super().send(message)")
    if not ok:
        raise TranslateError("SyncTransport.send is not `with self._lock: super().send(message)`: "
                             + ast.unparse(fn)[:200])
    init = classes["SyncTransport"]["methods"].get("__init__")
    if init is None or "self._lock = threading.Lock()" not in ast.unparse(init):
        raise TranslateError("SyncTransport.__init__ does not create self._lock = threading.Lock()")
    return body[0].lineno, body[0].body[0].lineno


# ---------------------------------------------------------------- task.py queue operations

def queue_ops(task_path):
    """Uses of `self.queue` in SyncTasks.add_job / Tasks.run_job / SyncTasks._poll_queue, in
    evaluation order, as model queue operations. Any other use fails closed."""
    classes = parse_classes(task_path)

    def method(cls, name):
        for c in [cls] + classes[cls]["bases"]:
            if c in classes and name in classes[c]["methods"]:
                return classes[c]["methods"][name]
        raise TranslateError(f"{cls}.{name} missing in task.py")

    def is_queue(e):
        return isinstance(e, ast.Attribute) and e.attr == "queue" and isinstance(e.value, ast.Name) and e.value.id == "self"

    def ops_of(fn):
        out = []
        parents = {}
        for p in ast.walk(fn):
            for ch in ast.iter_child_nodes(p):
                parents[ch] = p
        uses = sorted((n for n in ast.walk(fn) if is_queue(n)), key=lambda n: (n.lineno, n.col_offset))
        for u in uses:
            p = parents[u]
            if isinstance(p, ast.Attribute) and isinstance(parents[p], ast.Call) and parents[p].func is p:
                call = parents[p]
                if p.attr == "append" and len(call.args) == 1 and ast.unparse(call.args[0]) == "(func, args)":
                    out.append("QAppend")
                elif p.attr == "popleft" and not call.args:
                    tgt = parents[call]
                    if not (isinstance(tgt, ast.Assign) and ast.unparse(tgt.targets[0]) == "job"):
                        fail(call, "popleft result not assigned to job")
                    out.append("QPopleft")
                else:
                    fail(call, f"queue method {p.attr!r}")
            elif isinstance(p, ast.UnaryOp) and isinstance(p.op, ast.Not) and isinstance(parents[p], ast.If):
                out.append("QTruth")
            elif isinstance(p, ast.If) and p.test is u:
                out.append("QTruth")
            else:
                fail(u, "use of self.queue that is not modelled")
        return out

    add = ops_of(method("SyncTasks", "add_job"))
    run = ops_of(method("Tasks", "run_job"))
    poll_fn = method("SyncTasks", "_poll_queue")
    poll = ops_of(poll_fn)
    # shape of run_job's queue part: `if job is None: if not self.queue: return None; job = self.queue.popleft()`
    rj = method("Tasks", "run_job")
    body = [s for s in rj.body if not (isinstance(s, ast.Expr) and isinstance(s.value, ast.Constant))]
    first = body[0]
    want = "if job is None:\n    if not self.queue:\n        return None\n    job = self.queue.popleft()"
    if not (isinstance(first, ast.If) and ast.unparse(first) == want):
        raise TranslateError("Tasks.run_job: queue access is not check-then-popleft: " + ast.unparse(first)[:200])
    src = ast.unparse(rj)
    for needle in ("func, args = job", "reply = func(*args)", "return reply"):
        if needle not in src:
            raise TranslateError(f"Tasks.run_job: `{needle}` missing")
    psrc = ast.unparse(poll_fn)
    for needle in ("reply = self.run_job()", "self.transport.send(reply)"):
        if needle not in psrc:
            raise TranslateError(f"SyncTasks._poll_queue: `{needle}` missing")
    if psrc.index("reply = self.run_job()") > psrc.index("self.transport.send(reply)"):
        raise TranslateError("_poll_queue sends before run_job")
    return add, run, poll


def generate():
    tpath = core.REPO / "mysensors" / "transport.py"
    classes = parse_classes(tpath)
    for c in ("Transport", "SyncTransport", "BaseMySensorsProtocol"):
        if c not in classes:
            raise TranslateError(f"class {c} missing")
    with_line, super_line = sync_send_shape(classes)
    send = Fn(classes, "Transport", "send", None)
    if send.params != ["self", "message"]:
        raise TranslateError(f"Transport.send parameters {send.params}")
    disc = Fn(classes, "Transport", "disconnect", None)
    if disc.params != ["self"]:
        raise TranslateError(f"Transport.disconnect parameters {disc.params}")
    lost = Fn(classes, "BaseMySensorsProtocol", "connection_lost", None)
    if lost.params != ["self", "exc"]:
        raise TranslateError(f"connection_lost parameters {lost.params}")
    made = Fn(classes, "BaseMySensorsProtocol", "connection_made", None)
    if made.params != ["self", "transport"]:
        raise TranslateError(f"connection_made parameters {made.params}")
    add, run, poll = queue_ops(core.REPO / "mysensors" / "task.py")
    out = [
        "(* GENERATED by harness/translate/sendsteps.py from mysensors/transport.py and mysensors/task.py.\n"
        "   Do not edit; rewritten on every check run. Register 0 = self, 1.. = parameters. *)\n"
        "From Coq Require Import List NArith Bool.\n"
        "From PMS Require Import Model.SendRace.\n"
        "Import ListNotations.\nOpen Scope nat_scope.\n\n",
        "(* Transport.send(self, message) *)\n", send.render("send"), "\n",
        "(* Transport.disconnect(self) *)\n", disc.render("disconnect"), "\n",
        "(* BaseMySensorsProtocol.connection_lost(self, exc) with _connection_lost inlined *)\n",
        lost.render("connection_lost"), "\n",
        "(* BaseMySensorsProtocol.connection_made(self, transport) with _connection_made inlined *)\n",
        made.render("connection_made"), "\n",
        "(* SyncTransport.send is `with self._lock: super().send(message)` (checked) *)\n",
        f"Definition sync_send_locked : bool := true.\n"
        f"Definition sync_send_lines : list N := [{with_line}%N; {super_line}%N].\n\n",
        "(* uses of self.queue in SyncTasks.add_job, Tasks.run_job, SyncTasks._poll_queue *)\n",
        f"Definition add_job_queue_ops : list qop := [{'; '.join(add)}].\n",
        f"Definition run_job_queue_ops : list qop := [{'; '.join(run)}].\n",
        f"Definition poll_queue_ops : list qop := [{'; '.join(poll)}].\n",
    ]
    return "".join(out)


if __name__ == "__main__":
    sys.stdout.write(generate())
