"""Generate Gen/SupConsts.v for C20 from the ASTs of /repo's current working tree
(mysensors/transport.py, gateway_serial.py, gateway_tcp.py, task.py) and the installed
pyserial's serial.threaded.ReaderThread.  Nothing is imported from the repo.

Rendered facts (consumed by Model/Supervise.v and Model/Watchdog.v):
  * numbers: the `2 *` factor of BaseTCPGateway.check_connection, the `+ 0.1` of the
    asyncio call_later, the `time.sleep(0.02)` and `recv(120)` of TCPTransport.run;
  * whether _handle_i_version resets tcp_disconnect_timer;
  * how many times connection_made -> _connection_made -> on_conn_made is called;
  * what the shared hook _connection_lost does: user callback?, reconnect under which
    condition (`if exc:` / always / never);
  * what each connection_lost variant does (sync: closes the port if exc; asyncio serial:
    shared hook; asyncio TCP: cancels the watchdog, shared hook or the old inline body);
  * Transport.send's OSError branch (closes? reconnects?), Transport.disconnect (fixed shape);
  * the four connect loops: loop condition (`while transport.protocol` / `while True`, one
    flag per loop: sser/stcp/aser/atcp_guard_protocol; any other test raises),
    caught exception classes, what the handlers do (sleep reconnect_timeout and retry /
    retry at once / give up), what the success path does (fixed shapes);
  * SyncTasks.stop / AsyncTasks.stop: disconnect first?, cancel connect_task?
Statements that only log are ignored.  Fail closed: any other shape raises TranslateError
(the check treats that as a broken tie and starts the search).
"""
import ast
import hashlib
import importlib.util
import re
from fractions import Fraction
from pathlib import Path

from harness import core

TARGET = "SupConsts.v"


class TranslateError(Exception):
    pass


def _need(cond, what):
    if not cond:
        raise TranslateError(what)


def _parse(path):
    return ast.parse(Path(path).read_text(), filename=str(path)), Path(path).read_text()


def _find(body, kind, name, where):
    for n in body:
        if isinstance(n, kind) and n.name == name:
            return n
    raise TranslateError(f"{name} not found in {where}")


FN = (ast.FunctionDef, ast.AsyncFunctionDef)


def _is_log_call(stmt):
    return (isinstance(stmt, ast.Expr) and isinstance(stmt.value, ast.Call)
            and ast.unparse(stmt.value.func).startswith("_LOGGER."))


def _log_only(stmt):
    if _is_log_call(stmt):
        return True
    return (isinstance(stmt, ast.If) and all(_log_only(s) for s in stmt.body)
            and all(_log_only(s) for s in stmt.orelse))


def _strip(stmts):
    """statements without docstring, pylint strings and log-only statements (recursively)"""
    out = []
    for i, s in enumerate(stmts):
        if isinstance(s, ast.Expr) and isinstance(s.value, ast.Constant) and isinstance(s.value.value, str):
            continue
        if _log_only(s):
            continue
        out.append(s)
    return out


def _norm(stmt):
    """unparse with log-only statements removed from every nested block"""
    class T(ast.NodeTransformer):
        def generic_visit(self, node):
            super().generic_visit(node)
            for f in ("body", "orelse", "finalbody"):
                b = getattr(node, f, None)
                if isinstance(b, list) and b and isinstance(b[0], ast.stmt):
                    nb = _strip(b)
                    if f == "body" and not nb:
                        nb = [ast.Pass()]
                    setattr(node, f, nb)
            return node
    import copy
    return ast.unparse(T().visit(copy.deepcopy(stmt)))


def _body(fn):
    return [_norm(s) for s in _strip(fn.body)]


def _raw(fn):
    return _strip(fn.body)


# ------------------------------------------------------------------ transport.py

U_LOST = "if self.gateway.on_conn_lost is not None:\n    self.gateway.on_conn_lost(self.gateway, exc)"
R_EXC = "if exc:\n    self.conn_lost_callback()"
R_ALWAYS = "self.conn_lost_callback()"
T_NONE = "self.transport = None"
HOOK = "self._connection_lost(exc)"


def _hook_shape(b, where):
    """[U_LOST]? [R_EXC | R_ALWAYS]? T_NONE  ->  (user, cond)"""
    b = list(b)
    user = False
    cond = "RcNever"
    if b and b[0] == U_LOST:
        user = True
        b.pop(0)
    if b and b[0] in (R_EXC, R_ALWAYS):
        cond = "RcOnExc" if b[0] == R_EXC else "RcAlways"
        b.pop(0)
    _need(b == [T_NONE], f"{where}: unexpected statements {b}")
    return user, cond


def transport_facts(f):
    tree, _ = _parse(core.REPO / "mysensors" / "transport.py")
    where = "transport.py"
    tr = _find(tree.body, ast.ClassDef, "Transport", where)
    init = _body(_find(tr.body, FN, "__init__", "Transport"))
    _need("self.protocol = None" in init and "self.connect_task = None" in init
          and "self.reconnect_timeout = reconnect_timeout" in init, "Transport.__init__ shape")
    _need(_body(_find(tr.body, FN, "disconnect", "Transport")) == [
        "if not self.protocol or not self.protocol.transport:\n    self.protocol = None\n    return",
        "self.protocol.transport.close()", "self.protocol = None"], "Transport.disconnect shape")
    send = _raw(_find(tr.body, FN, "send", "Transport"))
    _need([_norm(s) for s in send[:3]] == [
        "protocol = self.protocol", "transport = protocol.transport if protocol else None",
        "if not message or not transport:\n    return"], "Transport.send prologue")
    _need(len(send) == 4 and isinstance(send[3], ast.Try) and not send[3].orelse and not send[3].finalbody,
          "Transport.send: try statement expected")
    t = send[3]
    _need([_norm(s) for s in _strip(t.body)] == ["transport.write(message.encode())"], "Transport.send try body")
    _need(len(t.handlers) == 1 and ast.unparse(t.handlers[0].type) == "OSError", "Transport.send handler class")
    hb = [_norm(s) for s in _strip(t.handlers[0].body)]
    _need(hb in (["transport.close()", "protocol.conn_lost_callback()"], ["transport.close()"],
                 ["protocol.conn_lost_callback()"], []), f"Transport.send handler body {hb}")
    f["send_err_closes"] = "transport.close()" in hb
    f["send_err_reconnects"] = "protocol.conn_lost_callback()" in hb
    f["send_catches"] = ["OSError"]

    st = _find(tree.body, ast.ClassDef, "SyncTransport", where)
    _need("self.protocol = BaseMySensorsProtocol(self.gateway, self.connect)"
          in _body(_find(st.body, FN, "__init__", "SyncTransport")), "SyncTransport.__init__ protocol")
    _need(_body(_find(st.body, FN, "connect", "SyncTransport")) == [
        "connect_thread = threading.Thread(target=self._connect, args=(self,))", "connect_thread.start()"],
        "SyncTransport.connect shape")
    _need(_body(_find(st.body, FN, "send", "SyncTransport")) == ["with self._lock:\n    super().send(message)"],
          "SyncTransport.send shape")

    at = _find(tree.body, ast.ClassDef, "AsyncTransport", where)
    ainit = _find(at.body, FN, "__init__", "AsyncTransport")
    cl = _find(ainit.body, FN, "conn_lost", "AsyncTransport.__init__")
    _need(_body(cl) == ["loop = asyncio.get_running_loop()", "self.connect_task = loop.create_task(self.connect())"],
          "AsyncTransport conn_lost shape")
    ab = _body(ainit)
    _need("self.protocol = protocol(self.gateway, conn_lost)" in ab
          and "if not protocol:\n    protocol = AsyncMySensorsProtocol" in ab, "AsyncTransport.__init__ protocol")
    _need(_body(_find(at.body, FN, "connect", "AsyncTransport")) == ["await self._connect(self)"],
          "AsyncTransport.connect shape")

    bp = _find(tree.body, ast.ClassDef, "BaseMySensorsProtocol", where)
    _need([ast.unparse(b) for b in bp.bases] == ["serial.threaded.LineReader"], "BaseMySensorsProtocol bases")
    cm = _body(_find(bp.body, FN, "connection_made", "BaseMySensorsProtocol"))
    _need(cm and cm[0] == "super().connection_made(transport)"
          and all(s == "self._connection_made()" for s in cm[1:]), f"connection_made shape {cm}")
    made1 = len(cm) - 1
    mh = _raw(_find(bp.body, FN, "_connection_made", "BaseMySensorsProtocol"))
    made2 = 0
    for s in mh:
        _need(isinstance(s, ast.If) and not s.orelse and ast.unparse(s.test) == "self.gateway.on_conn_made is not None"
              and all(_norm(x) == "self.gateway.on_conn_made(self.gateway)" for x in _strip(s.body)),
              f"_connection_made statement {_norm(s)}")
        made2 += len(_strip(s.body))
    f["made_calls"] = made1 * made2
    lost = _body(_find(bp.body, FN, "connection_lost", "BaseMySensorsProtocol"))
    _need(lost and lost[-1] == HOOK, f"sync connection_lost must end in the shared hook: {lost}")
    pre = lost[:-1]
    if pre == ["if exc:\n    self.transport.serial.close()"]:
        f["sync_lost_closes"] = "RcOnExc"
    elif pre == ["self.transport.serial.close()"]:
        f["sync_lost_closes"] = "RcAlways"
    elif pre == []:
        f["sync_lost_closes"] = "RcNever"
    else:
        raise TranslateError(f"sync connection_lost prologue {pre}")
    f["hook_user_lost"], f["hook_reconnect"] = _hook_shape(
        _body(_find(bp.body, FN, "_connection_lost", "BaseMySensorsProtocol")), "_connection_lost")

    ap = _find(tree.body, ast.ClassDef, "AsyncMySensorsProtocol", where)
    _need([ast.unparse(b) for b in ap.bases] == ["BaseMySensorsProtocol", "asyncio.Protocol"], "AsyncMySensorsProtocol bases")
    _need({n.name for n in ap.body if isinstance(n, FN)} == {"connection_lost"}, "AsyncMySensorsProtocol overrides")
    _need(_body(_find(ap.body, FN, "connection_lost", "AsyncMySensorsProtocol")) == [HOOK],
          "AsyncMySensorsProtocol.connection_lost must be the shared hook")


# ------------------------------------------------------------------ connect loops

def _handler_kind(body, sleep_stmt, where):
    b = [_norm(s) for s in _strip(body)]
    if b == [sleep_stmt]:
        return "FailSleepRetry"
    if b == []:
        return "FailRetryNow"
    if b and b[-1] in ("return", "break") and all(x == sleep_stmt for x in b[:-1]):
        return "FailGiveUp"
    raise TranslateError(f"{where}: unexpected except body {b}")


def _loop_guard(w, where):
    _need(isinstance(w, ast.While) and not w.orelse, f"{where}: while loop expected")
    t = ast.unparse(w.test)
    _need(t in ("transport.protocol", "True"), f"{where}: loop condition {t}")
    return t == "transport.protocol"


def _try_of_loop(w, where):
    b = _strip(w.body)
    _need(len(b) == 1 and isinstance(b[0], ast.Try) and not b[0].finalbody, f"{where}: loop body must be one try")
    return b[0]


def _kinds(t, classes, sleep_stmt, where):
    got = [ast.unparse(h.type) for h in t.handlers]
    _need(got == classes, f"{where}: caught classes {got}")
    ks = {_handler_kind(h.body, sleep_stmt, where) for h in t.handlers}
    _need(len(ks) == 1, f"{where}: handlers differ {ks}")
    return ks.pop()


def _async_outer(fn, where):
    b = _raw(fn)
    _need(len(b) == 2 and _norm(b[0]) == "loop = asyncio.get_running_loop()" and isinstance(b[1], ast.Try)
          and not b[1].orelse and not b[1].finalbody and len(b[1].handlers) == 1
          and ast.unparse(b[1].handlers[0].type) == "asyncio.CancelledError"
          and [_norm(s) for s in _strip(b[1].handlers[0].body)] == ["raise"], f"{where}: outer shape")
    inner = _strip(b[1].body)
    _need(len(inner) == 1, f"{where}: one loop expected")
    return inner[0]


def serial_facts(f):
    tree, _ = _parse(core.REPO / "mysensors" / "gateway_serial.py")
    sc = _find(tree.body, FN, "sync_connect", "gateway_serial.py")
    b = _raw(sc)
    _need(len(b) == 1, "serial sync_connect: one loop expected")
    f["sser_guard_protocol"] = _loop_guard(b[0], "serial sync_connect")
    t = _try_of_loop(b[0], "serial sync_connect")
    _need([_norm(s) for s in _strip(t.body)] == [
        "ser = serial.serial_for_url(transport.gateway.port, transport.gateway.baud, timeout=transport.timeout)"],
        "serial sync_connect try body")
    f["sser_fail"] = _kinds(t, ["serial.SerialException"], "time.sleep(transport.reconnect_timeout)", "serial sync_connect")
    f["sser_catches"] = ["serial.SerialException"]
    _need([_norm(s) for s in _strip(t.orelse)] == [
        "serial_transport = serial.threaded.ReaderThread(ser, lambda: transport.protocol)",
        "serial_transport.daemon = False", "serial_transport.start()", "serial_transport.connect()", "return"],
        "serial sync_connect success path")
    ac = _find(tree.body, FN, "async_connect", "gateway_serial.py")
    w = _async_outer(ac, "serial async_connect")
    f["aser_guard_protocol"] = _loop_guard(w, "serial async_connect")
    t = _try_of_loop(w, "serial async_connect")
    _need(not t.orelse and [_norm(s) for s in _strip(t.body)] == [
        "await serial_asyncio.create_serial_connection(loop, lambda: transport.protocol, transport.gateway.port, transport.gateway.baud)",
        "return"], "serial async_connect try body")
    f["aser_fail"] = _kinds(t, ["serial.SerialException"], "await asyncio.sleep(transport.reconnect_timeout)", "serial async_connect")
    f["aser_catches"] = ["serial.SerialException"]
    for cls, base, conn in (("SerialGateway", "SyncTransport", "sync_connect"), ("AsyncSerialGateway", "AsyncTransport", "async_connect")):
        c = _find(tree.body, ast.ClassDef, cls, "gateway_serial.py")
        ib = _body(_find(c.body, FN, "__init__", cls))
        _need(ib == [f"transport = {base}(self, {conn}, timeout=timeout, reconnect_timeout=reconnect_timeout)",
                     "super().__init__(transport, *args, **kwargs)"], f"{cls}.__init__ shape {ib}")


RUN_TEMPLATE = """self.protocol = self.protocol_factory()
try:
    self.protocol.connection_made(self)
except Exception as exc:
    self.alive = False
    self.protocol.connection_lost(exc)
    self._connection_made.set()
    return
error = None
self._connection_made.set()
while self.alive:
    data = None
    try:
        available_socks = self._check_socket()
        if available_socks[0]:
            data = self.sock.recv(<RECV>)
    except Exception as exc:
        error = exc
        break
    else:
        if data:
            try:
                self.protocol.data_received(data)
            except Exception as exc:
                error = exc
                break
    try:
        self._check_connection()
    except OSError as exc:
        error = exc
        break
    time.sleep(<SLEEP>)
self.alive = False
self.protocol.connection_lost(error)
self.protocol = None"""


def _frac(text):
    _need(re.fullmatch(r"[0-9]+(\.[0-9]+)?", text) is not None, f"numeric literal {text!r}")
    return Fraction(text)


def tcp_facts(f):
    tree, src = _parse(core.REPO / "mysensors" / "gateway_tcp.py")
    where = "gateway_tcp.py"
    bg = _find(tree.body, ast.ClassDef, "BaseTCPGateway", where)
    ib = _body(_find(bg.body, FN, "__init__", "BaseTCPGateway"))
    _need("self.const.Internal.I_VERSION.set_handler(self.handlers, self._handle_i_version)" in ib
          and "self.tcp_check_timer = time.time()" in ib and "self.tcp_disconnect_timer = time.time()" in ib,
          "BaseTCPGateway.__init__ shape")
    cc = _raw(_find(bg.body, FN, "check_connection", "BaseTCPGateway"))
    _need(len(cc) == 5 and isinstance(cc[0], ast.If) and isinstance(cc[1], ast.If), "check_connection shape")
    m = re.fullmatch(r"self\.tcp_disconnect_timer \+ ([0-9]+) \* self\.tasks\.transport\.reconnect_timeout < time\.time\(\)",
                     ast.unparse(cc[0].test))
    _need(m is not None and not cc[0].orelse, f"check_connection drop test {ast.unparse(cc[0].test)}")
    f["wd_factor"] = int(m.group(1))
    db = _strip(cc[0].body)
    _need(len(db) == 2 and _norm(db[0]) == "self.tcp_disconnect_timer = time.time()" and isinstance(db[1], ast.Raise)
          and isinstance(db[1].exc, ast.Call) and ast.unparse(db[1].exc.func) == "OSError", "check_connection drop body")
    _need(_norm(cc[1]) == "if self.tcp_check_timer + self.tasks.transport.reconnect_timeout >= time.time():\n    return",
          f"check_connection idle test {_norm(cc[1])}")
    _need([_norm(s) for s in cc[2:]] == [
        "msg = Message().modify(child_id=255, type=self.const.MessageType.internal, sub_type=self.const.Internal.I_VERSION)",
        "self.tasks.add_job(msg.encode)", "self.tcp_check_timer = time.time()"], "check_connection probe part")
    hv = _body(_find(bg.body, FN, "_handle_i_version", "BaseTCPGateway"))
    _need(hv in (["self.tcp_disconnect_timer = time.time()", "return None"], ["return None"]), f"_handle_i_version {hv}")
    f["wd_reset_on_answer"] = len(hv) == 2

    sc = _find(tree.body, FN, "sync_connect", where)
    b = _raw(sc)
    _need(len(b) == 1, "tcp sync_connect: one loop expected")
    f["stcp_guard_protocol"] = _loop_guard(b[0], "tcp sync_connect")
    t = _try_of_loop(b[0], "tcp sync_connect")
    _need([_norm(s) for s in _strip(t.body)] == [
        "sock = socket.create_connection(transport.gateway.server_address, transport.reconnect_timeout)"],
        "tcp sync_connect try body")
    f["stcp_fail"] = _kinds(t, ["socket.timeout", "OSError"], "time.sleep(transport.reconnect_timeout)", "tcp sync_connect")
    f["stcp_catches"] = ["socket.timeout", "OSError"]
    _need([_norm(s) for s in _strip(t.orelse)] == [
        "transport.gateway.tcp_check_timer = time.time()", "transport.gateway.tcp_disconnect_timer = time.time()",
        "tcp_transport = TCPTransport(sock, lambda: transport.protocol, transport.gateway.check_connection)",
        "tcp_transport.start()", "tcp_transport.connect()", "return"], "tcp sync_connect success path")

    ac = _find(tree.body, FN, "async_connect", where)
    w = _async_outer(ac, "tcp async_connect")
    f["atcp_guard_protocol"] = _loop_guard(w, "tcp async_connect")
    t = _try_of_loop(w, "tcp async_connect")
    _need(not t.orelse and [_norm(s) for s in _strip(t.body)] == [
        "await asyncio.wait_for(loop.create_connection(lambda: transport.protocol, *transport.gateway.server_address), transport.reconnect_timeout)",
        "transport.gateway.tcp_check_timer = time.time()", "transport.gateway.tcp_disconnect_timer = time.time()",
        "transport.gateway.check_connection()", "return"], "tcp async_connect try body")
    f["atcp_fail"] = _kinds(t, ["asyncio.TimeoutError", "OSError"], "await asyncio.sleep(transport.reconnect_timeout)", "tcp async_connect")
    f["atcp_catches"] = ["asyncio.TimeoutError", "OSError"]

    ag = _find(tree.body, ast.ClassDef, "AsyncTCPGateway", where)
    ib = _body(_find(ag.body, FN, "__init__", "AsyncTCPGateway"))
    _need(ib == ["self.cancel_check_conn = None", "protocol = AsyncTCPMySensorsProtocol",
                 "transport = AsyncTransport(self, async_connect, protocol=protocol, timeout=timeout, reconnect_timeout=reconnect_timeout)",
                 "super().__init__(transport, *args, **kwargs)"], f"AsyncTCPGateway.__init__ shape {ib}")
    tg = _find(tree.body, ast.ClassDef, "TCPGateway", where)
    _need(_body(_find(tg.body, FN, "__init__", "TCPGateway")) == [
        "transport = SyncTransport(self, sync_connect, timeout=timeout, reconnect_timeout=reconnect_timeout)",
        "super().__init__(transport, *args, **kwargs)"], "TCPGateway.__init__ shape")
    acc = _raw(_find(ag.body, FN, "check_connection", "AsyncTCPGateway"))
    _need(len(acc) == 4 and isinstance(acc[0], ast.Try) and not acc[0].orelse and not acc[0].finalbody
          and [_norm(s) for s in _strip(acc[0].body)] == ["super().check_connection()"]
          and len(acc[0].handlers) == 1 and ast.unparse(acc[0].handlers[0].type) == "OSError",
          "AsyncTCPGateway.check_connection try shape")
    hb = [_norm(s) for s in _strip(acc[0].handlers[0].body)]
    _need(hb == ["self.tasks.transport.protocol.transport.close()", "self.tasks.transport.protocol.conn_lost_callback()", "return"],
          f"AsyncTCPGateway.check_connection drop handler {hb}")
    f["atcp_check_catches"] = ["OSError"]
    _need(_norm(acc[1]) == "loop = asyncio.get_running_loop()" and _norm(acc[3]) == "self.cancel_check_conn = task.cancel",
          "AsyncTCPGateway.check_connection re-arm shape")
    m = re.fullmatch(r"task = loop\.call_later\(self\.tasks\.transport\.reconnect_timeout \+ ([0-9.]+), self\.check_connection\)",
                     _norm(acc[2]))
    _need(m is not None, f"call_later shape {_norm(acc[2])}")
    call = acc[2].value.args[0].right
    f["wd_slack"] = _frac(ast.get_source_segment(src, call))

    pc = _find(tree.body, ast.ClassDef, "AsyncTCPMySensorsProtocol", where)
    _need([ast.unparse(b) for b in pc.bases] == ["BaseMySensorsProtocol", "asyncio.Protocol"], "AsyncTCPMySensorsProtocol bases")
    _need({n.name for n in pc.body if isinstance(n, FN)} == {"connection_lost"}, "AsyncTCPMySensorsProtocol overrides")
    lb = _body(_find(pc.body, FN, "connection_lost", "AsyncTCPMySensorsProtocol"))
    cancel = "if self.gateway.cancel_check_conn:\n    self.gateway.cancel_check_conn()\n    self.gateway.cancel_check_conn = None"
    f["atcp_lost_cancels_wd"] = bool(lb) and lb[0] == cancel
    if f["atcp_lost_cancels_wd"]:
        lb = lb[1:]
    if lb == [HOOK]:
        f["atcp_lost_via_hook"] = True
        f["atcp_inline_user"], f["atcp_inline_reconnect"] = False, "RcNever"
    else:
        f["atcp_lost_via_hook"] = False
        f["atcp_inline_user"], f["atcp_inline_reconnect"] = _hook_shape(lb, "AsyncTCPMySensorsProtocol.connection_lost")

    tt = _find(tree.body, ast.ClassDef, "TCPTransport", where)
    _need([ast.unparse(b) for b in tt.bases] == ["serial.threaded.ReaderThread"], "TCPTransport bases")
    _need({n.name for n in tt.body if isinstance(n, FN)} == {"__init__", "_check_socket", "write", "run"}, "TCPTransport methods")
    run = _find(tt.body, FN, "run", "TCPTransport")
    text = "\n".join(_body(run))
    m1 = re.search(r"self\.sock\.recv\(([0-9]+)\)", text)
    m2 = re.search(r"time\.sleep\(([0-9.]+)\)", text)
    _need(m1 is not None and m2 is not None, "TCPTransport.run: recv/sleep literals")
    templ = RUN_TEMPLATE.replace("<RECV>", m1.group(1)).replace("<SLEEP>", m2.group(1))
    _need(text == templ, "TCPTransport.run body differs from the transcribed shape")
    f["recv_size"] = int(m1.group(1))
    f["reader_sleep"] = _frac(m2.group(1))
    _need(_body(_find(tt.body, FN, "_check_socket", "TCPTransport")) == [
        "sock = self.sock", "available_socks = select.select([sock], [sock], [sock], timeout)",
        "if available_socks[2]:\n    raise OSError", "return available_socks"], "TCPTransport._check_socket shape")
    _need(_body(_find(tt.body, FN, "write", "TCPTransport")) == ["with self._lock:\n    self.sock.sendall(data)"],
          "TCPTransport.write shape")


# ------------------------------------------------------------------ task.py

def task_facts(f):
    tree, _ = _parse(core.REPO / "mysensors" / "task.py")
    st = _find(tree.body, ast.ClassDef, "SyncTasks", "task.py")
    _need(_body(_find(st.body, FN, "start", "SyncTasks")) == [
        "self.transport.connect()", "poll_thread = threading.Thread(target=self._poll_queue)", "poll_thread.start()"],
        "SyncTasks.start shape")
    head = "while not self._stop_event.is_set():\n    reply = self.run_job()\n    self.transport.send(reply)\n"
    _need(_body(_find(st.body, FN, "_poll_queue", "SyncTasks")) in (
        [head + "    if self.queue:\n        continue\n    time.sleep(0.02)"],
        [head + "    if not self.queue:\n        time.sleep(0.02)"]),           # the same loop said differently
        "SyncTasks._poll_queue shape")
    tail = ["if not self.persistence:\n    return",
            "if self._cancel_save is not None:\n    self._cancel_save()\n    self._cancel_save = None",
            "self.persistence.save_sensors()"]
    sb = _body(_find(st.body, FN, "stop", "SyncTasks"))
    f["sync_stop_disconnects"] = bool(sb) and sb[0] == "self.transport.disconnect()"
    if f["sync_stop_disconnects"]:
        sb = sb[1:]
    _need(sb == ["self._stop_event.set()"] + tail, f"SyncTasks.stop shape {sb}")
    at = _find(tree.body, ast.ClassDef, "AsyncTasks", "task.py")
    _need(_body(_find(at.body, FN, "start", "AsyncTasks")) == ["await self.transport.connect()"], "AsyncTasks.start shape")
    ab = _body(_find(at.body, FN, "stop", "AsyncTasks"))
    f["async_stop_disconnects"] = bool(ab) and ab[0] == "self.transport.disconnect()"
    if f["async_stop_disconnects"]:
        ab = ab[1:]
    cancel = ("if self.transport.connect_task and (not self.transport.connect_task.cancelled()):\n"
              "    self.transport.connect_task.cancel()\n    self.transport.connect_task = None")
    f["async_stop_cancels"] = bool(ab) and ab[0] == cancel
    if f["async_stop_cancels"]:
        ab = ab[1:]
    atail = [tail[0], "if self._cancel_save is not None:\n    await self._cancel_save()\n    self._cancel_save = None",
             "loop = asyncio.get_running_loop()", "await loop.run_in_executor(None, self.persistence.save_sensors)"]
    _need(ab == atail, f"AsyncTasks.stop shape {ab}")
    _need(_body(_find(at.body, FN, "add_job", "AsyncTasks")) == [
        "job = (func, args)", "reply = self.run_job(job)", "self.transport.send(reply)"], "AsyncTasks.add_job shape")
    _need(_body(_find(st.body, FN, "add_job", "SyncTasks")) == ["self.queue.append((func, args))"], "SyncTasks.add_job shape")


# ------------------------------------------------------------------ pyserial

READER_SHA = "40fb074ce1b44d75"


def pyserial_facts(f):
    spec = importlib.util.find_spec("serial.threaded")
    _need(spec is not None and spec.origin, "serial.threaded not installed")
    tree, _ = _parse(spec.origin)
    rt = _find(tree.body, ast.ClassDef, "ReaderThread", "serial.threaded")
    text = "\n\n".join(ast.unparse(_find(rt.body, FN, n, "ReaderThread")) for n in ("__init__", "stop", "run", "write", "close", "connect"))
    sha = hashlib.sha256(text.encode()).hexdigest()[:16]
    f["reader_thread_sha"] = sha
    _need(sha == READER_SHA, f"serial.threaded.ReaderThread differs from the transcribed pyserial 3.5 source (sha {sha})")
    pk = _find(tree.body, ast.ClassDef, "Packetizer", "serial.threaded")
    _need(_body(_find(pk.body, FN, "connection_made", "Packetizer")) == ["self.transport = transport"],
          "Packetizer.connection_made shape")


# ------------------------------------------------------------------ render

def facts():
    f = {}
    transport_facts(f)
    serial_facts(f)
    tcp_facts(f)
    task_facts(f)
    pyserial_facts(f)
    return f


def _b(v):
    return "true" if v else "false"


def _strs(l):
    return "[" + "; ".join('"%s"' % s for s in l) + "]"


def generate():
    f = facts()
    _need(f["wd_factor"] >= 1, "watchdog factor")
    o = []
    o.append("(* GENERATED by harness/translate/sup_consts.py from the current working tree of the repo. *)")
    o.append("From Coq Require Import ZArith List String.")
    o.append("Import ListNotations.")
    o.append("Open Scope Z_scope.")
    o.append("")
    o.append("Inductive recon_cond := RcOnExc | RcAlways | RcNever.")
    o.append("Inductive fail_kind := FailSleepRetry | FailRetryNow | FailGiveUp.")
    o.append("")
    o.append(f"Definition wd_factor : Z := {f['wd_factor']}.")
    o.append(f"Definition wd_slack_num : Z := {f['wd_slack'].numerator}.")
    o.append(f"Definition wd_slack_den : Z := {f['wd_slack'].denominator}.")
    o.append(f"Definition reader_sleep_num : Z := {f['reader_sleep'].numerator}.")
    o.append(f"Definition reader_sleep_den : Z := {f['reader_sleep'].denominator}.")
    o.append(f"Definition recv_size : Z := {f['recv_size']}.")
    o.append(f"Definition wd_reset_on_answer : bool := {_b(f['wd_reset_on_answer'])}.")
    o.append(f"Definition made_calls : nat := {f['made_calls']}.")
    o.append(f"Definition hook_user_lost : bool := {_b(f['hook_user_lost'])}.")
    o.append(f"Definition hook_reconnect : recon_cond := {f['hook_reconnect']}.")
    o.append(f"Definition sync_lost_closes : recon_cond := {f['sync_lost_closes']}.")
    o.append(f"Definition atcp_lost_cancels_wd : bool := {_b(f['atcp_lost_cancels_wd'])}.")
    o.append(f"Definition atcp_lost_via_hook : bool := {_b(f['atcp_lost_via_hook'])}.")
    o.append(f"Definition atcp_inline_user : bool := {_b(f['atcp_inline_user'])}.")
    o.append(f"Definition atcp_inline_reconnect : recon_cond := {f['atcp_inline_reconnect']}.")
    o.append(f"Definition send_err_closes : bool := {_b(f['send_err_closes'])}.")
    o.append(f"Definition send_err_reconnects : bool := {_b(f['send_err_reconnects'])}.")
    o.append(f"Definition sser_guard_protocol : bool := {_b(f['sser_guard_protocol'])}.")
    o.append(f"Definition stcp_guard_protocol : bool := {_b(f['stcp_guard_protocol'])}.")
    o.append(f"Definition aser_guard_protocol : bool := {_b(f['aser_guard_protocol'])}.")
    o.append(f"Definition atcp_guard_protocol : bool := {_b(f['atcp_guard_protocol'])}.")
    for k in ("sser_fail", "stcp_fail", "aser_fail", "atcp_fail"):
        o.append(f"Definition {k} : fail_kind := {f[k]}.")
    o.append(f"Definition sync_stop_disconnects : bool := {_b(f['sync_stop_disconnects'])}.")
    o.append(f"Definition async_stop_disconnects : bool := {_b(f['async_stop_disconnects'])}.")
    o.append(f"Definition async_stop_cancels : bool := {_b(f['async_stop_cancels'])}.")
    o.append("(* exception classes caught (documentation; the harness raises exactly these) *)")
    for k in ("send_catches", "sser_catches", "stcp_catches", "aser_catches", "atcp_catches", "atcp_check_catches"):
        o.append(f"Definition {k} : list string := {_strs(f[k])}%string.")
    o.append(f'Definition reader_thread_sha : string := "{f["reader_thread_sha"]}"%string.')
    o.append("")
    return "\n".join(o)


if __name__ == "__main__":
    print(generate())
