"""Generate Gen/Signatures.v from the working tree of the repo (C18).

For the six gateway classes and every class their constructors instantiate
(transports, tasks, persistence): the live ``__mro__``, ``inspect.signature``
of every own ``__init__`` and an AST summary of its body in the small
statement language of Model/ConfigSyntax.v (what is forwarded to whom, which
attribute is set from which name).  Plus what get_const / is_version /
safe_is_version / Gateway.is_sensor / the Sensor.protocol_version setter say
about version selection, and the constructor calls shown in README.md and the
example scripts.

Fail closed: any construct outside the recognised shapes raises
TranslateError and nothing is emitted.
"""
import ast
import importlib
import inspect
import re
import sys
import textwrap
import types
from pathlib import Path

from harness import core

TARGET = "Signatures.v"

GATEWAYS = [
    ("mysensors.gateway_serial", "SerialGateway"),
    ("mysensors.gateway_serial", "AsyncSerialGateway"),
    ("mysensors.gateway_tcp", "TCPGateway"),
    ("mysensors.gateway_tcp", "AsyncTCPGateway"),
    ("mysensors.gateway_mqtt", "MQTTGateway"),
    ("mysensors.gateway_mqtt", "AsyncMQTTGateway"),
]
# classes of these modules are interpreted by the model; every other callee is opaque
INTERPRETED_MODULES = {
    "mysensors", "mysensors.gateway_serial", "mysensors.gateway_tcp", "mysensors.gateway_mqtt",
    "mysensors.transport", "mysensors.task", "mysensors.persistence",
}
EXAMPLE_FILES = ["README.md", "mqtt.py", "main.py", "async_main.py"]


class TranslateError(Exception):
    pass



def refused_strategies(test, alias):
    """The set of awesomeversion strategies that is_version refuses before comparing, from the test
    `<alias>.strategy == AwesomeVersionStrategy.X` or `<alias>.strategy in (AwesomeVersionStrategy.X, ...)`;
    None for any other shape.  SPECIALCONTAINER must be among them (fix b5ee08d)."""
    import awesomeversion
    S = awesomeversion.AwesomeVersionStrategy
    if not (isinstance(test, ast.Compare) and len(test.ops) == 1 and len(test.comparators) == 1
            and ast.unparse(test.left).replace(" ", "") == f"{alias}.strategy"):
        return None
    rhs = test.comparators[0]
    if isinstance(test.ops[0], ast.Eq):
        elts = [rhs]
    elif isinstance(test.ops[0], ast.In) and isinstance(rhs, (ast.Tuple, ast.List, ast.Set)):
        elts = list(rhs.elts)
    else:
        return None
    out = set()
    for e in elts:
        if not (isinstance(e, ast.Attribute) and isinstance(e.value, ast.Name) and e.value.id == "AwesomeVersionStrategy"
                and hasattr(S, e.attr)):
            return None
        out.add(getattr(S, e.attr))
    return out if S.SPECIALCONTAINER in out else None


def live_refused_strategies():
    """The refused set of the is_version of the tree under check (empty set when there is no such test)."""
    import inspect
    import textwrap
    from mysensors import validation
    fn = ast.parse(textwrap.dedent(inspect.getsource(validation.is_version))).body[0]
    for node in ast.walk(fn):
        if isinstance(node, ast.If) and isinstance(node.test, ast.Compare) and ".strategy" in ast.unparse(node.test.left):
            alias = ast.unparse(node.test.left).split(".")[0]
            r = refused_strategies(node.test, alias)
            if r is not None:
                return r
    return set()

def fail(where, node_or_text):
    if isinstance(node_or_text, ast.AST):
        try:
            node_or_text = ast.unparse(node_or_text)
        except Exception:  # pragma: no cover
            node_or_text = ast.dump(node_or_text)
    raise TranslateError(f"{where}: unexpected construct: {str(node_or_text)[:160]}")


# ------------------------------------------------------------------ Coq rendering

def pstr(s):
    if all(32 <= ord(c) < 127 and c != '"' for c in s):
        return f'(s2p "{s}")'
    return "[" + "; ".join(str(ord(c)) for c in s) + "]%N"


def plist(items):
    return "[" + "; ".join(items) + "]"


def val(obj, where):
    if obj is None:
        return "VNone"
    if obj is True or obj is False:
        return "(VBool %s)" % ("true" if obj else "false")
    if isinstance(obj, int):
        return "(VInt (%d)%%Z)" % obj
    if isinstance(obj, float):
        return "(VFloat %s)" % pstr(repr(obj))
    if isinstance(obj, str):
        return "(VStr %s)" % pstr(obj)
    fail(where, f"constant of type {type(obj).__name__}: {obj!r}")


def obj_tag(tag):
    return "(VObj %s)" % pstr(tag)


# ------------------------------------------------------------------ live objects

def load():
    repo = str(core.REPO.resolve())
    mods = {}
    import mysensors  # noqa
    for name in sorted(INTERPRETED_MODULES | {"mysensors.const", "mysensors.validation", "mysensors.sensor",
                                              "mysensors.handler"}):
        m = importlib.import_module(name)
        f = str(Path(m.__file__).resolve())
        if not f.startswith(repo + "/"):
            raise TranslateError(f"module {name} loaded from {f}, not from {repo}")
        mods[name] = m
    return mods


def interpreted(cls):
    return (isinstance(cls, type) and cls is not object
            and all(c is object or c.__module__ in INTERPRETED_MODULES for c in cls.__mro__))


def func_ast(fn, where, any_decorator=False):
    try:
        src = textwrap.dedent(inspect.getsource(fn))
    except (OSError, TypeError) as exc:
        raise TranslateError(f"{where}: no source: {exc}")
    tree = ast.parse(src)
    if len(tree.body) != 1 or not isinstance(tree.body[0], ast.FunctionDef):
        fail(where, "not a plain function definition")
    node = tree.body[0]
    if node.decorator_list and not any_decorator:
        d = node.decorator_list
        if not (len(d) == 1 and ((isinstance(d[0], ast.Attribute) and d[0].attr == "setter")
                                 or (isinstance(d[0], ast.Name) and d[0].id == "property"))):
            fail(where, "decorated function")
    return node


def strip_doc(body):
    if body and isinstance(body[0], ast.Expr) and isinstance(body[0].value, ast.Constant) \
            and isinstance(body[0].value.value, str):
        return body[1:]
    return body


# ------------------------------------------------------------------ __init__ summaries

class InitSummary:
    def __init__(self, cls, queue):
        self.cls = cls
        self.queue = queue
        self.where = f"{cls.__module__}.{cls.__qualname__}.__init__"
        fn = cls.__dict__["__init__"]
        if not isinstance(fn, types.FunctionType):
            fail(self.where, f"__init__ is a {type(fn).__name__}")
        self.fn = fn
        self.node = func_ast(fn, self.where)
        self.sig = inspect.signature(fn)
        self.locals = set()

    # ---- signature
    def signature(self):
        params = list(self.sig.parameters.values())
        if not params or params[0].name != "self" or params[0].kind is not inspect.Parameter.POSITIONAL_OR_KEYWORD:
            fail(self.where, "first parameter is not self")
        out, star, dstar = [], "None", "None"
        seen_kwonly = False
        for p in params[1:]:
            self.locals.add(p.name)
            if p.kind is inspect.Parameter.POSITIONAL_OR_KEYWORD:
                if seen_kwonly:
                    fail(self.where, "parameter order")
                kind = "PosOrKw"
            elif p.kind is inspect.Parameter.KEYWORD_ONLY:
                seen_kwonly = True
                kind = "KwOnly"
            elif p.kind is inspect.Parameter.VAR_POSITIONAL:
                star = "(Some %s)" % pstr(p.name)
                continue
            elif p.kind is inspect.Parameter.VAR_KEYWORD:
                dstar = "(Some %s)" % pstr(p.name)
                continue
            else:
                fail(self.where, f"parameter kind {p.kind}")
            if p.default is inspect.Parameter.empty:
                d = "None"
            else:
                d = "(Some %s)" % val(p.default, self.where + " default of " + p.name)
            out.append(f"mkParam {pstr(p.name)} {kind} {d}")
        self.star = None if star == "None" else [p.name for p in params if p.kind is inspect.Parameter.VAR_POSITIONAL][0]
        self.dstar = None if dstar == "None" else [p.name for p in params if p.kind is inspect.Parameter.VAR_KEYWORD][0]
        return f"mkSig {plist(out)} {star} {dstar}"

    # ---- atoms
    def collect_locals(self, body):
        for st in body:
            for n in ast.walk(st):
                if isinstance(n, ast.Name) and isinstance(n.ctx, ast.Store):
                    self.locals.add(n.id)
                if isinstance(n, (ast.FunctionDef, ast.AsyncFunctionDef)) and n is not self.node:
                    self.locals.add(n.name)

    def atom(self, e):
        if isinstance(e, ast.Constant):
            return "ALit %s" % val(e.value, self.where)
        if isinstance(e, ast.Name):
            if e.id == "self":
                return "ASelf"
            if e.id in (self.star, self.dstar):
                fail(self.where, f"*{e.id} used as a value")
            if e.id in self.locals:
                return "AName %s" % pstr(e.id)
            if e.id in self.fn.__globals__ or hasattr(__builtins__, e.id) or e.id in dir(__import__("builtins")):
                return "ALit %s" % obj_tag("global:" + e.id)
            fail(self.where, f"unbound name {e.id}")
        if isinstance(e, ast.Attribute) and isinstance(e.value, ast.Name) and e.value.id == "self":
            # a method / class attribute is an opaque bound object, anything else an instance attribute
            if hasattr(self.cls, e.attr):
                return "ALit %s" % obj_tag("self." + e.attr)
            return "ASelfAttr %s" % pstr(e.attr)
        return None

    def need_atom(self, e):
        a = self.atom(e)
        if a is None:
            fail(self.where, e)
        return a

    def args(self, call):
        out = []
        for a in call.args:
            if isinstance(a, ast.Starred):
                if not (isinstance(a.value, ast.Name) and a.value.id == self.star):
                    fail(self.where, a)
                out.append("AStar %s" % pstr(a.value.id))
            else:
                out.append("APos (%s)" % self.need_atom(a))
        for k in call.keywords:
            if k.arg is None:
                if not (isinstance(k.value, ast.Name) and k.value.id == self.dstar):
                    fail(self.where, k.value)
                out.append("ADStar %s" % pstr(k.value.id))
            else:
                out.append("AKw %s (%s)" % (pstr(k.arg), self.need_atom(k.value)))
        return plist(out)

    def mentions_varargs(self, e):
        return any(isinstance(n, ast.Name) and n.id in (self.star, self.dstar) for n in ast.walk(e))

    # ---- right-hand sides
    def rhs(self, e):
        a = self.atom(e)
        if a is not None:
            return "RAtom (%s)" % a
        if isinstance(e, ast.Tuple) and len(e.elts) == 2:
            return "RPair (%s) (%s)" % (self.need_atom(e.elts[0]), self.need_atom(e.elts[1]))
        if isinstance(e, ast.Call) and isinstance(e.func, ast.Name) and e.func.id not in self.locals:
            target = self.fn.__globals__.get(e.func.id)
            if interpreted(target):
                self.queue.append(target)
                return "RNew %s %s" % (pstr(target.__qualname__), self.args(e))
            import mysensors.const
            import mysensors.validation
            if target is mysensors.validation.safe_is_version or target is mysensors.const.get_const:
                if len(e.args) != 1 or e.keywords or isinstance(e.args[0], ast.Starred):
                    fail(self.where, e)
                f = "FSafeIsVersion" if target is mysensors.validation.safe_is_version else "FGetConst"
                return "RFun %s (%s)" % (f, self.need_atom(e.args[0]))
            if target is mysensors.validation.is_version:
                fail(self.where, e)
        # anything else is opaque, but it must not swallow *args / **kwargs
        if self.mentions_varargs(e):
            fail(self.where, e)
        return "ROpaque %s" % pstr(re.sub(r"\s+", " ", ast.unparse(e))[:60])

    # ---- statements
    def is_super_init(self, e):
        return (isinstance(e, ast.Call) and isinstance(e.func, ast.Attribute) and e.func.attr == "__init__"
                and isinstance(e.func.value, ast.Call) and isinstance(e.func.value.func, ast.Name)
                and e.func.value.func.id == "super" and not e.func.value.args and not e.func.value.keywords)

    def stmts(self, body):
        out = []
        for st in strip_doc(body):
            if isinstance(st, ast.Expr):
                if self.is_super_init(st.value):
                    out.append("SSuper %s" % self.args(st.value))
                elif isinstance(st.value, ast.Call):
                    # a call for effect: allowed when it is a method call on something reached from
                    # self (registers a handler, ...) and does not forward *args / **kwargs
                    root = st.value.func
                    while isinstance(root, ast.Attribute):
                        root = root.value
                    if not (isinstance(root, ast.Name) and root.id == "self") or self.mentions_varargs(st.value) \
                            or isinstance(st.value.func, ast.Name):
                        fail(self.where, st)
                    out.append("SSkip %s" % pstr(re.sub(r"\s+", " ", ast.unparse(st.value.func))[:60]))
                else:
                    fail(self.where, st)
            elif isinstance(st, ast.Assign):
                if len(st.targets) != 1:
                    fail(self.where, st)
                t = st.targets[0]
                if isinstance(t, ast.Attribute) and isinstance(t.value, ast.Name) and t.value.id == "self":
                    out.append("SSet %s (%s)" % (pstr(t.attr), self.rhs(st.value)))
                elif isinstance(t, ast.Name):
                    if t.id in (self.star, self.dstar, "self"):
                        fail(self.where, st)
                    out.append("SLet %s (%s)" % (pstr(t.id), self.rhs(st.value)))
                else:
                    fail(self.where, st)
            elif isinstance(st, ast.If):
                test, neg = st.test, "false"
                if isinstance(test, ast.UnaryOp) and isinstance(test.op, ast.Not):
                    test, neg = test.operand, "true"
                a = self.atom(test)
                if a is None:
                    fail(self.where, st.test)
                out.append("SIf %s (%s) %s %s" % (neg, a, self.stmts(st.body), self.stmts(st.orelse)))
            elif isinstance(st, ast.FunctionDef):
                # a local closure (connection lost hook): an opaque local value
                if any(isinstance(n, (ast.Nonlocal, ast.Global)) for n in ast.walk(st)):
                    fail(self.where, st)
                for n in ast.walk(st):
                    if isinstance(n, ast.Name) and isinstance(n.ctx, ast.Store) and n.id in self.locals - {st.name}:
                        # assigning an outer local inside the closure has no effect without nonlocal
                        pass
                out.append("SLet %s (ROpaque %s)" % (pstr(st.name), pstr("closure:" + st.name)))
            elif isinstance(st, ast.Pass):
                continue
            else:
                fail(self.where, st)
        return plist(out)

    def render(self):
        sig = self.signature()
        self.collect_locals(self.node.body)
        body = self.stmts(self.node.body)
        return f"(Some ({sig},\n      {body}))"


def class_table(mods):
    queue = [getattr(mods[m], n) for m, n in GATEWAYS]
    done, order = {}, []
    while queue:
        cls = queue.pop(0)
        if cls in done:
            continue
        if not interpreted(cls):
            fail(cls.__qualname__, "class outside the interpreted modules in a constructor chain: %s" %
                 [c.__module__ + "." + c.__qualname__ for c in cls.__mro__])
        done[cls] = None
        order.append(cls)
        for base in cls.__mro__[1:]:
            if base is not object:
                queue.append(base)
        if "__new__" in cls.__dict__ or type(cls) is not type:
            fail(cls.__qualname__, "custom __new__ / metaclass")
        if "__init__" in cls.__dict__:
            done[cls] = InitSummary(cls, queue).render()
        else:
            done[cls] = "None"
    names = [c.__qualname__ for c in order]
    if len(set(names)) != len(names):
        fail("class table", "duplicate class names %s" % names)
    rows = []
    for cls in order:
        mro = plist(pstr(c.__qualname__) for c in cls.__mro__ if c is not object)
        rows.append(f"  mkClass {pstr(cls.__qualname__)} {mro}\n    {done[cls]}")
    return rows


# ------------------------------------------------------------------ version tests

OPS = {ast.Lt: "OpLt", ast.LtE: "OpLe", ast.Gt: "OpGt", ast.GtE: "OpGe", ast.Eq: "OpEq", ast.NotEq: "OpNe"}


def vtest(node, where, is_input, loopvar=None, alias=None):
    """alias: a local name bound to AwesomeVersion(<the input>) - counts as the wrapped input."""
    neg = "false"
    if isinstance(node, ast.UnaryOp) and isinstance(node.op, ast.Not):
        neg, node = "true", node.operand
    if not (isinstance(node, ast.Compare) and len(node.ops) == 1 and type(node.ops[0]) in OPS):
        fail(where, node)

    def side(e, must_wrap):
        wrapped = (isinstance(e, ast.Call) and isinstance(e.func, ast.Name) and e.func.id == "AwesomeVersion"
                   and len(e.args) == 1 and not e.keywords)
        if wrapped:
            e = e.args[0]
        elif alias and isinstance(e, ast.Name) and e.id == alias:
            return "VInput"
        elif must_wrap:
            fail(where, e)
        if is_input(e):
            return "VInput"
        if loopvar and isinstance(e, ast.Name) and e.id == loopvar:
            return "VLoop"
        if isinstance(e, ast.Constant) and isinstance(e.value, str) and re.fullmatch(r"\d+(\.\d+)*", e.value):
            return "(VLit %s)" % pstr(e.value)
        fail(where, e)

    left = side(node.left, True)
    right = side(node.comparators[0], False)
    if "VInput" not in (left, right) or left == right:
        fail(where, node)
    return f"mkVTest {neg} {OPS[type(node.ops[0])]} {left} {right}"


def is_name(name):
    return lambda e: isinstance(e, ast.Name) and e.id == name


def version_facts(mods):
    const, validation, sensor, handler = (mods["mysensors.const"], mods["mysensors.validation"],
                                          mods["mysensors.sensor"], mods["mysensors.handler"])
    import awesomeversion
    if mods["mysensors.const"].AwesomeVersion is not awesomeversion.AwesomeVersion or \
            validation.AwesomeVersion is not awesomeversion.AwesomeVersion or \
            mods["mysensors"].AwesomeVersion is not awesomeversion.AwesomeVersion:
        fail("AwesomeVersion", "name does not refer to awesomeversion.AwesomeVersion")
    out = []
    # CONST_VERSIONS
    cv = const.CONST_VERSIONS
    if not isinstance(cv, dict) or not cv:
        fail("CONST_VERSIONS", type(cv).__name__)
    for k, v in cv.items():
        if not (isinstance(k, str) and re.fullmatch(r"[0-9]+(\.[0-9]+)*", k) and isinstance(v, str)):
            fail("CONST_VERSIONS", f"{k!r}: {v!r}")
    out.append("Definition const_versions : list (pstr * pstr) :=\n  %s." %
               plist("(%s, %s)" % (pstr(k), pstr(v)) for k, v in cv.items()))
    # get_const
    w = "const.get_const"
    fn = func_ast(const.get_const, w)
    if [a.arg for a in fn.args.args] != ["protocol_version"] or fn.args.vararg or fn.args.kwarg or fn.args.kwonlyargs:
        fail(w, "signature")
    body = strip_doc(fn.body)
    st = body[0]
    if not (isinstance(st, ast.Assign) and len(st.targets) == 1 and isinstance(st.targets[0], ast.Name)
            and isinstance(st.value, ast.Call) and isinstance(st.value.func, ast.Name) and st.value.func.id == "next"
            and len(st.value.args) == 2 and not st.value.keywords and isinstance(st.value.args[0], ast.GeneratorExp)):
        fail(w, st)
    pathvar = st.targets[0].id
    gen, default = st.value.args
    if not (isinstance(default, ast.Constant) and isinstance(default.value, str)):
        fail(w, default)
    if len(gen.generators) != 1 or gen.generators[0].is_async or len(gen.generators[0].ifs) != 1 \
            or not isinstance(gen.generators[0].target, ast.Name):
        fail(w, gen)
    comp = gen.generators[0]
    loop = comp.target.id
    if ast.dump(gen.elt) != ast.dump(ast.parse(f"CONST_VERSIONS[{loop}]", mode="eval").body):
        fail(w, gen.elt)
    it = ast.unparse(comp.iter).replace(" ", "")
    orders = {
        "sorted(CONST_VERSIONS,reverse=True)": "SortedDesc", "reversed(sorted(CONST_VERSIONS))": "SortedDesc",
        "sorted(CONST_VERSIONS.keys(),reverse=True)": "SortedDesc",
        "sorted(CONST_VERSIONS)": "SortedAsc", "sorted(CONST_VERSIONS,reverse=False)": "SortedAsc",
        "sorted(CONST_VERSIONS.keys())": "SortedAsc",
        "CONST_VERSIONS": "InsertionOrder", "CONST_VERSIONS.keys()": "InsertionOrder",
        "list(CONST_VERSIONS)": "InsertionOrder",
    }
    if it not in orders:
        fail(w, comp.iter)
    out.append("Definition get_const_order : iter_order := %s." % orders[it])
    out.append("Definition get_const_test : vtest := %s." % vtest(comp.ifs[0], w, is_name("protocol_version"), loop))
    out.append("Definition get_const_default : pstr := %s." % pstr(default.value))
    rest = "\n".join(ast.unparse(s) for s in body[1:])
    if f"import_module({pathvar})" not in rest.replace(" ", ""):
        fail(w, "the selected path is not imported: " + rest)
    # is_version
    w = "validation.is_version"
    fn = func_ast(validation.is_version, w)
    body = strip_doc(fn.body)
    if [a.arg for a in fn.args.args] != ["value"] or len(body) != 1 or not isinstance(body[0], ast.Try):
        fail(w, "shape")
    tr = body[0]
    if tr.orelse or tr.finalbody or len(tr.handlers) != 1 or len(tr.body) not in (3, 5):
        fail(w, tr)
    s0, s2 = tr.body[0], tr.body[-1]
    if ast.unparse(s0).replace(" ", "") != "value=str(value)" or ast.unparse(s2) != "return value":
        fail(w, s0 if ast.unparse(s2) == "return value" else s2)

    def if_raise(st):
        if not (isinstance(st, ast.If) and not st.orelse and len(st.body) == 1 and isinstance(st.body[0], ast.Raise)
                and st.body[0].exc is not None):
            fail(w, st)
        r = st.body[0].exc
        r = r.func if isinstance(r, ast.Call) else r
        return eval(compile(ast.Expression(r), "<is_version>", "eval"), validation.__dict__)

    alias, container_raise = None, None
    if len(tr.body) == 5:
        # version = AwesomeVersion(value); if version.strategy == AwesomeVersionStrategy.SPECIALCONTAINER: raise ...
        sa, sc, s1 = tr.body[1:4]
        if not (isinstance(sa, ast.Assign) and len(sa.targets) == 1 and isinstance(sa.targets[0], ast.Name)
                and sa.targets[0].id != "value" and ast.unparse(sa.value).replace(" ", "") == "AwesomeVersion(value)"):
            fail(w, sa)
        alias = sa.targets[0].id
        container_raise = if_raise(sc)
        if refused_strategies(sc.test, alias) is None or \
                validation.__dict__.get("AwesomeVersionStrategy") is not awesomeversion.AwesomeVersionStrategy:
            fail(w, sc.test)
    else:
        s1 = tr.body[1]
    raised_cls = if_raise(s1)
    h = tr.handlers[0]
    caught = eval(compile(ast.Expression(h.type), "<is_version>", "eval"), validation.__dict__)
    caught = caught if isinstance(caught, tuple) else (caught,)
    import voluptuous as vol
    if not (len(h.body) == 1 and isinstance(h.body[0], ast.Raise)):
        fail(w, h)
    reraised = h.body[0].exc.func if isinstance(h.body[0].exc, ast.Call) else h.body[0].exc
    reraised_cls = eval(compile(ast.Expression(reraised), "<is_version>", "eval"), validation.__dict__)
    if not (isinstance(reraised_cls, type) and issubclass(reraised_cls, vol.Invalid)):
        fail(w, h.body[0])
    out.append("Definition is_version_test : vtest := %s." % vtest(s1.test, w, is_name("value"), alias=alias))
    out.append("Definition is_version_catches_own_raise : bool := %s." %
               ("true" if isinstance(raised_cls, type) and issubclass(raised_cls, caught) else "false"))
    out.append("Definition is_version_rejects_container : bool := %s." % ("true" if alias else "false"))
    out.append("(* strategies refused before the comparison (the oracle `cont` of Model/ConfigVersion.v is fed with "
               "\"AwesomeVersion(s).strategy is one of these\"): %s *)" %
               (", ".join(sorted(x.name for x in refused_strategies(sc.test, alias))) if alias else "none"))
    out.append("Definition is_version_catches_container_raise : bool := %s." %
               ("true" if container_raise is None or (isinstance(container_raise, type)
                                                     and issubclass(container_raise, caught)) else "false"))
    out.append("Definition is_version_catches_compare_error : bool := %s." %
               ("true" if issubclass(awesomeversion.AwesomeVersionCompareException, caught) else "false"))
    # safe_is_version
    w = "validation.safe_is_version"
    fn = func_ast(validation.safe_is_version, w)
    body = strip_doc(fn.body)
    if [a.arg for a in fn.args.args] != ["value"] or len(body) != 1 or not isinstance(body[0], ast.Try):
        fail(w, "shape")
    tr = body[0]
    if tr.orelse or tr.finalbody or len(tr.handlers) != 1 or len(tr.body) != 1 or \
            ast.unparse(tr.body[0]) != "return is_version(value)" or validation.__dict__.get("is_version") is not validation.is_version:
        fail(w, tr)
    h = tr.handlers[0]
    hcls = eval(compile(ast.Expression(h.type), "<safe_is_version>", "eval"), validation.__dict__)
    hcls = hcls if isinstance(hcls, tuple) else (hcls,)
    if not issubclass(vol.Invalid, hcls):
        fail(w, h.type)
    ret = h.body[-1]
    for s in h.body[:-1]:
        if not (isinstance(s, ast.Expr) and isinstance(s.value, ast.Call) and ast.unparse(s.value.func).startswith("_LOGGER.")):
            fail(w, s)
    if not (isinstance(ret, ast.Return) and isinstance(ret.value, ast.Constant) and isinstance(ret.value.value, str)):
        fail(w, ret)
    out.append("Definition safe_fallback : pstr := %s." % pstr(ret.value.value))
    # Gateway.is_sensor: the test guarding the presentation request
    w = "Gateway.is_sensor"
    fn = func_ast(mods["mysensors"].Gateway.is_sensor, w)
    hits = []
    for n in ast.walk(fn):
        if isinstance(n, ast.If) and "AwesomeVersion" in ast.unparse(n.test):
            hits.append(n)
    if len(hits) != 1:
        fail(w, "expected one version test, found %d" % len(hits))
    t = hits[0].test
    # `not ret and sensorid in range(BROADCAST_ID + 1) and <version test>`: the node id guard is
    # hand-modelled (Model/Gateway.v node_id_ok, pinned by the fingerprint of is_sensor); only its
    # exact shape is accepted here, the version test is rendered
    if not (isinstance(t, ast.BoolOp) and isinstance(t.op, ast.And) and len(t.values) == 3
            and ast.unparse(t.values[0]) == "not ret"
            and ast.unparse(t.values[1]) == "sensorid in range(BROADCAST_ID + 1)"
            and fn.args.args[1].arg == "sensorid"
            and getattr(mods["mysensors"], "BROADCAST_ID", None) == 255):
        fail(w, t)
    if "I_PRESENTATION" not in ast.unparse(hits[0]):
        fail(w, "guarded block does not request a presentation")
    out.append("Definition is_sensor_test : vtest := %s." %
               vtest(t.values[2], w, lambda e: ast.unparse(e) == "self.protocol_version"))
    # Sensor.protocol_version setter
    w = "Sensor.protocol_version.setter"
    prop = sensor.Sensor.__dict__.get("protocol_version")
    if not isinstance(prop, property) or prop.fset is None or prop.fget is None:
        fail(w, "not a property with setter")
    getter = strip_doc(func_ast(prop.fget, w + " (getter)").body)
    if len(getter) != 1 or ast.unparse(getter[0]) != "return self._protocol_version":
        fail(w + " (getter)", getter[0])
    fn = func_ast(prop.fset, w)
    body = strip_doc(fn.body)
    if len(body) != 1 or [a.arg for a in fn.args.args] != ["self", "value"]:
        fail(w, "shape")
    text = ast.unparse(body[0]).replace(" ", "")
    kinds = {"self._protocol_version=safe_is_version(value)": ("SetSafeIsVersion", "safe_is_version"),
             "self._protocol_version=is_version(value)": ("SetIsVersion", "is_version"),
             "self._protocol_version=value": ("SetRaw", None)}
    if text not in kinds:
        fail(w, body[0])
    kind, used = kinds[text]
    if used and sensor.__dict__.get(used) is not getattr(validation, used):
        fail(w, f"{used} is not mysensors.validation.{used}")
    out.append("Definition sensor_setter : setter_kind := %s." % kind)
    init_default = [ast.unparse(s.value) for s in ast.walk(func_ast(sensor.Sensor.__init__, "Sensor.__init__"))
                    if isinstance(s, ast.Assign) and ast.unparse(s.targets[0]) == "self._protocol_version"]
    if len(init_default) != 1 or not re.fullmatch(r"'[0-9.]+'", init_default[0]):
        fail("Sensor.__init__", "default _protocol_version %s" % init_default)
    out.append("Definition sensor_default_version : pstr := %s." % pstr(init_default[0].strip("'")))
    # the node's table: validate_child_state uses get_const(self.protocol_version)
    vcs = ast.unparse(func_ast(sensor.Sensor.validate_child_state, "Sensor.validate_child_state")).replace(" ", "")
    if "get_const(self.protocol_version)" not in vcs or "msg.validate(self.protocol_version)" not in vcs \
            or sensor.__dict__.get("get_const") is not const.get_const:
        fail("Sensor.validate_child_state", "does not select by self.protocol_version")
    # presentation handler stores the payload as the node's version
    hp = ast.unparse(func_ast(handler.handle_presentation, "handler.handle_presentation", True)).replace(" ", "")
    if ".protocol_version=msg.payload" not in hp:
        fail("handler.handle_presentation", "node version is not taken from the payload")
    out += alert_facts(mods)
    return out


def alert_facts(mods):
    """Gateway.alert: is the event callback called when set, and is persistence marked dirty on every
    alert, only when a callback is set, or never (what makes the persistence option take effect)."""
    w = "Gateway.alert"
    fn = func_ast(mods["mysensors"].Gateway.alert, w)
    body = strip_doc(fn.body)
    if [a.arg for a in fn.args.args] != ["self", "msg"]:
        fail(w, "signature")

    def norm(e):
        return ast.unparse(e).replace(" ", "")

    def has(node, pred):
        return any(pred(n) for n in ast.walk(node))

    def is_dirty(n):
        return isinstance(n, ast.Assign) and norm(n) == "self.tasks.persistence.need_save=True"

    def is_call(n):
        return isinstance(n, ast.Call) and norm(n.func) == "self.event_callback"

    def is_exit(n):
        return isinstance(n, (ast.Return, ast.Raise))
    guard = None          # None: unconditional so far; "cb": only reached when a callback is set
    dirty, called = "DirtyNever", "false"
    for st in body:
        cb_only = guard == "cb"
        if isinstance(st, ast.If) and norm(st.test) in ("self.event_callback is None".replace(" ", ""),
                                                        "notself.event_callback") \
                and len(st.body) == 1 and isinstance(st.body[0], ast.Return) and not st.orelse:
            guard = "cb"
            continue
        if isinstance(st, ast.If) and norm(st.test) in ("self.event_callbackisnotNone", "self.event_callback") \
                and not st.orelse:
            inner_cb = True
            inner = st.body
        else:
            inner_cb = cb_only
            inner = [st]
        for sub in inner:
            if has(sub, is_call):
                if not inner_cb:
                    fail(w, "callback called without testing that it is set")
                if isinstance(sub, ast.Try):
                    if has(ast.Module(body=sub.body, type_ignores=[]), is_exit):
                        fail(w, sub)
                called = "true"
            if has(sub, is_dirty):
                if not (isinstance(sub, ast.If) and norm(sub.test) in ("self.tasks.persistence",
                                                                       "self.tasks.persistenceisnotNone")
                        and len(sub.body) == 1 and is_dirty(sub.body[0]) and not sub.orelse) and not is_dirty(sub):
                    fail(w, sub)
                dirty = "DirtyOnlyWithCallback" if inner_cb else "DirtyAlways"
            elif not has(sub, is_call) and has(sub, is_exit):
                fail(w, sub)
            elif not has(sub, is_call) and not (isinstance(sub, ast.Expr) and isinstance(sub.value, ast.Call)
                                                and norm(sub.value.func).startswith("_LOGGER.")):
                fail(w, sub)
    return ["Definition alert_calls_callback : bool := %s." % called,
            "Definition alert_dirty : dirty_kind := %s." % dirty]


# ------------------------------------------------------------------ documented examples

def examples():
    names = {n for _, n in GATEWAYS}
    rows, raw = [], []
    for fname in EXAMPLE_FILES:
        p = core.REPO / fname
        if not p.exists():
            raise TranslateError(f"{fname} missing")
        text = p.read_text(encoding="utf-8")
        if fname.endswith(".md"):
            blocks = re.findall(r"```py\n(.*?)```", text, re.S)
        else:
            blocks = [text]
        for b in blocks:
            try:
                tree = ast.parse(textwrap.dedent(b))
            except SyntaxError as exc:
                # a fragment that is not a complete program is skipped only if it shows no constructor
                if any(n + "(" in b for n in names):
                    raise TranslateError(f"{fname}: code block with a constructor does not parse: {exc}")
                continue
            for n in ast.walk(tree):
                if isinstance(n, ast.Call) and isinstance(n.func, ast.Attribute) and n.func.attr in names:
                    if any(isinstance(a, ast.Starred) for a in n.args) or any(k.arg is None for k in n.keywords):
                        fail(fname, n)
                    kws = [k.arg for k in n.keywords]
                    rows.append("mkExample %s %s %d %s" % (pstr(fname), pstr(n.func.attr), len(n.args),
                                                            plist(pstr(k) for k in kws)))
                    raw.append({"file": fname, "class": n.func.attr,
                                "pos": [ast.unparse(a) for a in n.args],
                                "kw": {k.arg: ast.unparse(k.value) for k in n.keywords}})
    if not rows:
        raise TranslateError("no constructor example found in the documentation")
    return rows, raw


# ------------------------------------------------------------------ entry

def generate():
    mods = load()
    rows = class_table(mods)
    facts = version_facts(mods)
    ex, _ = examples()
    parts = [
        "(* GENERATED by harness/translate/signatures.py from the repo's working tree - do not edit. *)",
        "From Coq Require Import List NArith ZArith Bool String.",
        "From PMS Require Import Base.PyStr Model.ConfigSyntax.",
        "Import ListNotations.",
        "Open Scope string_scope.",
        "",
        "Definition gateway_classes : list pstr :=\n  %s." % plist(pstr(n) for _, n in GATEWAYS),
        "",
        "Definition classes : list cdef := [\n%s\n]." % ";\n".join(rows),
        "",
    ] + facts + [
        "",
        "Definition doc_examples : list example := [\n  %s\n]." % ";\n  ".join(ex),
        "",
    ]
    return "\n".join(parts)


if __name__ == "__main__":
    sys.stdout.write(generate())
