"""Generate Gen/SchedAst.v: the shape of the periodic-save code, read from the AST of
the working tree's mysensors/task.py and mysensors/persistence.py (C15).

Emitted (as a value of Model.SaveSched.cfg):
  * save_sensors: the source ORDER of `need_save = False`, the serialisation call,
    rename(main -> bak), rename(tmp -> main), remove(bak); where the try starts; what
    the handler catches (live issubclass rows for OSError / RuntimeError /
    asyncio.CancelledError), what it stores into need_save, whether it re-raises;
    what a finally clause stores into need_save;
  * SyncTasks schedule_save and AsyncTasks save_on_schedule: whether the save call is
    inside a try, what that handler catches, whether its body falls through, and
    whether the re-arm statement (Timer(..., schedule_save).start() / await
    asyncio.sleep inside `while True`) follows the try;
  * stop(): cancel then final save; for asyncio whether the loop turns the
    cancellation into a normal end of the task;
  * Gateway.alert (mysensors/__init__.py): whether it stores True into need_save on
    every path.

Fail closed: any statement that is not one of the recognised forms raises
TranslateError naming the construct; nothing is guessed.
"""
import ast
import asyncio
import importlib
from pathlib import Path

from harness import core

TARGET = "SchedAst.v"


class TranslateError(Exception):
    pass


def _fail(where, node):
    what = ast.dump(node)[:160] if isinstance(node, ast.AST) else str(node)
    raise TranslateError(f"{where}: unexpected construct at line {getattr(node, 'lineno', '?')}: {what}")


def _src(node):
    return ast.unparse(node)


def _strip_doc(body):
    if body and isinstance(body[0], ast.Expr) and isinstance(body[0].value, ast.Constant) and isinstance(body[0].value.value, str):
        return body[1:]
    return body


def _find_class(tree, name):
    for n in tree.body:
        if isinstance(n, ast.ClassDef) and n.name == name:
            return n
    raise TranslateError(f"class {name} not found")


def _find_func(parent, name, kinds=(ast.FunctionDef, ast.AsyncFunctionDef)):
    for n in parent.body:
        if isinstance(n, kinds) and n.name == name:
            return n
    raise TranslateError(f"function {name} not found in {getattr(parent, 'name', '?')}")


def _is_logger_call(st):
    return (isinstance(st, ast.Expr) and isinstance(st.value, ast.Call)
            and isinstance(st.value.func, ast.Attribute)
            and isinstance(st.value.func.value, ast.Name) and st.value.func.value.id == "_LOGGER")


def _need_save_assign(st):
    """`self.need_save = <bool constant>` -> the constant, else None."""
    if (isinstance(st, ast.Assign) and len(st.targets) == 1 and _src(st.targets[0]) == "self.need_save"
            and isinstance(st.value, ast.Constant) and isinstance(st.value.value, bool)):
        return st.value.value
    return None


def _rows(module, handler, where):
    """Live classes named by an ExceptHandler -> list of (name, os, rt, cancel)."""
    if handler.name is not None and not isinstance(handler.name, str):
        _fail(where, handler)
    if handler.type is None:
        classes = [BaseException]
    else:
        try:
            val = eval(compile(ast.Expression(handler.type), "<handler>", "eval"), dict(vars(module)))  # noqa: S307
        except Exception as exc:
            raise TranslateError(f"{where}: cannot resolve handler type {_src(handler.type)}: {exc}")
        classes = list(val) if isinstance(val, tuple) else [val]
    rows = []
    for cls in classes:
        if not (isinstance(cls, type) and issubclass(cls, BaseException)):
            raise TranslateError(f"{where}: handler type {cls!r} is not an exception class")
        rows.append((cls.__name__, issubclass(OSError, cls), issubclass(RuntimeError, cls),
                     issubclass(asyncio.CancelledError, cls)))
    return rows


def _b(x):
    return "true" if x else "false"


def _handler_v(rows):
    return "[" + "; ".join(f"mkH {_b(o)} {_b(r)} {_b(c)} (* {n} *)" for n, o, r, c in rows) + "]"


def _opt_v(x):
    return "None" if x is None else f"(Some {_b(x)})"


# ------------------------------------------------------------------ save_sensors

PURE_CALLS = {"os.path.realpath", "os.path.isfile", "os.path.dirname", "os.path.splitext"}


def _calls(node):
    return [_src(c.func) for c in ast.walk(node) if isinstance(c, ast.Call)]


def _classify_save_stmt(st, state):
    """One statement of save_sensors (outside handlers) -> op name or None (neutral)."""
    where = "save_sensors"
    v = _need_save_assign(st)
    if v is not None:
        if v is False:
            return "SClear"
        _fail(where + " (need_save = True outside a handler)", st)
    if _is_logger_call(st):
        return None
    if isinstance(st, ast.Assign):
        def plain(t):       # a local name, or a tuple of local names (unpacking the result of a pure call)
            return isinstance(t, ast.Name) or (isinstance(t, ast.Tuple) and all(isinstance(e, ast.Name) for e in t.elts))
        if all(c in PURE_CALLS for c in _calls(st.value)) and all(plain(t) for t in st.targets):
            if _calls(st.value) == ["os.path.isfile"] and isinstance(st.targets[0], ast.Name):
                state["exists_var"] = st.targets[0].id
            return None
        _fail(where, st)
    if isinstance(st, ast.Expr) and isinstance(st.value, ast.Call):
        f = _src(st.value.func)
        a = st.value.args
        if f == "self._perform_file_action" and len(a) == 2 and isinstance(a[1], ast.Constant) and a[1].value == "save":
            state["tmp_expr"] = _src(a[0])
            return "SSer"
        if f == "os.rename" and len(a) == 2 and _src(a[0]) == state.get("tmp_expr") and _src(a[1]) != "self.persistence_bak":
            state["main_expr"] = _src(a[1])
            return "SRenMain"
        _fail(where, st)
    if isinstance(st, ast.If) and not st.orelse and len(st.body) == 1:
        inner = st.body[0]
        if (isinstance(st.test, ast.Name) and st.test.id == state.get("exists_var")
                and isinstance(inner, ast.Expr) and isinstance(inner.value, ast.Call)):
            f = _src(inner.value.func)
            a = inner.value.args
            if f == "os.rename" and len(a) == 2 and _src(a[1]) == "self.persistence_bak":
                state["bak_src"] = _src(a[0])
                return "SRenBak"
            if f == "os.remove" and len(a) == 1 and _src(a[0]) == "self.persistence_bak":
                return "SRemBak"
        _fail(where, st)
    _fail(where, st)


def _save_sensors(module, tree):
    cls = _find_class(tree, "Persistence")
    fn = _find_func(cls, "save_sensors", (ast.FunctionDef,))
    body = _strip_doc(fn.body)
    where = "save_sensors"
    if len(body) == 1 and isinstance(body[0], ast.With):
        # `with self.<lock>: self._save_sensors()` - saves exclude each other (a lock created in __init__); the
        # statement order that matters for a message handled DURING a save is that of _save_sensors
        w = body[0]
        lock = _src(w.items[0].context_expr) if len(w.items) == 1 and w.items[0].optional_vars is None else None
        init = _find_func(cls, "__init__", (ast.FunctionDef,))
        made = [_src(x) for x in init.body]
        if (lock is None or not lock.startswith("self.") or f"{lock} = threading.Lock()" not in made and f"{lock} = threading.RLock()" not in made
                or len(w.body) != 1 or _src(w.body[0]) != "self._save_sensors()"):
            _fail(where + " (locked wrapper)", w)
        fn = _find_func(cls, "_save_sensors", (ast.FunctionDef,))
        body = _strip_doc(fn.body)
    # 1. `if not self.need_save: return`
    if not body:
        _fail(where, fn)
    t = body[0]
    if not (isinstance(t, ast.If) and not t.orelse and _src(t.test) == "not self.need_save"
            and len(t.body) == 1 and isinstance(t.body[0], ast.Return) and t.body[0].value is None):
        _fail(where + " (first statement must be the need_save test)", t)
    state = {}
    ops = []
    protect_from = None
    handler_rows, handler_sets, handler_reraises, finally_sets = [], None, True, None
    seen_perm = False
    rest = body[1:]
    for i, st in enumerate(rest):
        # permission test: `if not os.access(..) or ..: log; return`  (only before any op)
        if (isinstance(st, ast.If) and not st.orelse and "os.access" in _calls(st.test)
                and all(c == "os.access" for c in _calls(st.test))):
            if ops or seen_perm or not (len(st.body) == 2 and _is_logger_call(st.body[0])
                                        and isinstance(st.body[1], ast.Return) and st.body[1].value is None):
                _fail(where + " (permission test)", st)
            seen_perm = True
            continue
        if isinstance(st, ast.Try):
            if protect_from is not None or i != len(rest) - 1 or st.orelse:
                _fail(where + " (one try, last statement, no else)", st)
            protect_from = len(ops)
            for s2 in st.body:
                op = _classify_save_stmt(s2, state)
                if op:
                    ops.append(op)
            if len(st.handlers) > 1:
                _fail(where + " (more than one handler)", st)
            for h in st.handlers:
                handler_rows = _rows(module, h, where)
                handler_reraises = False
                for k, s2 in enumerate(h.body):
                    v = _need_save_assign(s2)
                    if v is not None:
                        handler_sets = v
                    elif isinstance(s2, ast.Raise) and s2.exc is None and k == len(h.body) - 1:
                        handler_reraises = True
                    elif _is_logger_call(s2) or isinstance(s2, ast.Pass):
                        pass
                    else:
                        _fail(where + " handler", s2)
            for s2 in st.finalbody:
                v = _need_save_assign(s2)
                if v is not None:
                    finally_sets = v
                elif not _is_logger_call(s2):
                    _fail(where + " finally", s2)
            continue
        op = _classify_save_stmt(st, state)
        if op:
            ops.append(op)
    if not seen_perm:
        raise TranslateError("save_sensors: permission test not found")
    main_ops = [o for o in ops if o != "SClear"]
    if main_ops != ["SSer", "SRenBak", "SRenMain", "SRemBak"] or ops.count("SClear") > 1:
        raise TranslateError(f"save_sensors: unexpected statement order {ops}")
    if state.get("bak_src") != state.get("main_expr"):
        raise TranslateError("save_sensors: the file moved to the backup is not the one replaced")
    if protect_from is None:
        protect_from = len(ops)
    # the serialisers: `with open(filename, "w.."): dump(self._sensors, fh, ..); flush; fsync`
    for name, dump in (("_save_json", "json.dump"), ("_save_pickle", "pickle.dump")):
        f2 = _find_func(cls, name, (ast.FunctionDef,))
        b2 = _strip_doc(f2.body)
        ok = (len(b2) == 1 and isinstance(b2[0], ast.With) and len(b2[0].items) == 1
              and isinstance(b2[0].items[0].context_expr, ast.Call)
              and _src(b2[0].items[0].context_expr.func) == "open"
              and len(b2[0].items[0].context_expr.args) >= 2
              and isinstance(b2[0].items[0].context_expr.args[1], ast.Constant)
              and str(b2[0].items[0].context_expr.args[1].value).startswith("w"))
        if ok:
            wb = b2[0].body
            ok = (len(wb) >= 1 and isinstance(wb[0], ast.Expr) and isinstance(wb[0].value, ast.Call)
                  and _src(wb[0].value.func) == dump and wb[0].value.args
                  and _src(wb[0].value.args[0]) == "self._sensors")
            for s3 in wb[1:]:
                if not (isinstance(s3, ast.Expr) and isinstance(s3.value, ast.Call)
                        and _src(s3.value.func) in ("file_handle.flush", "os.fsync")):
                    ok = False
        if not ok:
            _fail(name, f2)
    return ops, protect_from, handler_rows, handler_sets, handler_reraises, finally_sets


# ------------------------------------------------------------------ schedules

def _handlers_fall_through(module, handlers, where, loop_exits=("Break", "Return", "Raise")):
    """rows, resumes for the handlers of the try around the save call."""
    rows, verdicts = [], []
    for h in handlers:
        rows += _rows(module, h, where)
        falls = True
        for s in h.body:
            if _is_logger_call(s) or isinstance(s, ast.Pass):
                continue
            if type(s).__name__ in loop_exits:
                falls = False
                continue
            _fail(where + " handler body", s)
        verdicts.append(falls)
    if len(set(verdicts)) > 1:
        raise TranslateError(f"{where}: handlers with different continuations")
    return rows, (verdicts[0] if verdicts else True)


def _sync_schedule(module, tree):
    cls = _find_class(tree, "SyncTasks")
    fac = _find_func(cls, "_schedule_factory")
    fb = _strip_doc(fac.body)
    if not (len(fb) == 2 and isinstance(fb[0], ast.FunctionDef) and fb[0].name == "schedule_save"
            and isinstance(fb[1], ast.Return) and _src(fb[1].value) == "schedule_save"):
        _fail("SyncTasks._schedule_factory", fac)
    arg = fac.args.args[1].arg
    body = _strip_doc(fb[0].body)
    where = "SyncTasks.schedule_save"
    if not body:
        _fail(where, fb[0])

    def is_save_call(s):
        return isinstance(s, ast.Expr) and isinstance(s.value, ast.Call) and _src(s.value) == f"{arg}()"

    first = body[0]
    if is_save_call(first):
        rows, resumes = [], True
    elif (isinstance(first, ast.Try) and not first.orelse and not first.finalbody
          and len(first.body) == 1 and is_save_call(first.body[0])):
        rows, resumes = _handlers_fall_through(module, first.handlers, where)
    else:
        _fail(where, first)
    # re-arm: X = threading.Timer(<number>, schedule_save); X.start(); self._cancel_save = X.cancel
    timer_var, started, cancel_bound = None, False, False
    for s in body[1:]:
        if (isinstance(s, ast.Assign) and len(s.targets) == 1 and isinstance(s.targets[0], ast.Name)
                and isinstance(s.value, ast.Call) and _src(s.value.func) == "threading.Timer"
                and len(s.value.args) == 2 and isinstance(s.value.args[0], ast.Constant)
                and _src(s.value.args[1]) == "schedule_save" and timer_var is None):
            timer_var = s.targets[0].id
        elif timer_var and isinstance(s, ast.Expr) and _src(s.value) == f"{timer_var}.start()":
            started = True
        elif timer_var and isinstance(s, ast.Assign) and _src(s.targets[0]) == "self._cancel_save" \
                and _src(s.value) == f"{timer_var}.cancel":
            cancel_bound = True
        else:
            _fail(where + " (re-arm)", s)
    rearm = bool(timer_var and started)
    # stop(): if self._cancel_save is not None: self._cancel_save() ... self.persistence.save_sensors()
    cancels, saves = _stop(cls, asynchronous=False)
    return rows, resumes, rearm, cancels and cancel_bound, True, saves


def _stop(cls, asynchronous):
    fn = _find_func(cls, "stop")
    where = f"{cls.name}.stop"
    cancels = saves = False
    allowed = {"self.transport.disconnect()", "self._stop_event.set()"}
    for s in _strip_doc(fn.body):
        src = _src(s)
        if _is_logger_call(s) or (isinstance(s, ast.Expr) and src in allowed):
            continue
        if isinstance(s, ast.If) and src.startswith("if not self.persistence:") and len(s.body) == 1 \
                and isinstance(s.body[0], ast.Return) and not s.orelse:
            continue
        if isinstance(s, ast.If) and "connect_task" in _src(s.test) and not s.orelse:
            continue
        if isinstance(s, ast.If) and _src(s.test) == "self._cancel_save is not None" and not s.orelse:
            want = "await self._cancel_save()" if asynchronous else "self._cancel_save()"
            for s2 in s.body:
                if isinstance(s2, ast.Expr) and _src(s2.value) == want:
                    if saves:
                        _fail(where + " (cancel after the final save)", s2)
                    cancels = True
                elif _src(s2) == "self._cancel_save = None":
                    pass
                else:
                    _fail(where, s2)
            continue
        if src == "loop = asyncio.get_running_loop()":
            continue
        if not asynchronous and src == "self.persistence.save_sensors()":
            saves = True
            continue
        if asynchronous and src == "await loop.run_in_executor(None, self.persistence.save_sensors)":
            saves = True
            continue
        _fail(where, s)
    return cancels, saves


def _async_schedule(module, tree):
    cls = _find_class(tree, "AsyncTasks")
    fac = _find_func(cls, "_schedule_factory")
    fb = _strip_doc(fac.body)
    arg = fac.args.args[1].arg
    if not (len(fb) == 3 and isinstance(fb[0], ast.AsyncFunctionDef) and fb[0].name == "save_on_schedule"
            and isinstance(fb[1], ast.AsyncFunctionDef) and fb[1].name == "schedule_save"
            and isinstance(fb[2], ast.Return) and _src(fb[2].value) == "schedule_save"):
        _fail("AsyncTasks._schedule_factory", fac)
    where = "AsyncTasks.save_on_schedule"
    body = _strip_doc(fb[0].body)
    if not (len(body) == 2 and _src(body[0]) == "loop = asyncio.get_running_loop()"
            and isinstance(body[1], ast.While) and isinstance(body[1].test, ast.Constant)
            and body[1].test.value is True and not body[1].orelse):
        _fail(where + " (loop = ...; while True:)", body[-1] if body else fb[0])
    lb = body[1].body
    outer = []
    if len(lb) == 1 and isinstance(lb[0], ast.Try) and not lb[0].orelse and not lb[0].finalbody:
        outer = lb[0].handlers
        lb = lb[0].body

    def is_save_await(s):
        return isinstance(s, ast.Expr) and _src(s.value) == f"await loop.run_in_executor(None, {arg})"

    def is_sleep(s):
        return (isinstance(s, ast.Expr) and isinstance(s.value, ast.Await) and isinstance(s.value.value, ast.Call)
                and _src(s.value.value.func) == "asyncio.sleep" and len(s.value.value.args) == 1
                and isinstance(s.value.value.args[0], ast.Constant))

    if not lb:
        _fail(where, body[1])
    first = lb[0]
    if is_save_await(first):
        rows, resumes = [], True
    elif (isinstance(first, ast.Try) and not first.orelse and not first.finalbody
          and len(first.body) == 1 and is_save_await(first.body[0])):
        rows, resumes = _handlers_fall_through(module, first.handlers, where)
    else:
        _fail(where, first)
    if len(lb) == 1:
        rearm = False
    elif len(lb) == 2 and is_sleep(lb[1]):
        rearm = True
    else:
        _fail(where + " (sleep)", lb[1])
    # outer handlers must leave the loop; do they turn a cancellation into a normal end?
    cancel_ok = False
    for h in outer:
        if not (len(h.body) == 1 and isinstance(h.body[0], (ast.Break, ast.Return))):
            _fail(where + " outer handler", h)
        if any(r[3] for r in _rows(module, h, where)):
            cancel_ok = True
    # an inner handler that swallows the cancellation keeps the task alive: not a known shape
    if resumes and any(r[3] for r in rows):
        raise TranslateError(f"{where}: the handler around the save swallows CancelledError")
    # schedule_save: task = loop.create_task(save_on_schedule()); cancel_save: task.cancel(); await task
    sb = _src(fb[1])
    for needle in ("task = loop.create_task(save_on_schedule())", "task.cancel()", "await task",
                   "self._cancel_save = cancel_save"):
        if needle not in sb:
            raise TranslateError(f"AsyncTasks.schedule_save: `{needle}` not found")
    cancels, saves = _stop(cls, asynchronous=True)
    return rows, resumes, rearm, cancels, cancel_ok, saves


def _alert(tree):
    """Gateway.alert: does it store True into need_save on every path (when persistence is on)?"""
    cls = _find_class(tree, "Gateway")
    fn = _find_func(cls, "alert", (ast.FunctionDef,))
    for st in _strip_doc(fn.body):
        if isinstance(st, (ast.Return, ast.Raise)):
            return False
        if (isinstance(st, ast.If) and _src(st.test) == "self.tasks.persistence" and not st.orelse
                and len(st.body) == 1 and _src(st.body[0]) == "self.tasks.persistence.need_save = True"):
            return True
        if _src(st) == "self.tasks.persistence.need_save = True":
            return True
        # anything else (the callback block) must not leave the function or touch the flag
        for n in ast.walk(st):
            if isinstance(n, (ast.Return, ast.Raise)):
                return False
            if isinstance(n, ast.Attribute) and n.attr == "need_save":
                return False
    return False


# ------------------------------------------------------------------ entry

def facts():
    """The extracted facts as a dict (also used by the harness for the evidence)."""
    task_py = core.REPO / "mysensors" / "task.py"
    pers_py = core.REPO / "mysensors" / "persistence.py"
    task_mod = importlib.import_module("mysensors.task")
    pers_mod = importlib.import_module("mysensors.persistence")
    for mod, path in ((task_mod, task_py), (pers_mod, pers_py)):
        if Path(mod.__file__).resolve() != path.resolve():
            raise TranslateError(f"imported {mod.__file__} is not {path}")
    init_py = core.REPO / "mysensors" / "__init__.py"
    pkg = importlib.import_module("mysensors")
    if Path(pkg.__file__).resolve() != init_py.resolve():
        raise TranslateError(f"imported {pkg.__file__} is not {init_py}")
    i_tree = ast.parse(init_py.read_text())
    t_tree = ast.parse(task_py.read_text())
    p_tree = ast.parse(pers_py.read_text())
    ops, protect_from, h_rows, h_sets, h_reraises, fin = _save_sensors(pers_mod, p_tree)
    return {
        "save": {"order": ops, "protect_from": protect_from, "handler": h_rows, "handler_sets": h_sets,
                 "handler_reraises": h_reraises, "finally_sets": fin},
        "sync": dict(zip(("handler", "resumes", "rearm", "stop_cancels", "cancel_ok", "stop_saves"),
                         _sync_schedule(task_mod, t_tree))),
        "async": dict(zip(("handler", "resumes", "rearm", "stop_cancels", "cancel_ok", "stop_saves"),
                          _async_schedule(task_mod, t_tree))),
        "alert_sets_flag": _alert(i_tree),
        "mro": {"OSError<=Exception": issubclass(OSError, Exception),
                "RuntimeError<=Exception": issubclass(RuntimeError, Exception),
                "CancelledError<=Exception": issubclass(asyncio.CancelledError, Exception)},
    }


def generate():
    f = facts()
    sv = f["save"]

    def sched(d):
        return (f"mkSchedCfg {_handler_v(d['handler'])} {_b(d['resumes'])} {_b(d['rearm'])} "
                f"{_b(d['stop_cancels'])} {_b(d['cancel_ok'])} {_b(d['stop_saves'])}")

    out = [
        "(* GENERATED by harness/translate/sched_ast.py from mysensors/task.py and",
        "   mysensors/persistence.py of the working tree - do not edit. *)",
        "From Coq Require Import List.",
        "From PMS Require Import Model.SaveSched.",
        "Import ListNotations.",
        "",
        "(* save_sensors: statements after the need_save and permission tests, in source order;",
        f"   the try starts at index {sv['protect_from']} *)",
        f"Definition gen_save_order : list sop := [{'; '.join(sv['order'])}].",
        "Definition gen_save : save_cfg :=",
        f"  mkSaveCfg gen_save_order {sv['protect_from']} {_handler_v(sv['handler'])} "
        f"{_opt_v(sv['handler_sets'])} {_b(sv['handler_reraises'])} {_opt_v(sv['finally_sets'])}.",
        "",
        "(* SyncTasks._schedule_factory.schedule_save / SyncTasks.stop *)",
        f"Definition gen_sync : sched_cfg := {sched(f['sync'])}.",
        "(* AsyncTasks._schedule_factory.save_on_schedule / AsyncTasks.stop *)",
        f"Definition gen_async : sched_cfg := {sched(f['async'])}.",
        "",
        "(* Gateway.alert stores True into need_save on every path *)",
        f"Definition gen_alert : bool := {_b(f['alert_sets_flag'])}.",
        "",
        "Definition gen_cfg : cfg := mkCfg gen_save gen_sync gen_async gen_alert.",
        "",
        "(* live MROs *)",
        f"Definition sub_OSError_Exception : bool := {_b(f['mro']['OSError<=Exception'])}.",
        f"Definition sub_RuntimeError_Exception : bool := {_b(f['mro']['RuntimeError<=Exception'])}.",
        f"Definition sub_CancelledError_Exception : bool := {_b(f['mro']['CancelledError<=Exception'])}.",
        "",
    ]
    return "\n".join(out)
