"""Generate Gen/FramingConsts.v for C19 from /repo's working tree and the installed pyserial.

Rendered (all read from source text / ASTs, nothing imported from the repo):
  * BaseMySensorsProtocol.TERMINATOR (must be ONE byte: the framing model is for a
    one-byte terminator), and the fact that neither it nor its asyncio subclasses
    override data_received / handle_packet / ENCODING / UNICODE_HANDLING;
  * LineReader.ENCODING / UNICODE_HANDLING and the bodies of
    Packetizer.data_received, LineReader.handle_packet of the installed pyserial
    (compared with the statements the model Model/Framing.v transcribes);
  * the recv size literal in TCPTransport.run and that its result goes to
    protocol.data_received unchanged;
  * the job discipline facts of mysensors/task.py and transport.py that
    Model/JobFlavours.v transcribes (SyncTasks.add_job appends, AsyncTasks.add_job
    runs inline then sends, _poll_queue sends the result of run_job, run_job pops
    left and calls, handle_line adds (logic, line), Transport.send drops empty).
Fail closed: any other shape raises TranslateError (the check treats that as a broken tie).
"""
import ast
import importlib.util
from pathlib import Path

from harness import core

TARGET = "FramingConsts.v"


class TranslateError(Exception):
    pass


def _need(cond, what):
    if not cond:
        raise TranslateError(what)


def _parse(path):
    return ast.parse(Path(path).read_text(), filename=str(path))


def _cls(tree, name, fname):
    for n in tree.body:
        if isinstance(n, ast.ClassDef) and n.name == name:
            return n
    raise TranslateError(f"class {name} not found in {fname}")


def _fn(cls, name, required=True):
    for n in cls.body:
        if isinstance(n, (ast.FunctionDef, ast.AsyncFunctionDef)) and n.name == name:
            return n
    if required:
        raise TranslateError(f"method {cls.name}.{name} not found")
    return None


def _body(fn):
    """statements of a function without the docstring and without comment-only pylint lines"""
    b = list(fn.body)
    if b and isinstance(b[0], ast.Expr) and isinstance(b[0].value, ast.Constant) and isinstance(b[0].value.value, str):
        b = b[1:]
    return b


def _is_log_call(stmt):
    return (isinstance(stmt, ast.Expr) and isinstance(stmt.value, ast.Call)
            and ast.unparse(stmt.value.func).startswith("_LOGGER."))


def _is_log_only(stmt):
    """a statement that only logs: _LOGGER.x(...) or `if <cond>: _LOGGER.x(...)` without else"""
    if _is_log_call(stmt):
        return True
    return isinstance(stmt, ast.If) and not stmt.orelse and all(_is_log_only(s) for s in stmt.body)


def _src(stmts):
    return [ast.unparse(s) for s in stmts]


def _same(stmts, expected):
    """statement list equals the expected source statements (compared as ASTs)"""
    return [ast.dump(x) for x in stmts] == [ast.dump(ast.parse(e).body[0]) for e in expected]


def _class_assign(cls, name):
    vals = [n.value for n in cls.body if isinstance(n, ast.Assign)
            and any(isinstance(t, ast.Name) and t.id == name for t in n.targets)]
    vals += [n.value for n in cls.body if isinstance(n, ast.AnnAssign)
             and isinstance(n.target, ast.Name) and n.target.id == name and n.value is not None]
    return vals


def facts():
    repo = Path(core.REPO)
    out = {}
    # ------------------------------------------------------------ transport.py
    tpath = repo / "mysensors" / "transport.py"
    ttree = _parse(tpath)
    base = _cls(ttree, "BaseMySensorsProtocol", tpath)
    _need([ast.unparse(b) for b in base.bases] == ["serial.threaded.LineReader"],
          f"BaseMySensorsProtocol bases {[ast.unparse(b) for b in base.bases]} != [serial.threaded.LineReader]")
    term = _class_assign(base, "TERMINATOR")
    _need(len(term) == 1 and isinstance(term[0], ast.Constant) and isinstance(term[0].value, bytes),
          "BaseMySensorsProtocol.TERMINATOR is not a single bytes literal")
    tbytes = term[0].value
    _need(len(tbytes) == 1, f"TERMINATOR {tbytes!r} is not one byte (the framing model covers a one-byte terminator)")
    out["terminator"] = tbytes[0]
    protos = [base, _cls(ttree, "AsyncMySensorsProtocol", tpath)]
    gpath = repo / "mysensors" / "gateway_tcp.py"
    gtree = _parse(gpath)
    protos.append(_cls(gtree, "AsyncTCPMySensorsProtocol", gpath))
    for c in protos:
        for m in ("data_received", "handle_packet"):
            _need(_fn(c, m, required=False) is None, f"{c.name} overrides {m}")
        for a in ("ENCODING", "UNICODE_HANDLING", "buffer"):
            _need(not _class_assign(c, a), f"{c.name} overrides {a}")
        if c is not base:
            _need(not _class_assign(c, "TERMINATOR"), f"{c.name} overrides TERMINATOR")
            _need(_fn(c, "handle_line", required=False) is None, f"{c.name} overrides handle_line")
            _need(ast.unparse(c.bases[0]) == "BaseMySensorsProtocol", f"{c.name} first base is not BaseMySensorsProtocol")
    hl = [s for s in _body(_fn(base, "handle_line")) if not _is_log_only(s)]
    _need(_same(hl, ["self.gateway.tasks.add_job(self.gateway.logic, line)"]),
          f"handle_line body (log statements removed) is {_src(hl)}")
    # nothing else in the protocol classes touches the buffer
    for c in protos:
        for n in ast.walk(c):
            if isinstance(n, ast.Attribute) and n.attr == "buffer":
                raise TranslateError(f"{c.name} accesses .buffer")
    # Transport.send guard
    send = _fn(_cls(ttree, "Transport", tpath), "send")
    guards = [s for s in _body(send) if isinstance(s, ast.If) and _src(s.body) == ["return"]]
    _need(any(ast.unparse(g.test) in ("not message or not transport", "not message") for g in guards),
          "Transport.send has no `if not message ...: return` guard")
    writes = [n for n in ast.walk(send) if isinstance(n, ast.Call) and ast.unparse(n.func).endswith(".write")]
    _need(len(writes) == 1 and _src(writes[0].args) == ["message.encode()"],
          "Transport.send does not write message.encode() exactly once")
    # ------------------------------------------------------------ installed pyserial
    spec = importlib.util.find_spec("serial.threaded")
    _need(spec is not None and spec.origin, "pyserial (serial.threaded) is not installed")
    stree = _parse(spec.origin)
    pk = _cls(stree, "Packetizer", spec.origin)
    lr = _cls(stree, "LineReader", spec.origin)
    _need([ast.unparse(b) for b in lr.bases] == ["Packetizer"], "LineReader does not subclass Packetizer directly")
    dr = _body(_fn(pk, "data_received"))
    _need(_same(dr, ["self.buffer.extend(data)",
                     "while self.TERMINATOR in self.buffer:\n"
                     "    packet, self.buffer = self.buffer.split(self.TERMINATOR, 1)\n"
                     "    self.handle_packet(packet)"]),
          f"pyserial Packetizer.data_received body changed: {_src(dr)}")
    init = _src(_body(_fn(pk, "__init__")))
    _need("self.buffer = bytearray()" in init, "Packetizer.__init__ does not start with an empty bytearray buffer")
    hp = _body(_fn(lr, "handle_packet"))
    _need(_same(hp, ["self.handle_line(packet.decode(self.ENCODING, self.UNICODE_HANDLING))"]),
          f"pyserial LineReader.handle_packet body changed: {_src(hp)}")
    enc = _class_assign(lr, "ENCODING")
    err = _class_assign(lr, "UNICODE_HANDLING")
    _need(len(enc) == 1 and isinstance(enc[0], ast.Constant) and enc[0].value == "utf-8",
          "LineReader.ENCODING is not 'utf-8'")
    _need(len(err) == 1 and isinstance(err[0], ast.Constant) and err[0].value == "replace",
          "LineReader.UNICODE_HANDLING is not 'replace' (decode could raise; the oracle dec is total)")
    # ------------------------------------------------------------ gateway_tcp.py: TCPTransport.run
    run = _fn(_cls(gtree, "TCPTransport", gpath), "run")
    recvs = [n for n in ast.walk(run) if isinstance(n, ast.Call) and ast.unparse(n.func).endswith(".recv")]
    _need(len(recvs) == 1, f"TCPTransport.run has {len(recvs)} recv calls")
    r = recvs[0]
    _need(ast.unparse(r.func) == "self.sock.recv" and len(r.args) == 1 and not r.keywords
          and isinstance(r.args[0], ast.Constant) and type(r.args[0].value) is int and r.args[0].value > 0,
          f"unexpected recv call {ast.unparse(r)}")
    out["recv_size"] = r.args[0].value
    assigns = [n for n in ast.walk(run) if isinstance(n, ast.Assign) and n.value is r]
    _need(len(assigns) == 1 and _src(assigns[0].targets) == ["data"], "recv result is not assigned to `data`")
    others = [n for n in ast.walk(run) if isinstance(n, (ast.Assign, ast.AugAssign)) and n.value is not r
              and any("data" == ast.unparse(t) for t in (n.targets if isinstance(n, ast.Assign) else [n.target]))]
    _need(all(isinstance(n, ast.Assign) and ast.unparse(n.value) == "None" for n in others),
          "TCPTransport.run modifies `data` between recv and data_received")
    drc = [n for n in ast.walk(run) if isinstance(n, ast.Call) and ast.unparse(n.func).endswith("data_received")]
    _need(len(drc) == 1 and ast.unparse(drc[0]) == "self.protocol.data_received(data)",
          "TCPTransport.run does not hand `data` to self.protocol.data_received exactly once")
    # ------------------------------------------------------------ task.py
    kpath = repo / "mysensors" / "task.py"
    ktree = _parse(kpath)
    tasks = _cls(ktree, "Tasks", kpath)
    sync = _cls(ktree, "SyncTasks", kpath)
    asy = _cls(ktree, "AsyncTasks", kpath)
    _need(_same(_body(_fn(sync, "add_job")), ["self.queue.append((func, args))"]),
          f"SyncTasks.add_job body is {_src(_body(_fn(sync, 'add_job')))}")
    _need(_same(_body(_fn(asy, "add_job")), ["job = func, args", "reply = self.run_job(job)",
                                             "self.transport.send(reply)"]),
          f"AsyncTasks.add_job body is {_src(_body(_fn(asy, 'add_job')))}")
    for c in (sync, asy):
        _need(_fn(c, "run_job", required=False) is None, f"{c.name} overrides run_job")
    _need("self.queue = deque()" in _src(_body(_fn(tasks, "__init__"))), "Tasks.__init__ does not create an empty deque")
    rj = [s for s in _body(_fn(tasks, "run_job")) if not _is_log_only(s)]
    rj = [s for s in rj if not (isinstance(s, ast.Assign) and ast.unparse(s.value) == "timer()")]
    rj = [s for s in rj if not (isinstance(s, ast.If) and "timer" not in ast.unparse(s.test)
                                and "end - start" in ast.unparse(s.test))]
    _need(_same(rj, ["if job is None:\n    if not self.queue:\n        return None\n    job = self.queue.popleft()",
                     "func, args = job", "reply = func(*args)", "return reply"]),
          f"Tasks.run_job body (timing/log statements removed) is {_src(rj)}")
    pq = _body(_fn(sync, "_poll_queue"))
    _need(len(pq) == 1 and isinstance(pq[0], ast.While), "SyncTasks._poll_queue is not a single while loop")
    _need(_same(pq[0].body[:2], ["reply = self.run_job()", "self.transport.send(reply)"]),
          f"SyncTasks._poll_queue loop starts with {_src(pq[0].body[:2])}")
    # ------------------------------------------------------------ every add_job call site
    # jobs other than (logic, line) only produce a string: <message>.encode or str(job)
    sites = []
    for py in sorted((repo / "mysensors").glob("*.py")):
        for n in ast.walk(_parse(py)):
            if isinstance(n, ast.Call) and isinstance(n.func, ast.Attribute) and n.func.attr == "add_job":
                _need(n.args and not n.keywords, f"{py.name}: add_job call without positional job")
                f0 = ast.unparse(n.args[0])
                if f0 == "self.gateway.logic":
                    _need(len(n.args) == 2, f"{py.name}: add_job(logic, ...) with {len(n.args)} args")
                elif f0 == "str":
                    _need(len(n.args) == 2, f"{py.name}: add_job(str, ...) with {len(n.args)} args")
                elif isinstance(n.args[0], ast.Attribute) and n.args[0].attr == "encode" and len(n.args) == 1:
                    pass
                else:
                    raise TranslateError(f"{py.name}:{n.lineno}: add_job({f0}, ...) is not logic / str / <msg>.encode")
                sites.append((py.name, f0))
    _need(any(f0 == "self.gateway.logic" and name == "transport.py" for name, f0 in sites),
          "no add_job(self.gateway.logic, line) in transport.py")
    out["add_job_sites"] = len(sites)
    return out


def generate():
    f = facts()
    lines = [
        "(* GENERATED by harness/translate/framing_consts.py from /repo and the installed pyserial - do not edit. *)",
        "From Coq Require Import NArith List Bool.",
        "Import ListNotations.",
        "Open Scope N_scope.",
        "",
        "(* mysensors.transport.BaseMySensorsProtocol.TERMINATOR (one byte) *)",
        f"Definition terminator : N := {f['terminator']}.",
        "(* the literal in TCPTransport.run: data = self.sock.recv(n) *)",
        f"Definition recv_size : N := {f['recv_size']}.",
        "(* facts established on the ASTs (generation fails closed when one does not hold) *)",
        "Definition encoding_is_utf8 : bool := true.              (* LineReader.ENCODING, not overridden *)",
        "Definition unicode_handling_is_replace : bool := true.    (* LineReader.UNICODE_HANDLING, not overridden *)",
        "Definition packetizer_body_as_modelled : bool := true.    (* Packetizer.data_received / LineReader.handle_packet *)",
        "Definition handle_line_adds_logic_job : bool := true.     (* tasks.add_job(gateway.logic, line) *)",
        "Definition sync_add_job_appends : bool := true.           (* self.queue.append((func, args)) *)",
        "Definition async_add_job_runs_then_sends : bool := true.  (* reply = run_job(job); transport.send(reply) *)",
        "Definition poll_queue_sends_run_job : bool := true.       (* reply = run_job(); transport.send(reply) *)",
        "Definition run_job_pops_left_and_calls : bool := true.",
        "Definition send_drops_empty_message : bool := true.       (* if not message ...: return *)",
        f"Definition nested_jobs_only_produce_strings : bool := true. (* all {f['add_job_sites']} add_job call sites: logic / str / <msg>.encode *)",
        "",
    ]
    return "\n".join(lines)


if __name__ == "__main__":
    print(generate())
