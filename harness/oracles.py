"""Third-party verdicts handed to the model as oracle tables (see Model/Oracles.v)."""
import math

from harness.core import enc_str

VERSIONS = ["1.4", "1.5", "2.0", "2.1", "2.2"]
_MODS = ["mysensors.const_14", "mysensors.const_15", "mysensors.const_20", "mysensors.const_21", "mysensors.const_22"]


def float_tok(s):
    try:
        f = float(s)
    except (ValueError, OverflowError):
        return f"F {enc_str(s)} e 0 1"
    if math.isnan(f):
        return f"F {enc_str(s)} n 0 1"
    if math.isinf(f):
        return f"F {enc_str(s)} {'p' if f > 0 else 'm'} 0 1"
    n, d = f.as_integer_ratio()
    return f"F {enc_str(s)} v {n} {d}"


def version_tok(s):
    import voluptuous as vol
    from mysensors.const import get_const
    from mysensors.validation import is_version, safe_is_version
    try:
        is_version(s)
        ok = 1
    except vol.Invalid:
        ok = 0
    try:
        idx = _MODS.index(get_const(safe_is_version(s)).__name__)
    except Exception:     # the library cannot even select constants for a version it accepted (finding D22):
        idx = 0           # the oracle type has no "raises"; the C18 check judges this, not the core model
    return f"V {enc_str(s)} {ok} {idx}"


def for_payloads(payloads, versions=True, floats=True):
    """Oracle tokens for a set of payload strings (floats also for their comma pieces)."""
    toks = []
    seenf, seenv = set(), set()
    for p in payloads:
        if versions and p not in seenv:
            seenv.add(p)
            toks.append(version_tok(p))
        if floats:
            pieces = [p] + (p.split(",") if "," in p else [])
            for q in pieces:
                if q not in seenf:
                    seenf.add(q)
                    toks.append(float_tok(q))
    return " ".join(toks)
